import numpy as np, warnings, itertools
from fractions import Fraction as F
warnings.simplefilter('ignore')
from pybaselines import Baseline
rng = np.random.default_rng(3)
def DtD_apply(v, d):
    # exact: D^T D v with Fractions
    n = len(v); u = list(v)
    for _ in range(d): u = [u[i+1]-u[i] for i in range(len(u)-1)]
    # now D^T u
    for _ in range(d):
        m = len(u); u = [(-u[0])] + [u[i-1]-u[i] for i in range(1, m)] + [u[m-1]]
    return u
worst = {}
for N in (8, 50, 400):
    x = np.linspace(0, 1, N)
    y = np.sin(5*x)*3 + rng.normal(0, .1, N) + 2*np.exp(-((x-.4)/.03)**2)
    for d, lam, solver in itertools.product((1,2,3,4), (1e-2, 1e2, 1e6, 1e10), (1,2,3,4)):
        b = Baseline(x); b.banded_solver = solver
        v, p = b.asls(y, lam=lam, diff_order=d, max_iter=3, tol=0)
        # returned weights are rule(v) at exhaustion; get the weights used: rerun with max_iter=2 -> weights returned = those used at iter 3
        _, p2 = b.asls(y, lam=lam, diff_order=d, max_iter=2, tol=0)
        w = p2['weights']
        vf = [F(float(t)) for t in v]; wf = [F(float(t)) for t in w]; yf = [F(float(t)) for t in y]; lf = F(lam)
        Pv = DtD_apply(vf, d)
        res = [wf[i]*vf[i] + lf*Pv[i] - wf[i]*yf[i] for i in range(N)]
        # ||A||_inf <= max w + lam*4^d
        normA = max(wf) + lf * 4**d
        be = max(abs(r) for r in res) / (normA*max(abs(t) for t in vf) + max(abs(wf[i]*yf[i]) for i in range(N)))
        key = (N, d)
        worst[key] = max(worst.get(key, 0), float(be))
for k, v in sorted(worst.items()): print(k, '%.2e' % v, 'in eps units: %.1f' % (v/2.2e-16))
