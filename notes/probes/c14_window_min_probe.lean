def winMin (g : Int → Int) (h : Nat) (i : Int) : Int :=
  (List.range (2 * h + 1)).foldl (fun acc (k : Nat) => min acc (g (i - h + k))) (g (i - h))

theorem foldl_min_le (l : List Nat) (a : Int) (b : Nat → Int) :
    l.foldl (fun acc k => min acc (b k)) a ≤ a := by
  induction l generalizing a with
  | nil => simp
  | cons x xs ih => simp only [List.foldl]; exact Int.le_trans (ih _) (Int.min_le_left _ _)

theorem foldl_min_le_mem (l : List Nat) (a : Int) (b : Nat → Int) (k : Nat) (hk : k ∈ l) :
    l.foldl (fun acc k => min acc (b k)) a ≤ b k := by
  induction l generalizing a with
  | nil => cases hk
  | cons x xs ih =>
    simp only [List.foldl]
    rcases List.mem_cons.mp hk with rfl | h
    · exact Int.le_trans (foldl_min_le xs _ b) (Int.min_le_right _ _)
    · exact ih _ h

theorem winMin_le (g : Int → Int) (h : Nat) (i : Int) (j : Int) (hj : -(h:Int) ≤ j ∧ j ≤ h) :
    winMin g h i ≤ g (i + j) := by
  unfold winMin
  have hk : (j + h).toNat ∈ List.range (2 * h + 1) := by
    simp only [List.mem_range]; omega
  have := foldl_min_le_mem (List.range (2*h+1)) (g (i - h)) (fun k => g (i - h + k)) (j + h).toNat hk
  have e : i - (h:Int) + ((j + h).toNat : Int) = i + j := by omega
  rw [← e]; exact this
#print axioms winMin_le
