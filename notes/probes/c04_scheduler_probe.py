import numpy as np, threading, warnings
warnings.simplefilter('ignore')
from pybaselines import Baseline
import pybaselines._algorithm_setup as S

SHARED = {'x', '_size', '_shape', '_polynomial', '_spline_basis', '_validated_x', '_Algorithm__size',
          'vandermonde', 'poly_order', 'pinv_stale', '_pseudo_inverse'}
class Sched:
    """Deterministic scheduler: threads run one at a time; at each shared access the running
    thread yields to the scheduler, which picks the next thread according to `plan`."""
    def __init__(self, plan): self.plan = list(plan); self.cv = threading.Condition(); self.turn = None; self.alive = set(); self.log = []
    def point(self, tid, kind, name):
        with self.cv:
            self.log.append((tid, kind, name))
            self.turn = None; self.cv.notify_all()
            while self.turn != tid: self.cv.wait()
    def run(self, funcs):
        threads = {}
        results = {}
        def body(tid, f):
            with self.cv:
                while self.turn != tid: self.cv.wait()
            try: results[tid] = ('ok', f())
            except Exception as e: results[tid] = ('err', type(e).__name__, str(e))
            with self.cv:
                self.alive.discard(tid); self.turn = None; self.cv.notify_all()
        for tid, f in enumerate(funcs):
            self.alive.add(tid); t = threading.Thread(target=body, args=(tid, f)); threads[tid] = t; t.start()
        i = 0
        with self.cv:
            while self.alive:
                want = self.plan[i] if i < len(self.plan) else min(self.alive)
                i += 1
                if want not in self.alive: want = min(self.alive)
                self.turn = want; self.cv.notify_all()
                while self.turn is not None: self.cv.wait()
        for t in threads.values(): t.join()
        return results

cur = threading.local()
def make_proxy_class(base, sched):
    class P(base):
        def __getattribute__(self, name):
            if name in SHARED and getattr(cur, 'tid', None) is not None:
                sched.point(cur.tid, 'R', name)
            return base.__getattribute__(self, name)
        def __setattr__(self, name, value):
            if name in SHARED and getattr(cur, 'tid', None) is not None:
                sched.point(cur.tid, 'W', name)
            base.__setattr__(self, name, value)
    return P

y = np.random.default_rng(0).normal(size=30)
def trial(plan):
    sched = Sched(plan)
    P = make_proxy_class(Baseline, sched)
    obj = P()   # no x
    def call(tid):
        def f():
            cur.tid = tid
            return obj.asls(y, lam=10.)[0].sum()
        return f
    r = sched.run([call(0), call(1)])
    return r, sched.log
r, log = trial([0]*3 + [1]*50)
print(r); print(log[:12])
r, log = trial([0]*50)
print(r)
