import Mathlib.Algebra.BigOperators.Group.Finset.Basic
import Mathlib.Algebra.BigOperators.Intervals
import Mathlib.Tactic.Ring
import Mathlib.Tactic.Linarith
import Mathlib.Tactic.IntervalCases

open Finset

def c2 : Nat → Int
  | 0 => 1 | 1 => -2 | 2 => 1 | _ => 0

def D2 (r c : Nat) : Int := if r ≤ c then c2 (c - r) else 0

def DtD2 (n i j : Nat) : Int := ∑ r ∈ range (n - 2), D2 r i * D2 r j

def closed2 (n i j : Nat) : Int :=
  if j = i then
    (if i = 0 ∨ i = n - 1 then 1 else if i = 1 ∨ i = n - 2 then 5 else 6)
  else if j = i + 1 then (if i = 0 ∨ i = n - 2 then -2 else -4)
  else if j = i + 2 then 1 else 0

theorem sum_window (n i : Nat) (f : Nat → Int) (hf : ∀ r, ¬ (r ≤ i ∧ i ≤ r + 2) → f r = 0) :
    ∑ r ∈ range n, f r =
      (if i < n then f i else 0) + (if 1 ≤ i ∧ i - 1 < n then f (i-1) else 0)
      + (if 2 ≤ i ∧ i - 2 < n then f (i-2) else 0) := by
  induction n with
  | zero => simp
  | succ n ih =>
    rw [sum_range_succ, ih]
    by_cases h : n ≤ i ∧ i ≤ n + 2
    · obtain ⟨h1, h2⟩ := h
      have : i = n ∨ i = n + 1 ∨ i = n + 2 := by omega
      rcases this with rfl | rfl | rfl <;> simp <;> split_ifs <;> simp_all <;> omega
    · rw [hf n h]
      split_ifs <;> omega

theorem c2_big (k : Nat) (h : 3 ≤ k) : c2 k = 0 := by
  match k, h with
  | k+3, _ => rfl


theorem D2_0 (i : Nat) : D2 i i = 1 := by simp [D2, c2]
theorem D2_1 (i : Nat) : D2 i (i+1) = -2 := by simp [D2, c2]
theorem D2_2 (i : Nat) : D2 i (i+2) = 1 := by simp [D2, c2]
theorem D2_lt (r c : Nat) (h : c < r) : D2 r c = 0 := by simp [D2]; omega
theorem D2_big (r c : Nat) (h : r + 3 ≤ c) : D2 r c = 0 := by
  have h1 : r ≤ c := by omega
  have : 3 ≤ c - r := by omega
  simp [D2, h1, c2_big _ this]

theorem DtD2_closed (n i t : Nat) (hn : 5 ≤ n) (hj : i + t < n) :
    DtD2 n i (i + t) = closed2 n i (i + t) := by
  unfold DtD2
  rw [sum_window (n - 2) (i+t) (fun r => D2 r i * D2 r (i+t))]
  · match t with
    | 0 =>
      simp only [Nat.add_zero, closed2]
      have e1 : 1 ≤ i → D2 (i-1) i = -2 := by
        intro h; have := D2_1 (i-1); rwa [Nat.sub_add_cancel h] at this
      have e2 : 2 ≤ i → D2 (i-2) i = 1 := by
        intro h; have := D2_2 (i-2); rwa [Nat.sub_add_cancel h] at this
      rcases Nat.lt_or_ge i 2 with h | h
      · interval_cases i <;> simp [D2_0, D2_1] <;> split_ifs <;> omega
      · simp only [e1 (by omega), e2 h, D2_0]
        split_ifs <;> omega
    | 1 => sorry
    | 2 => sorry
    | t+3 => sorry
  · intro r hr
    rw [D2_big r (i+t) (by omega)] <;> simp
    sorry
