/-! Prototype M1 with lists and `getD`. -/

def takeL (a : List α) (d : α) (idx : List Nat) : List α := idx.map (fun i => a.getD i d)

def scatterUpTo (σ : List Nat) : Nat → List Nat
  | 0 => List.replicate σ.length 0
  | k+1 => (scatterUpTo σ k).set (σ.getD k 0) k

/-- `inv = empty(n); inv[σ] = arange(n)` -/
def invertedSort (σ : List Nat) : List Nat := scatterUpTo σ σ.length

def IsPerm (σ : List Nat) : Prop :=
  (∀ i, i < σ.length → σ.getD i 0 < σ.length) ∧
  (∀ i j, i < σ.length → j < σ.length → σ.getD i 0 = σ.getD j 0 → i = j)

theorem scatter_len (σ : List Nat) (k : Nat) : (scatterUpTo σ k).length = σ.length := by
  induction k with
  | zero => simp [scatterUpTo]
  | succ k ih => simp [scatterUpTo, ih]

theorem scatter_spec (σ : List Nat) (hσ : IsPerm σ) (k : Nat) (hk : k ≤ σ.length) :
    ∀ i, i < k → (scatterUpTo σ k).getD (σ.getD i 0) 0 = i := by
  induction k with
  | zero => intro i hi; omega
  | succ k ih =>
    intro i hi
    have hlen := scatter_len σ k
    simp only [scatterUpTo]
    by_cases hik : i = k
    · subst hik
      have hb : σ.getD i 0 < (scatterUpTo σ i).length := by rw [hlen]; exact hσ.1 i (by omega)
      simp only [List.getD_eq_getElem?_getD] at hb ⊢
      simp [List.getElem?_set, hb]
    · have hi' : i < k := by omega
      have hne : σ.getD k 0 ≠ σ.getD i 0 := by
        intro h; exact hik ((hσ.2 k i (by omega) (by omega) h).symm)
      have := ih (by omega) i hi'
      simp only [List.getD_eq_getElem?_getD] at this hne ⊢
      rw [List.getElem?_set_ne hne]; exact this

theorem invertedSort_left (σ : List Nat) (hσ : IsPerm σ) (i : Nat) (hi : i < σ.length) :
    (invertedSort σ).getD (σ.getD i 0) 0 = i :=
  scatter_spec σ hσ σ.length (Nat.le_refl _) i hi

/-- un-sorting after sorting gives the array back, entry by entry over σ's image -/
theorem take_invert (a : List α) (d : α) (σ : List Nat) (hσ : IsPerm σ) (i : Nat) (hi : i < σ.length) :
    (takeL (takeL a d σ) d (invertedSort σ)).getD (σ.getD i 0) d = a.getD (σ.getD i 0) d := by
  have hb : σ.getD i 0 < σ.length := hσ.1 i hi
  have hl : (invertedSort σ).length = σ.length := scatter_len σ _
  unfold takeL
  rw [List.getD_eq_getElem?_getD, List.getElem?_map]
  have h1 : (invertedSort σ)[σ.getD i 0]? = some i := by
    have := invertedSort_left σ hσ i hi
    rw [List.getD_eq_getElem?_getD] at this
    rw [List.getElem?_eq_getElem (by rw [hl]; exact hb)] at this ⊢
    simpa using this
  simp only [h1, Option.map_some, Option.getD_some]
  rw [List.getD_eq_getElem?_getD, List.getElem?_map]
  rw [List.getElem?_eq_getElem hi]
  simp [List.getD_eq_getElem?_getD, List.getElem?_eq_getElem hi]

#eval invertedSort [2,0,3,1]
#eval takeL (takeL [10,20,30,40] 0 [2,0,3,1]) 0 (invertedSort [2,0,3,1])
#print axioms take_invert
