/-! Prototype: spec side of C11 in offset form, clamp invariance, and the ∀n theorem via decide. -/

structure Assign where
  row : Int
  lo  : Option Int
  hi  : Option Int
  val : Int
deriving DecidableEq, Repr

def normB (b : Int) (n : Nat) : Int := if 0 ≤ b then min b n else max (n + b) 0
def covers (a : Assign) (rows n : Nat) (r c : Nat) : Bool :=
  let rr : Int := if 0 ≤ a.row then a.row else rows + a.row
  let lo : Int := match a.lo with | none => 0 | some b => normB b n
  let hi : Int := match a.hi with | none => n | some b => normB b n
  decide (rr = r) && decide (lo ≤ c) && decide ((c : Int) < hi)
def bandAt (init : Int) (tbl : List Assign) (rows n r c : Nat) : Int :=
  tbl.foldl (fun acc a => if covers a rows n r c then a.val else acc) init
def clamp (K n n' c : Nat) : Nat :=
  if c < K then c else if n - 1 - c < K then n' - 1 - (n - 1 - c) else K

/-- signed binomial row of the d-th difference: D[k, k+m] = coef d m -/
def coef : Nat → Nat → Int
  | 0, 0 => 1
  | 0, _+1 => 0
  | d+1, 0 => - coef d 0
  | d+1, m+1 => coef d m - coef d (m+1)

/-- (D'D)[i, i+t] in offset form: sum over the rows k = i - m that exist (0 ≤ i-m ≤ n-d-1) -/
def dtdOff (n d i t : Nat) : Int :=
  ((List.range (d+1)).map fun m =>
    if m ≤ i ∧ i - m + d < n ∧ m + t ≤ d then coef d m * coef d (m + t) else 0).sum

/-- LAPACK lower storage of D'D: ab[r, c] = A[c + r, c] = A[c, c+r] (symmetric), zero past the end -/
def specLower (n d r c : Nat) : Int := if c + r < n then dtdOff n d c r else 0

theorem dtdOff_clamp (K n n' d c r : Nat) (hK : 2 * d ≤ K) (hr : r ≤ d)
    (hn : 2 * K + 1 ≤ n) (hn' : 2 * K + 1 ≤ n') (hc : c < n) :
    specLower n d r c = specLower n' d r (clamp K n n' c) := by
  unfold specLower dtdOff clamp
  have hcond : (c + r < n) ↔ ((if c < K then c else if n - 1 - c < K then n' - 1 - (n - 1 - c) else K) + r < n') := by
    split <;> (try split) <;> omega
  by_cases h : c + r < n
  · rw [if_pos h, if_pos (hcond.mp h)]
    congr 1
    apply List.map_congr_left
    intro m hm
    have hm' : m ≤ d := by simp at hm; omega
    have : (m ≤ c ∧ c - m + d < n ∧ m + r ≤ d) ↔
        (m ≤ (if c < K then c else if n - 1 - c < K then n' - 1 - (n - 1 - c) else K) ∧
         (if c < K then c else if n - 1 - c < K then n' - 1 - (n - 1 - c) else K) - m + d < n' ∧ m + r ≤ d) := by
      split <;> (try split) <;> omega
    simp only [this]
  · rw [if_neg h, if_neg (fun h' => h (hcond.mpr h'))]

def diff2Lower : List Assign := [
  ⟨-1, some (-1), none, 0⟩, ⟨-1, some (-2), some (-1), 0⟩, ⟨-2, some (-1), none, 0⟩,
  ⟨-2, some 0, some 1, -2⟩, ⟨-2, some (-2), some (-1), -2⟩, ⟨-2, some 1, some (-2), -4⟩,
  ⟨-3, some 1, some 2, 5⟩, ⟨-3, some (-2), some (-1), 5⟩, ⟨-3, some 2, some (-2), 6⟩ ]

#eval (List.range 3).map fun r => (List.range 9).map fun c => specLower 9 2 r c
#eval (List.range 3).map fun r => (List.range 9).map fun c => bandAt 1 diff2Lower 3 9 r c

/-- the finite obligation at the single reduced size n' = 2K+1 = 9 (K = 4) -/
theorem diff2_at9 : ∀ r, r < 3 → ∀ c, c < 9 → bandAt 1 diff2Lower 3 9 r c = specLower 9 2 r c := by
  decide
