import numpy as np, warnings
warnings.simplefilter('ignore')
from pybaselines import Baseline, Baseline2D
from scipy.ndimage import grey_erosion, grey_dilation, grey_opening
rng = np.random.default_rng(1)
# (4) reflect model vs scipy for windows larger than data
def refl(n, i):
    m = i % (2*n)
    return m if m < n else 2*n - 1 - m
def erode(f, h):
    n = len(f); return np.array([min(f[refl(n, i + j)] for j in range(-h, h+1)) for i in range(n)])
def dilate(f, h):
    n = len(f); return np.array([max(f[refl(n, i + j)] for j in range(-h, h+1)) for i in range(n)])
bad = 0
for n in range(1, 9):
    for h in range(1, 12):
        f = rng.integers(-5, 6, n).astype(float)
        e = grey_erosion(f, [2*h+1]); d = grey_dilation(f, [2*h+1]); o = grey_opening(f, [2*h+1])
        if not (np.array_equal(e, erode(f, h)) and np.array_equal(d, dilate(f, h)) and np.array_equal(o, dilate(erode(f, h), h))):
            bad += 1; print('mismatch', n, h, f, e, erode(f,h))
print('reflect model mismatches:', bad)
# (2) bit exactness of sorted-run vs unsorted-run
N = 80
x = np.sort(rng.uniform(0, 10, N)); y = np.sin(x) + 0.1*rng.normal(size=N) + 3*np.exp(-(x-5)**2)
perm = rng.permutation(N)
res = {}
for m, kw in [('asls', {}), ('arpls', {}), ('aspls', {}), ('drpls', {}), ('pspline_asls', dict(num_knots=12)), ('modpoly', {}), ('loess', {}), ('mor', {}), ('snip', {}), ('fabc', {}), ('mpls', {}), ('rubberband', {}), ('golotvin', {}), ('pspline_drpls', dict(num_knots=12)), ('beads', {}), ('custom_bc', {}), ('optimize_extended_range', {}), ('collab_pls', None)]:
    if kw is None:
        Y = np.vstack([y, y*1.1]); b0, _ = Baseline(x).collab_pls(Y); b1, _ = Baseline(x[perm]).collab_pls(Y[:, perm]); print(m, np.array_equal(b1, b0[:, perm]), np.abs(b1-b0[:,perm]).max()); continue
    b0, p0 = getattr(Baseline(x), m)(y, **kw)
    b1, p1 = getattr(Baseline(x[perm]), m)(y[perm], **kw)
    print(m, np.array_equal(b1, b0[perm]), np.abs(b1 - b0[perm]).max())
# (1) 2D pspline_iasls
M, K = 12, 15
xx = np.linspace(0, 5, M); zz = np.linspace(0, 7, K)
Y = np.add.outer(xx, zz**1.5) + rng.normal(0, .05, (M, K))
px = rng.permutation(M); pz = rng.permutation(K)
b0, _ = Baseline2D(xx, zz).pspline_iasls(Y, max_iter=0, tol=0, num_knots=6)
b1, _ = Baseline2D(xx[px], zz[pz]).pspline_iasls(Y[px][:, pz], max_iter=0, tol=0, num_knots=6)
print('2D pspline_iasls', np.abs(b1 - b0[px][:, pz]).max())
