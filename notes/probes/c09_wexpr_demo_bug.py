"""(1) a bug in the REAL function (monkey-patched in this process only) is caught by the c09.wexpr correspondence;
(2) a bug in the TRANSLATOR (unary minus dropped) is caught by the same correspondence after the driver is rebuilt."""
import os, subprocess, sys, warnings, ast
warnings.simplefilter('ignore')
ROOT = os.environ.get('PBV_ROOT') or os.path.dirname(os.path.dirname(os.path.dirname(os.path.abspath(__file__))))
os.environ['PBV_ROOT'] = ROOT
sys.path.insert(0, os.path.join(ROOT, 'harness'))
import tempfile
SCRATCH = tempfile.mkdtemp(prefix='c09_wexpr_')
import numpy as np
from scipy.special import expit
from pbv import c09, common, translate, translate_weights as TW
from pybaselines import _weighting as W

def run(label):
    ctx = common.Ctx('C09', 'quick', 0)
    dis = []
    c09.wexpr_level(ctx, ctx.np_rng(), dis)
    sigs = sorted(set(d.signature for d in dis))
    print(f'{label}: {len(dis)} disagreements, signatures {sigs}')
    if dis:
        print('   e.g.', dis[0].detail[:230])

run('clean')
orig = W._aspls
def bad_aspls(y, baseline, asymmetric_coef):
    w, r, e = orig(y, baseline, asymmetric_coef)
    if e:
        return w, r, e
    neg = r[r < 0]
    std = W._safe_std(neg, ddof=1)
    return expit(-(asymmetric_coef / std) * (r - 2 * std)), r, e     # std -> 2 std
W._aspls = bad_aspls
run('real _aspls uses 2*std')
W._aspls = orig
orig_l = W._lsrpls
W._lsrpls = lambda y, b, it: orig_l(y, b, min(it, 50))           # cap 100 -> 50
run('real _lsrpls caps the iteration at 50')
W._lsrpls = orig_l

# translator bug: unary minus dropped
orig_ev = TW.Exec.ev
def bad_ev(self, node):
    if isinstance(node, ast.UnaryOp) and isinstance(node.op, ast.USub):
        return orig_ev(self, node.operand)
    return orig_ev(self, node)
TW.Exec.ev = bad_ev
TW.gen_weight_exprs(translate._write)
p = subprocess.run(['lake', 'build', 'pbdriver'], cwd=os.path.join(ROOT, 'lean'), capture_output=True, text=True)
print('driver rebuilt with the buggy translation rc', p.returncode)
run('translator drops unary minus')
TW.Exec.ev = orig_ev
TW.gen_weight_exprs(translate._write)
p = subprocess.run(['lake', 'build', 'PbVerif.Props.C09', 'pbdriver'], cwd=os.path.join(ROOT, 'lean'), capture_output=True, text=True)
print('restored rc', p.returncode)
run('clean again')
