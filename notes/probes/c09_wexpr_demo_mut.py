"""demonstration on scratch COPIES of _weighting.py (never /repo): which named theorems fail after an edit of the source"""
import os, re, subprocess, sys
ROOT = os.environ.get('PBV_ROOT') or os.path.dirname(os.path.dirname(os.path.dirname(os.path.abspath(__file__))))
os.environ['PBV_ROOT'] = ROOT
sys.path.insert(0, os.path.join(ROOT, 'harness'))
import tempfile
SCRATCH = tempfile.mkdtemp(prefix='c09_wexpr_')
SRC = open(os.path.join(os.environ.get('PBV_REPO', '/repo'), 'pybaselines', '_weighting.py')).read()
MUTS = {
 'arpls_2std_to_std': ("weights = expit(-(2 / std) * (residual - (2 * std - np.mean(neg_residual))))", "weights = expit(-(2 / std) * (residual - (std - np.mean(neg_residual))))"),
 'aspls_sign': ("weights = expit(-(asymmetric_coef / std) * (residual - std))", "weights = expit(-(asymmetric_coef / std) * (residual + std))"),
 'drpls_cap_50': ("inner = (np.exp(min(iteration, 100)) / std) * (residual - (2 * std - np.mean(neg_residual)))", "inner = (np.exp(min(iteration, 50)) / std) * (residual - (2 * std - np.mean(neg_residual)))"),
 'psalsa_p_to_1mp': ("weights[mask] = p * np.exp(-residual[mask] / k)", "weights[mask] = (1 - p) * np.exp(-residual[mask] / k)"),
 'quantile_drop_minfloat': ("denominator = np.sqrt(residual**2 + max(eps, _MIN_FLOAT))", "denominator = np.sqrt(residual**2 + eps)"),
 'HARMLESS_reassoc': ("weights = 0.5 * (1 - (inner / (1 + np.abs(inner))))\n    return weights, exit_early\n\n\ndef _iarpls", "weights = (1 - (inner / (np.abs(inner) + 1))) * 0.5\n    return weights, exit_early\n\n\ndef _iarpls"),
 'OUTSIDE_fragment': ("weights = np.where(y > baseline, p, 1 - p)", "weights = np.where(y >= baseline, p, 1 - p)"),
}
LEAN = os.path.join(ROOT, 'lean')
def thm_at(file, line):
    src = open(os.path.join(LEAN, file)).read().split('\n')
    for i in range(line - 1, -1, -1):
        m = re.match(r'\s*(theorem|example)\s*(\S*)', src[i])
        if m:
            return m.group(2) or f'example@{i+1}'
    return '?'
which = sys.argv[1:] or list(MUTS)
for name in which:
    a, b = MUTS[name]
    assert SRC.count(a) == 1, name
    path = os.path.join(SCRATCH, name + '.py')
    open(path, 'w').write(SRC.replace(a, b))
    os.environ['PBV_WEIGHTING_SRC'] = path
    from pbv import translate, translate_weights
    fails, _ = translate_weights.gen_weight_exprs(translate._write)
    p = subprocess.run(['lake', 'build', 'PbVerif.Props.C09'], cwd=LEAN, capture_output=True, text=True)
    errs = sorted(set(re.findall(r'error: (\S+\.lean):(\d+)', p.stdout + p.stderr)))
    print(f'== {name}: translate fails={fails} build rc={p.returncode}')
    for f, l in errs:
        print(f'     {f}:{l}  {thm_at(f, int(l))}')
del os.environ['PBV_WEIGHTING_SRC']
translate_weights.gen_weight_exprs(translate._write)
p = subprocess.run(['lake', 'build', 'PbVerif.Props.C09', 'pbdriver'], cwd=LEAN, capture_output=True, text=True)
print('restored: build rc', p.returncode)
