import numpy as np, warnings
warnings.simplefilter('ignore')
from pybaselines import Baseline, Baseline2D
rng = np.random.default_rng(0)
N=60
x = np.linspace(0, 10, N)
y = 5*np.exp(-(x-4)**2) + 0.1*x + rng.normal(0, 0.05, N) + 1
perm = rng.permutation(N)
def cmp(method, **kw):
    b0, p0 = getattr(Baseline(x), method)(y, **kw)
    b1, p1 = getattr(Baseline(x[perm]), method)(y[perm], **kw)
    d = np.abs(b1 - b0[perm]).max()
    return d
for m, kw in [('asls', dict(max_iter=1, tol=0)), ('iasls', dict(max_iter=0, tol=0)), ('iasls', dict(max_iter=50)),
              ('pspline_iasls', dict(max_iter=0, tol=0)), ('adaptive_minmax', dict(poly_order=2)),
              ('mpls', {}), ('fabc', {}), ('pspline_mpls', {})]:
    print(m, kw, cmp(m, **kw))
# 2D
M, K = 12, 15
xx = np.linspace(0, 5, M); zz = np.linspace(0, 7, K)
Y = np.add.outer(xx, zz**1.5) + rng.normal(0, .05, (M, K))
px = rng.permutation(M); pz = rng.permutation(K)
def cmp2(method_, **kw):
    b0, _ = getattr(Baseline2D(xx, zz), method_)(Y, **kw)
    b1, _ = getattr(Baseline2D(xx[px], zz[pz]), method_)(Y[px][:, pz], **kw)
    return np.abs(b1 - b0[px][:, pz]).max()
for m, kw in [('asls', dict(max_iter=1, tol=0, num_eigens=None)), ('iasls', dict(max_iter=0, tol=0)), ('individual_axes', dict(method='asls')),
              ('adaptive_minmax', dict(poly_order=2)), ('poly', {})]:
    print('2D', m, kw, cmp2(m, **kw))
# half-window bypass
for m in ['golotvin', 'std_distribution', 'fastchrom']:
    for hw in [0, -1, 2.5]:
        try:
            getattr(Baseline(x), m)(y, half_window=hw); print(m, hw, 'returned')
        except Exception as e:
            print(m, hw, type(e).__name__, e)
