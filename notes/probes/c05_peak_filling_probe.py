import numpy as np, warnings, sys
warnings.simplefilter('ignore')
from pybaselines import Baseline
N=int(sys.argv[1])
x=np.linspace(0,1,N); y=np.random.default_rng(0).normal(size=N)
b,p=Baseline(x).peak_filling(y)
print('ok', np.isfinite(b).all())
