import numpy as np, itertools
from pybaselines._banded_utils import PenalizedSystem, diff_penalty_diagonals
import pybaselines._banded_utils as bu
def dense(ps, N):
    # denote according to flags (non-pentapy): lapack lower / full, maybe reversed
    ab = ps.penalty / ps.lam
    if ps.reversed: ab = ab[::-1]
    A = np.zeros((N, N))
    if ps.lower:
        for r in range(ab.shape[0]):
            for j in range(N - r):
                A[j + r, j] = ab[r, j]; A[j, j + r] = ab[r, j]
    else:
        u = ab.shape[0] // 2
        for r in range(ab.shape[0]):
            for j in range(N):
                i = j + r - u
                if 0 <= i < N: A[i, j] = ab[r, j]
    return A
N = 9
bad = []
for has_p in (True, False):
    bu._HAS_PENTAPY = has_p
    cfgs = list(itertools.product([1, 2, 3], [True, False], [None, False, True], [True, False]))
    for c1 in cfgs:
        for c2 in cfgs:
            ps = PenalizedSystem(N, 1, *c1)
            ps.reset_diagonals(1, *c2)
            fresh = PenalizedSystem(N, 1, *c2)
            if ps.penalty.shape != fresh.penalty.shape or not np.array_equal(ps.penalty, fresh.penalty):
                bad.append((has_p, c1, c2))
print(len(bad)); print(bad[:12])
from collections import Counter
# classify failures: is the starting config lower+reversed?
def start_flags(has_p, c):
    d, allow_lower, rev, allow_p = c
    using = allow_p and has_p and d == 2
    lower = allow_lower and not using
    needs_rev = bool(rev) or (using and rev is None)
    return lower, needs_rev
cnt = Counter()
for has_p, c1, c2 in bad:
    cnt[(start_flags(has_p, c1), start_flags(has_p, c2))] += 1
for k, v in sorted(cnt.items()): print(k, v)
