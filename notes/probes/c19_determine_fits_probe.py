import numpy as np, warnings
warnings.simplefilter('ignore')
from pybaselines import polynomial
x = np.array([0., 1., 2., 10.])
w, f, s = polynomial._determine_fits.py_func(x, 4, 4, 100.0)
print(w, f, s)
x = np.array([0., 1., 2., 3., 4., 20.])
print(polynomial._determine_fits.py_func(x, 6, 6, 100.0))
print(polynomial._determine_fits.py_func(x, 6, 5, 100.0))
# N=1
try:
    print(polynomial._determine_fits.py_func(np.array([0.]), 1, 1, 0.0))
except Exception as e: print('N=1', type(e).__name__, e)
try:
    print(polynomial._determine_fits.py_func(np.array([0., 1.]), 2, 2, 0.0))
except Exception as e: print('N=2', type(e).__name__, e)
