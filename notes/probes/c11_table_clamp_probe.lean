/-! Prototype: generated slice-assignment tables, generic interpreter, clamp lemma, decide at one size. -/

/-- one numpy statement `output[row, lo:hi] = val` (python indices; `none` = open end) -/
structure Assign where
  row : Int
  lo  : Option Int
  hi  : Option Int
  val : Int
deriving DecidableEq, Repr

/-- numpy normalisation of a slice bound against length n -/
def normB (b : Int) (n : Nat) : Int := if 0 ≤ b then min b n else max (n + b) 0

def covers (a : Assign) (rows n : Nat) (r c : Nat) : Bool :=
  let rr : Int := if 0 ≤ a.row then a.row else rows + a.row
  let lo : Int := match a.lo with | none => 0 | some b => normB b n
  let hi : Int := match a.hi with | none => n | some b => normB b n
  decide (rr = r) && decide (lo ≤ c) && decide ((c : Int) < hi)

/-- last writer wins -/
def bandAt (init : Int) (tbl : List Assign) (rows n r c : Nat) : Int :=
  tbl.foldl (fun acc a => if covers a rows n r c then a.val else acc) init

/-- all constants in the table are bounded by K -/
def bounded (K : Nat) (a : Assign) : Prop :=
  (∀ b, a.lo = some b → -(K:Int) ≤ b ∧ b ≤ K) ∧ (∀ b, a.hi = some b → -(K:Int) ≤ b ∧ b ≤ K)

/-- clamp a column of an n-wide array to the corresponding column of an n'-wide array -/
def clamp (K n n' c : Nat) : Nat :=
  if c < K then c else if n - 1 - c < K then n' - 1 - (n - 1 - c) else K

theorem normB_clamp_le (K n n' c : Nat) (b : Int) (hb : -(K:Int) ≤ b ∧ b ≤ K)
    (hn : 2 * K + 1 ≤ n) (hn' : 2 * K + 1 ≤ n') (hc : c < n) :
    (normB b n ≤ c) ↔ (normB b n' ≤ (clamp K n n' c : Nat)) := by
  unfold normB clamp
  split <;> split <;> (try split) <;> omega

theorem normB_clamp_lt (K n n' c : Nat) (b : Int) (hb : -(K:Int) ≤ b ∧ b ≤ K)
    (hn : 2 * K + 1 ≤ n) (hn' : 2 * K + 1 ≤ n') (hc : c < n) :
    ((c:Int) < normB b n) ↔ (((clamp K n n' c : Nat) : Int) < normB b n') := by
  unfold normB clamp
  split <;> split <;> (try split) <;> omega

theorem clamp_lt (K n n' c : Nat) (hn : 2 * K + 1 ≤ n) (hn' : 2 * K + 1 ≤ n') (hc : c < n) :
    clamp K n n' c < n' := by
  unfold clamp; split <;> (try split) <;> omega

theorem covers_clamp (K : Nat) (a : Assign) (ha : bounded K a) (rows n n' r c : Nat)
    (hn : 2 * K + 1 ≤ n) (hn' : 2 * K + 1 ≤ n') (hc : c < n) :
    covers a rows n r c = covers a rows n' r (clamp K n n' c) := by
  obtain ⟨hlo, hhi⟩ := ha
  have h0 : (0:Int) ≤ (clamp K n n' c : Nat) := Int.natCast_nonneg _
  have hcl := clamp_lt K n n' c hn hn' hc
  unfold covers
  cases hl : a.lo with
  | none =>
    cases hh : a.hi with
    | none => simp [hc, hcl]
    | some bh =>
      have := normB_clamp_lt K n n' c bh (hhi bh hh) hn hn' hc
      simp [this]
  | some bl =>
    have h1 := normB_clamp_le K n n' c bl (hlo bl hl) hn hn' hc
    cases hh : a.hi with
    | none => simp [hc, hcl, h1]
    | some bh =>
      have h2 := normB_clamp_lt K n n' c bh (hhi bh hh) hn hn' hc
      simp [h1, h2]

theorem bandAt_clamp (K : Nat) (init : Int) (tbl : List Assign) (ht : ∀ a ∈ tbl, bounded K a)
    (rows n n' r c : Nat) (hn : 2 * K + 1 ≤ n) (hn' : 2 * K + 1 ≤ n') (hc : c < n) :
    bandAt init tbl rows n r c = bandAt init tbl rows n' r (clamp K n n' c) := by
  unfold bandAt
  induction tbl generalizing init with
  | nil => rfl
  | cons a t ih =>
    simp only [List.foldl]
    rw [covers_clamp K a (ht a (List.mem_cons_self ..)) rows n n' r c hn hn' hc]
    exact ih _ (fun b hb => ht b (List.mem_cons_of_mem _ hb))

/- the table a translator would emit for `_diff_2_diags(lower_only=True)` (init = ones) -/
def diff2Lower : List Assign := [
  ⟨-1, some (-1), none, 0⟩, ⟨-1, some (-2), some (-1), 0⟩, ⟨-2, some (-1), none, 0⟩,
  ⟨-2, some 0, some 1, -2⟩, ⟨-2, some (-2), some (-1), -2⟩, ⟨-2, some 1, some (-2), -4⟩,
  ⟨-3, some 1, some 2, 5⟩, ⟨-3, some (-2), some (-1), 5⟩, ⟨-3, some 2, some (-2), 6⟩ ]

instance (K : Nat) (a : Assign) : Decidable (bounded K a) := by
  unfold bounded
  cases a.lo <;> cases a.hi <;> simp <;> infer_instance

#eval (List.range 3).map fun r => (List.range 7).map fun c => bandAt 1 diff2Lower 3 7 r c
#print axioms bandAt_clamp
