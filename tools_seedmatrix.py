#!/usr/bin/env python3
"""Applies every seeded change under seeded/ to a SCRATCH copy of the repository (never /repo) and runs the quick checks
against it; prints, per seeded change, which checks report a violation.  Meant for `vp run --with-repo`:

    vp run --with-repo --timeout 6h -- python3 tools_seedmatrix.py [--checks C01,C02,...] [--seeds C04,...]

The scratch repository is $VP_RUN_REPO (a snapshot of /repo's HEAD); PBV_REPO / PYTHONPATH point the checks at it."""
import argparse
import glob
import json
import os
import subprocess
import sys
import time

HERE = os.path.dirname(os.path.abspath(__file__))


def main():
    ap = argparse.ArgumentParser()
    ap.add_argument('--checks', default='')
    ap.add_argument('--seeds', default='')
    ap.add_argument('--repo', default=os.environ.get('VP_RUN_REPO', ''))
    ap.add_argument('--out', default='seedmatrix.json')
    ap.add_argument('--part', default='', help='i/n: only the seeds whose index is i modulo n')
    ap.add_argument('--noclean', action='store_true')
    ap.add_argument('--own', action='store_true', help='run only the check of the property each seed was written for')
    a = ap.parse_args()
    repo = a.repo
    if not repo or os.path.realpath(repo) == '/repo':
        sys.exit('refusing to run on /repo itself: give a scratch copy with --repo or run under `vp run --with-repo`')
    man = json.load(open(os.path.join(HERE, 'MANIFEST.json')))
    checks = [c['property_id'] for c in man['checks']]
    if a.checks:
        checks = [c for c in checks if c in a.checks.split(',')]
    seeds = sorted(glob.glob(os.path.join(HERE, 'seeded', '*')))
    if a.seeds:
        seeds = [s for s in seeds if os.path.basename(s).split('_')[0] in a.seeds.split(',')]
    if a.part:
        i, n = (int(v) for v in a.part.split('/'))
        seeds = [sd for k, sd in enumerate(seeds) if k % n == i]
    env = dict(os.environ, PBV_REPO=repo, PYTHONPATH=repo, VERIF_TIER='quick')
    subprocess.run(['./check', '--setup'], cwd=HERE, env=env)
    result = {}

    def run_checks(label, only=None):
        row = {}
        for c in (checks if only is None else [c for c in checks if c == only]):
            t = time.time()
            p = subprocess.run(['./check', c], cwd=HERE, env=env, stdout=subprocess.PIPE, stderr=subprocess.STDOUT, text=True)
            viol = [ln for ln in p.stdout.splitlines() if ln.startswith('VIOLATION')]
            row[c] = {'exit': p.returncode, 'violations': len(viol), 'first': next((ln for ln in p.stdout.splitlines() if ln.startswith(f'[{c}] c')), '')[:300],
                      'seconds': round(time.time() - t, 1)}
            print(f'{label:34s} {c} exit={p.returncode} violations={len(viol)} {row[c]["seconds"]}s', flush=True)
        return row
    if not a.noclean:
        result['clean'] = run_checks('clean')
    for sd in seeds:
        name = os.path.basename(sd)
        patch = os.path.join(sd, 'patch.diff')
        r = subprocess.run(['git', '-C', repo, 'apply', patch], stdout=subprocess.PIPE, stderr=subprocess.STDOUT, text=True)
        if r.returncode != 0:
            print(f'{name}: patch does not apply: {r.stdout[:300]}', flush=True)
            result[name] = {'error': 'patch does not apply'}
            continue
        try:
            result[name] = run_checks(name, only=name.split('_')[0] if a.own else None)
        finally:
            subprocess.run(['git', '-C', repo, 'checkout', '--', '.'])
        json.dump(result, open(a.out, 'w'), indent=1)
    json.dump(result, open(a.out, 'w'), indent=1)
    print('\nSUMMARY (seed: checks that report a violation)')
    for name, row in result.items():
        if 'error' in row:
            print(f'{name}: {row["error"]}')
        else:
            print(f'{name}: ' + (' '.join(c for c, v in row.items() if v['exit'] == 1) or '-'))


if __name__ == '__main__':
    main()
