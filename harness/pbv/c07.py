"""C07 — penalised-spline baselines solve the documented P-spline system."""
import glob
import json
import os
from fractions import Fraction

import numpy as np

from . import methods as M
from .common import Disagreement, drive, q, qs, parse_qs, ROOT

PROP_MODULE = 'PbVerif.Props.C07'
RULE = ('cases = (host, x pattern, x-axis magnitude kind (methods.X_MAGNITUDES: scales 1e-30 ... 1e30, huge offsets with a narrow range, negative '
        'ranges - the exact-rational certificates are scale free; a call that raises / goes non-finite ONLY on such an axis while the same '
        'call on the reference axis returns is reported), N, num_knots, spline_degree, diff_order, lam, user/default weights, iteration index): every spline '
        'produced along the iteration (coefficients c and returned B c captured at PSpline.solve_pspline / PSpline2D.solve) is checked, in '
        'exact rational arithmetic inside the Lean driver, against the DOCUMENTED system (B\'WB + lam D\'D) c = B\'W y built from the Cox-de '
        'Boor definition of B on the captured knots (iasls / drpls / aspls extras; Kronecker form in 2-D) with the weights in force at that '
        'step (recorded from the reweighting rule); returned B c against the exact B c; knots against an independent recomputation '
        '(equally spaced, spanning the x-range); converged runs: returned baseline with returned weights; non-trivial = more points than '
        'bases or a rank-deficient B\'WB repaired by the penalty; distinct by canonical tuple; further stage: the banded (lhs, rhs) that '
        'solve_pspline hands to PenalizedSystem.solve in pspline_iasls / pspline_drpls / pspline_aspls (every banded_solver) against the '
        'Lean assembly models asmPIasls / asmPDrpls / asmPAspls, within (N + 16 (degree + 1) + 64) eps of the largest term')
ASSUMPTIONS = [
    'the banded / sparse solvers (LAPACK, pentapy, SuperLU) are trusted only through the exact normwise backward error of each output: '
    'threshold 1e-11 (measured on the unchanged tree: see notes; a mis-assembled band gives > 1e-6)',
    'the weights in force at step k are the k-th output of the reweighting rule (recorded by wrapping pybaselines._weighting); hosts '
    'without such a rule (mixture_model, irsqr, pspline_mpls, pspline_brpls) are checked against the weights handed to the solve',
    'np.interp (drpls / aspls midpoint interpolation) is modelled exactly over the rationals (Model/PSpline.npInterp)',
]
BERR_MAX = 1e-11
EPS = np.finfo(float).eps

STD = ['pspline_asls', 'pspline_airpls', 'pspline_arpls', 'pspline_iarpls', 'pspline_psalsa', 'pspline_derpsalsa', 'pspline_lsrpls']
SOLVE_LEVEL = ['mixture_model', 'irsqr', 'pspline_mpls', 'pspline_brpls']
KIND = {'std': 0, 'iasls': 1, 'drpls': 2, 'aspls': 3}


class Capture:
    """records every PSpline.solve_pspline / PSpline2D.solve call and every reweighting-rule output"""

    def __init__(self):
        self.solves = []
        self.rules = []
        self.saved = []
        self.system = None

    def __enter__(self):
        from pybaselines import _spline_utils as su, _weighting as W
        from pybaselines.two_d import _spline_utils as su2
        cap = self
        orig = su.PSpline.solve_pspline

        def solve_pspline(obj, y, weights, penalty=None, rhs_extra=None):
            y0, w0 = np.array(y, dtype=float, copy=True), np.array(weights, dtype=float, copy=True)
            cap.system = None
            out = orig(obj, y, weights, penalty, rhs_extra)
            cap.solves.append({'y': y0, 'w': w0, 'coef': np.array(obj.coef, copy=True), 'out': np.array(out, copy=True), 'system': cap.system,
                               'knots': np.array(obj.basis.knots, copy=True), 'deg': int(obj.basis.spline_degree),
                               'x': np.array(obj.basis.x, copy=True), 'd': int(obj.diff_order), 'lam': float(np.asarray(obj.lam)),
                               'num_knots': int(obj.basis.num_knots), 'custom_penalty': penalty is not None, 'extra': rhs_extra is not None})
            return out
        su.PSpline.solve_pspline = solve_pspline
        self.saved.append((su.PSpline, 'solve_pspline', orig))
        from pybaselines import _banded_utils as bu
        orig_solve = bu.PenalizedSystem.solve

        def solve(obj, lhs, rhs, *a, **k):
            if isinstance(obj, su.PSpline):
                # `solve_pspline` passes overwrite_ab=True: copy first
                cap.system = {'lhs': np.array(lhs, dtype=float, copy=True), 'rhs': np.array(rhs, dtype=float, copy=True), 'lower': bool(obj.lower)}
            return orig_solve(obj, lhs, rhs, *a, **k)
        bu.PenalizedSystem.solve = solve
        self.saved.append((bu.PenalizedSystem, 'solve', orig_solve))
        orig2 = su2.PSpline2D.solve

        def solve2(obj, y, weights, penalty=None, rhs_extra=None):
            y0, w0 = np.array(y, dtype=float, copy=True), np.array(weights, dtype=float, copy=True)
            out = orig2(obj, y, weights, penalty, rhs_extra)
            b = obj.basis
            cap.solves.append({'y': y0, 'w': w0, 'coef': np.array(obj.coef, copy=True).reshape(b._num_bases), 'out': np.array(out, copy=True),
                               'knots_r': np.array(b.knots_r, copy=True), 'knots_c': np.array(b.knots_c, copy=True),
                               'deg': tuple(int(v) for v in b.spline_degree), 'x': np.array(b.x, copy=True), 'z': np.array(b.z, copy=True),
                               'd': tuple(int(v) for v in obj.diff_order), 'lam': tuple(float(v) for v in obj.lam),
                               'num_knots': tuple(int(v) for v in b.num_knots), 'custom_penalty': penalty is not None,
                               'extra': rhs_extra is not None})
            return out
        su2.PSpline2D.solve = solve2
        self.saved.append((su2.PSpline2D, 'solve', orig2))
        for nm, fn in list(vars(W).items()):
            if nm.startswith('_') and callable(fn) and nm != '_safe_std' and getattr(fn, '__module__', '') == W.__name__:
                def wrapper(*a, __fn=fn, **k):
                    out = __fn(*a, **k)
                    w = out[0] if isinstance(out, tuple) else out
                    cap.rules.append(np.array(w, dtype=float, copy=True))
                    return out
                setattr(W, nm, wrapper)
                self.saved.append((W, nm, fn))
        return self

    def __exit__(self, *exc):
        for obj, nm, fn in self.saved:
            setattr(obj, nm, fn)


def make_x(rng, pattern, n):
    if pattern == 'uniform':
        return np.linspace(-3.0, 7.0, n)
    if pattern == 'random':
        return np.sort(rng.uniform(0, 50, n))
    if pattern == 'clustered':
        c = np.concatenate([rng.normal(2, 0.05, n // 2), rng.normal(9, 0.4, n - n // 2 - 2), [0.0, 12.0]])
        return np.sort(c)
    if pattern == 'unsorted':
        return rng.permutation(np.sort(rng.uniform(-5, 5, n)))
    if pattern == 'reversed':
        return np.linspace(4.0, -1.0, n)
    raise ValueError(pattern)


def make_y(rng, x):
    t = (x - x.min()) / (x.max() - x.min())
    return 4 + 2 * t + 6 * np.exp(-((t - 0.4) / 0.07) ** 2) + 3 * np.exp(-((t - 0.8) / 0.05) ** 2) + rng.normal(0, 0.1, len(x))


def ideal_knots(x, num_knots, deg):
    """equally spaced inner knots spanning the x-range plus `deg` knots of the same spacing on each side"""
    lo, hi = float(np.min(x)), float(np.max(x))
    dx = (hi - lo) / (num_knots - 1)
    return np.array([lo + (j - deg) * dx for j in range(num_knots + 2 * deg)])


def knots_problem(knots, x, num_knots, deg):
    want = ideal_knots(x, num_knots, deg)
    if len(knots) != len(want):
        return f'{len(knots)} knots instead of {len(want)}'
    span = float(np.max(x) - np.min(x))
    err = float(np.max(np.abs(knots - want)))
    # relative to the span, plus the rounding of the knots themselves (a few ulp of the largest knot: on 1.7e9 + [0, 1e3] or
    # 1e6 + [0, 1e-3] no float grid is equally spaced to 1e-12 of the span)
    if err > 1e-12 * max(span, 1e-300) * (1 + deg) + 8 * EPS * float(np.max(np.abs(want))):
        return f'knots differ from the equally spaced grid over the x-range by {err:.3g}'
    if knots[deg] != np.min(x) or knots[len(knots) - 1 - deg] != np.max(x):
        return 'the inner knots do not start / end exactly on the x-range'
    return None


def berr_line(kind, sv, w, aux, p1):
    return (f'c07.berr {KIND[kind]} {sv["deg"]} {sv["d"]} {q(sv["lam"])} {q(p1)} {qs(sv["knots"])} {qs(sv["x"])} {qs(sv["y"])} {qs(w)} '
            f'{qs(aux) if len(aux) else "-"} {qs(sv["coef"])}')


def asmx_line(kind, sv, w, aux, p1):
    """the Lean assembly model of the system `solve_pspline` hands to the banded solver (iasls / drpls / aspls)"""
    return (f'c07.asmx {KIND[kind]} {sv["deg"]} {sv["d"]} {q(sv["lam"])} {q(p1)} {int(sv["system"]["lower"])} {qs(sv["knots"])} {qs(sv["x"])} '
            f'{qs(sv["y"])} {qs(w)} {qs(aux) if len(aux) else "-"}')


def asmx_compare(r, sv, kind, vec=None, p1=0.0):
    """None if the captured (lhs, rhs) agree with the model's answer `r`, else a description.  Entries are sums of at most four
    terms (B'WB, lam D'D, D1 / lam_1 terms, the row-scaled product), each evaluated in floating point with a few roundings, and may
    cancel; a B'WB / B'Wy entry accumulates up to N products of two de Boor values (a few roundings per degree each) and a weight: the
    tolerance is (N + 16 (degree + 1) + 64) eps relative to the largest term (measured: 3 eps), plus the sensitivity of np.interp to the
    rounding of the midpoints for drpls / aspls (below).  pspline_iasls: SciPy stores B'D1'D1B only up to its last non-zero
    diagonal, the model keeps every band; zero rows denote nothing, so the captured array is padded with zero rows first."""
    from math import comb
    a, b_ = r.split('|')
    pred = np.array([[float(v) for v in parse_qs(row)] for row in a.split(';')])
    prhs = np.array([float(v) for v in parse_qs(b_)])
    lhs, rhs, lower = sv['system']['lhs'], sv['system']['rhs'], sv['system']['lower']
    if kind == 'iasls' and pred.shape[0] > lhs.shape[0] and (lower or (pred.shape[0] - lhs.shape[0]) % 2 == 0):
        k = pred.shape[0] - lhs.shape[0]
        z = np.zeros((k if lower else k // 2, lhs.shape[1]))
        lhs = np.concatenate((lhs, z)) if lower else np.concatenate((z, lhs, z))
    if pred.shape != lhs.shape or prhs.shape != rhs.shape:
        return f'shape {lhs.shape} / {rhs.shape} instead of {pred.shape} / {prhs.shape}', 0.0
    scale = max(float(np.max(np.abs(pred))), abs(sv['lam']) * comb(2 * sv['d'], sv['d']))
    err = float(np.max(np.abs(pred - lhs))) / scale
    rscale = max(float(np.max(np.abs(prhs))), float(np.max(np.abs(sv['y']))) * 1e-300)
    err2 = float(np.max(np.abs(prhs - rhs))) / max(rscale, 1e-300)
    tol = (len(sv['x']) + 16 * (sv['deg'] + 1) + 64) * EPS
    if kind in ('drpls', 'aspls') and vec is not None and len(vec) > 1:
        # np.interp is evaluated at the FLOAT midpoints (even degree: 0.5 * (t[i] + t[i+1]), off the exact midpoint by up to an ulp of the
        # knots), the model at the exact ones; interp changes by at most (largest slope of the interpolated array) * (that offset), and
        # the result multiplies lam * D'D (times eta for drpls)
        dx = np.diff(sv['x'])
        ok = dx > 0
        if np.any(ok):
            slope = float(np.max(np.abs(np.diff(np.asarray(vec, dtype=float))[ok]) / dx[ok]))
            offs = float(np.spacing(np.max(np.abs(sv['knots']))))
            tol += 2 * slope * offs * (abs(p1) if kind == 'drpls' else 1.0) * abs(sv['lam']) * comb(2 * sv['d'], sv['d']) / scale
    if err > tol or err2 > tol:
        return f'lhs differs by {err:.3g}, rhs by {err2:.3g} (relative to the largest term)', max(err, err2)
    return None, max(err, err2)


def mat(a):
    return ';'.join(qs(r) for r in np.asarray(a, dtype=float))


def interp_allowance(kind, sv, vec, p1):
    """pspline_drpls / pspline_aspls scale the rows of lam D'D by an array interpolated (np.interp) at the basis midpoints.  For even
    degree the code's midpoints 0.5 * (t[i] + t[i+1]) are FLOATS, off the exact midpoints the certificate uses by up to an ulp of the
    knots; np.interp moves by at most (largest slope of the interpolated array) * (that offset), so row i of the system moves by at most
    that * lam * |(D'D c)_i| <= ... * lam * 4^d * max|c|.  Returned: this absolute allowance on the residual (0 for the other kinds and
    for odd degree, whose midpoints are knots).  Negligible (1e-14 relative) on ordinary axes; on 1e6 + [0, 1e-3] an ulp of the knots is
    1e-7 of the range and the term is what the rounding of the midpoints legitimately costs."""
    if kind not in ('drpls', 'aspls') or sv['deg'] % 2 == 1 or vec is None or len(vec) < 2:
        return 0.0
    dx = np.diff(np.asarray(sv['x'], dtype=float))
    ok = dx > 0
    if not np.any(ok):
        return 0.0
    slope = float(np.max(np.abs(np.diff(np.asarray(vec, dtype=float))[ok]) / dx[ok]))
    offs = float(np.spacing(np.max(np.abs(sv['knots']))))
    return 2.0 * (abs(p1) if kind == 'drpls' else 1.0) * slope * offs * abs(sv['lam']) * 4.0 ** sv['d'] * float(np.max(np.abs(sv['coef'])))


# ---------------------------------------------------------------------------------------------------------------------------------
# One CASE = one call of a spline host, described by a JSON-able `meta` (section, host, x, y, kw, ...).  `case_*` re-execute the call
# under `Capture` and append the protocol lines of its certificates to `acc`; `evaluate` turns the driver's answers into
# disagreements.  `correspond` generates metas, `replay` re-executes one.
class Acc:
    def __init__(self, ctx=None):
        self.lines, self.metas, self.dis, self.ctx = [], [], [], ctx

    def count(self, key, n=1):
        if self.ctx is not None:
            self.ctx.count(key, n)

    def note(self, text):
        if self.ctx is not None:
            self.ctx.notes.append(text)


def jkw(kw):
    return {k: (v.tolist() if isinstance(v, np.ndarray) else (list(v) if isinstance(v, tuple) else v)) for k, v in kw.items()}


def unjkw(kw, two_d=False):
    out = {}
    for k, v in kw.items():
        if isinstance(v, list):
            v = tuple(v) if (two_d and len(v) == 2 and k not in ('weights', 'alpha')) else np.array(v, dtype=float)
        out[k] = v
    return out


def where(meta):
    mag = meta.get('x_magnitude', '1')
    return f'{meta.get("pattern", "?")} x' + ('' if mag == '1' else f' on the axis {mag}')


def add_bc(acc, sv, meta):
    acc.lines.append(f'c07.bc {sv["deg"]} {qs(sv["knots"])} {qs(sv["x"])} {qs(sv["coef"])}')
    acc.metas.append(('bc', meta, sv['out'], float(np.max(np.abs(sv['coef'])))))


def check_knots(acc, sv, meta):
    kp = knots_problem(sv['knots'], sv['x'], sv['num_knots'], sv['deg'])
    if kp:
        acc.dis.append(Disagreement('c07.knots', f'{meta["host"]}:knots', f'{meta["host"]} ({where(meta)}, N={meta["n"]}, num_knots={sv["num_knots"]}, '
                                    f'degree={sv["deg"]}): {kp}', meta, True))


def ref_condition(sv):
    """2-norm condition number (float estimate) of the documented system of one captured solve: the banded matrix handed to the
    solver when it was captured, else B'WB + lam D'D rebuilt with SciPy's B-splines (2-D: the Kronecker form)"""
    from scipy.interpolate import BSpline
    try:
        if 'knots_r' in sv:
            br = BSpline.design_matrix(sv['x'], sv['knots_r'], sv['deg'][0]).toarray()
            bc = BSpline.design_matrix(sv['z'], sv['knots_c'], sv['deg'][1]).toarray()
            bb = np.kron(br, bc)
            a = bb.T @ (np.asarray(sv['w'], dtype=float).ravel()[:, None] * bb)
            nbr, nbc = br.shape[1], bc.shape[1]
            dr = np.diff(np.eye(nbr), sv['d'][0], axis=0)
            dc = np.diff(np.eye(nbc), sv['d'][1], axis=0)
            a = a + sv['lam'][0] * np.kron(dr.T @ dr, np.eye(nbc)) + sv['lam'][1] * np.kron(np.eye(nbr), dc.T @ dc)
        elif sv.get('system') is not None:
            lhs, lower = sv['system']['lhs'], sv['system']['lower']
            nb = lhs.shape[1]
            a = np.zeros((nb, nb))
            if lower:
                for r in range(lhs.shape[0]):
                    idx = np.arange(nb - r)
                    a[idx + r, idx] = lhs[r, :nb - r]
                    a[idx, idx + r] = lhs[r, :nb - r]
            else:
                u = lhs.shape[0] // 2
                for r in range(lhs.shape[0]):
                    k = u - r               # row r holds diagonal k (k > 0 above the main diagonal): ab[u + i - j, j] = a[i, j]
                    for j in range(nb):
                        i = j - k
                        if 0 <= i < nb:
                            a[i, j] = lhs[r, j]
        else:
            bb = BSpline.design_matrix(sv['x'], sv['knots'], sv['deg']).toarray()
            dd = np.diff(np.eye(bb.shape[1]), sv['d'], axis=0)
            a = bb.T @ (np.asarray(sv['w'], dtype=float)[:, None] * bb) + sv['lam'] * dd.T @ dd
        if not np.all(np.isfinite(a)):
            return float('inf')
        return float(np.linalg.cond(a))
    except Exception:          # noqa: BLE001
        return float('inf')


COND_MAX = 1e10


def axis_raise(acc, meta, ex, recall, cap=None, what=None):
    """The call raised (or, with `what`, went non-finite).  On an axis of unusual magnitude the SAME call on the reference axis (the
    x the axis is an increasing affine image of: the same basis, the same system up to the rounding of x) is made: if that one
    returns a finite baseline AND the failure happened in the FIRST solve (same weights, same data on both axes) AND that system is
    well conditioned on the reference axis (cond < 1e10: a numerically singular system may fail on either axis, depending on the last
    bits), the documented P-spline baseline exists and the host failed to produce it because of the unit of x alone."""
    if ex is not None:
        acc.count(meta.get('count_raised', 'raised:') + type(ex).__name__)
    if meta.get('x_magnitude', '1') == '1' or 'x_ref' not in meta:
        return
    before = len(cap.solves) if cap is not None else 0
    if ex is not None and before > 0:
        # the first solve (identical weights and data on both axes) went through: later steps use weights that depend on the SIGNS of
        # residuals, which for an interpolating fit (N <= bases) are rounding noise - the iterations of the two axes may legitimately
        # part ways (a point losing its weight can make the next system singular).  Every completed solve is certified anyway.
        acc.count('failed-on-axis:after the first solve (not compared)')
        return
    try:
        with np.errstate(all='ignore'):
            ref = recall(True)
        ok = bool(np.all(np.isfinite(np.asarray(ref, dtype=float))))
    except Exception:          # noqa: BLE001
        ok = False
    if not ok:
        return
    conds = [ref_condition(sv) for sv in cap.solves[before:before + 1]] if cap is not None else []
    if not conds or max(conds) > COND_MAX:
        acc.count('failed-on-axis-only:reference system ill-conditioned or not captured (skipped)')
        return
    acc.count('failed-on-axis-only')
    did = f'raised {type(ex).__name__}: {str(ex)[:80]}' if ex is not None else what
    acc.dis.append(Disagreement('c07.raises', f'{meta["host"]}:fails-on-axis', f'{meta["host"]} ({where(meta)}, N={meta["n"]}, num_knots='
                                f'{meta.get("num_knots")}, degree={meta.get("deg")}, diff_order={meta.get("d")}, lam={meta.get("lam")}) {did} '
                                f'although the same call on the reference axis (same relative positions of the points, hence the same basis and the '
                                f'same first system, condition number {max(conds):.3g}) returns a baseline', meta, True))


def axes_of(meta, ref):
    if ref:
        return np.array(meta['x_ref'], dtype=float)
    return np.array(meta['x'], dtype=float)


def case_main(acc, meta, rng=None):
    """STD hosts and pspline_iasls / pspline_drpls / pspline_aspls: every solve along the iteration against the weights in force;
    with meta['solver'] (section 'asmx') only the banded systems against the Lean assembly models"""
    from pybaselines import Baseline
    host, kind = meta['host'], meta['kind']
    y = np.array(meta['y'], dtype=float)
    kw = unjkw(meta['kw'])
    asmx_only = meta.get('section') == 'asmx'
    n, num_knots, deg, d, lam, p1 = meta['n'], meta['num_knots'], meta['deg'], meta['d'], meta['lam'], meta.get('p1', 0.0)
    uw, ualpha = kw.get('weights'), kw.get('alpha')

    def call(ref=False, **over):
        fit = Baseline(axes_of(meta, ref))
        if meta.get('solver') is not None:
            fit.banded_solver = meta['solver']
        return getattr(fit, host)(y, **dict(kw, **over))

    x = axes_of(meta, False)
    with Capture() as cap:
        try:
            with np.errstate(all='ignore'):
                b, p = call()
        except Exception as ex:
            axis_raise(acc, meta, ex, lambda ref: call(ref)[0], cap)
            return None
    order = np.argsort(x, kind='mergesort')
    rules = list(cap.rules)
    w0 = np.ones(n) if uw is None else uw[order]
    if kind == 'iasls' and uw is None:
        w_seq = rules
    else:
        w_seq = [w0] + rules
    alpha = np.ones(n) if ualpha is None else ualpha[order]
    for k, sv in enumerate(cap.solves):
        if k >= len(w_seq):
            break
        wk = w_seq[k]
        if not (np.all(np.isfinite(sv['out'])) and np.all(np.isfinite(wk)) and np.all(np.isfinite(sv['coef']))):
            acc.count('nonfinite-iterate')
            if k == 0 and np.all(np.isfinite(wk)):
                # the first solve has finite weights and data: a non-finite spline on this axis only is a failure of the host
                with Capture() as capr:
                    axis_raise(acc, meta, None, lambda ref: call(ref)[0], capr, what='returns a first spline that is not finite')
            break
        if asmx_only and sv['system'] is None:
            break
        m = dict(meta, step=k)
        if not asmx_only:
            if k == 0:
                check_knots(acc, sv, m)
            acc.lines.append(berr_line(kind, sv, wk, alpha if kind == 'aspls' else [], p1))
            acc.metas.append(('berr', m, interp_allowance(kind, sv, alpha if kind == 'aspls' else wk, p1)))
            add_bc(acc, sv, m)
        if kind != 'std' and sv['system'] is not None:
            acc.lines.append(asmx_line(kind, sv, wk, alpha if kind == 'aspls' else [], p1))
            acc.metas.append(('asmx', m, sv, kind, np.array(alpha if kind == 'aspls' else wk, copy=True), p1))
            acc.count('asmx:' + kind)
        if kind == 'aspls':
            rr = np.abs(sv['y'] - sv['out'])
            alpha = rr / rr.max()
    if asmx_only:
        return cap, b, p
    # the baseline handed back is the last spline, in the caller's order
    if cap.solves and np.all(np.isfinite(b)):
        last = cap.solves[-1]['out']
        back = np.empty_like(last)
        back[order] = last
        if not np.array_equal(back, b):
            acc.dis.append(Disagreement('c07.returned', f'{host}:returned', f'{host} ({where(meta)}, N={n}): the returned baseline is not the last spline '
                                        f'B c of the iteration (max diff {float(np.max(np.abs(back - b))):.3g})', meta, True))
    # converged pair
    if meta.get('converged'):
        try:
            with Capture() as cap2:
                with np.errstate(all='ignore'):
                    b2, p2 = call(max_iter=60, tol=1e-3)
            th = p2['tol_history']
            if len(th) and len(th) < 61 and th[-1] < 1e-3 and np.all(np.isfinite(b2)) and cap2.solves:
                acc.count('converged-pair')
                sv = cap2.solves[-1]
                wret = np.asarray(p2['weights'], float)[order]
                aret = np.asarray(p2.get('alpha', []), float)
                aret = aret[order] if len(aret) else aret
                m = dict(meta, step='converged')
                acc.lines.append(berr_line(kind, sv, wret, aret if kind == 'aspls' else [], p1))
                acc.metas.append(('berr', m, interp_allowance(kind, sv, aret if kind == 'aspls' else wret, p1)))
                back = np.empty_like(sv['out'])
                back[order] = sv['out']
                if not np.array_equal(back, b2):
                    acc.dis.append(Disagreement('c07.returned', f'{host}:returned-converged', f'{host} ({where(meta)}, N={n}): converged run returns a baseline '
                                                f'that is not the spline of its last solve', m, True))
        except Exception:      # noqa: BLE001
            pass
    return cap, b, p


def case_solve(acc, meta):
    """hosts checked against the weights handed to the solve"""
    from pybaselines import Baseline
    host = meta['host']
    y = np.array(meta['y'], dtype=float)
    kw = unjkw(meta['kw'])

    def call(ref=False):
        return getattr(Baseline(axes_of(meta, ref)), host)(y, **kw)

    with Capture() as cap:
        try:
            with np.errstate(all='ignore'):
                call()
        except Exception as ex:
            axis_raise(acc, meta, ex, lambda ref: call(ref)[0], cap)
            return None
    for k, sv in enumerate(cap.solves[:4]):
        if sv['custom_penalty'] or sv['extra'] or not np.all(np.isfinite(sv['coef'])):
            continue
        m = dict(meta, step=k)
        if k == 0:
            check_knots(acc, sv, m)
        acc.lines.append(berr_line('std', sv, sv['w'], [], 0.0))
        acc.metas.append(('berr', m))
        add_bc(acc, sv, m)
    return cap


def case_mpspline(acc, meta):
    """mpspline: a smoothing fit with lam_smooth, then the baseline fit with lam (documented: both are P-spline systems); the penalty
    in force is taken from the CALL's arguments, not from the solver object"""
    from pybaselines import Baseline
    from scipy.ndimage import grey_closing
    y = np.array(meta['y'], dtype=float)
    kw = unjkw(meta['kw'])

    def call(ref=False):
        return Baseline(axes_of(meta, ref)).mpspline(y, **kw)

    x = axes_of(meta, False)
    with Capture() as cap:
        try:
            with np.errstate(all='ignore'):
                b, p = call()
        except Exception as ex:
            axis_raise(acc, meta, ex, lambda ref: call(ref)[0], cap)
            return None
    if len(cap.solves) != 2:
        acc.note(f'mpspline made {len(cap.solves)} P-spline solves instead of 2')
        return None
    order = np.argsort(x, kind='mergesort')
    ys = y[order]
    s0, s1 = cap.solves
    w0 = (ys == grey_closing(ys, 3)).astype(float)
    check_knots(acc, s0, dict(meta, step='smoothing fit'))
    acc.lines.append(berr_line('std', dict(s0, lam=kw['lam_smooth'], y=ys), w0, [], 0.0))
    acc.metas.append(('berr', dict(meta, step='smoothing fit', lam=kw['lam_smooth'])))
    wfin = np.asarray(p['weights'], float)[order]
    acc.lines.append(berr_line('std', dict(s1, lam=kw['lam'], y=s0['out']), wfin, [], 0.0))
    acc.metas.append(('berr', dict(meta, step='baseline fit', lam=kw['lam'])))
    add_bc(acc, s1, dict(meta, step='baseline fit', lam=kw['lam']))
    return cap


def case_smooth(acc, meta):
    """utils.pspline_smooth: x exactly as given (sorted or not)"""
    from pybaselines import utils
    y = np.array(meta['y'], dtype=float)
    kw = unjkw(meta['kw'])
    w = kw.get('weights')
    n, deg = meta['n'], meta['deg']

    def call(ref=False):
        return utils.pspline_smooth(y, axes_of(meta, ref), **kw)

    x = axes_of(meta, False)
    with Capture() as cap:
        try:
            out, tck = call()
        except Exception as ex:
            axis_raise(acc, dict(meta, count_raised='smooth-raised:'), ex, lambda ref: call(ref)[0], cap)
            return None
    sv = cap.solves[-1]
    meta = dict(meta, step='final')
    check_knots(acc, sv, meta)
    # weights in force and data in the caller's order: the basis is built on x as given
    sv2 = dict(sv, x=x, y=y, coef=np.asarray(tck[1], float))
    acc.lines.append(berr_line('std', sv2, np.ones(n) if w is None else w, [], 0.0))
    acc.metas.append(('berr', meta))
    acc.lines.append(f'c07.bc {deg} {qs(tck[0])} {qs(x)} {qs(tck[1])}')
    acc.metas.append(('bc', meta, np.asarray(out, float), float(np.max(np.abs(tck[1])))))
    return cap


def case_2d(acc, meta):
    from pybaselines import Baseline2D
    host = meta['host'][3:]
    Y = np.array(meta['y'], dtype=float)
    kw = unjkw(meta['kw'], two_d=True)
    (m_, n_), (degr, degc), (kr, kc), (dr, dc), (lamr, lamc) = meta['shape'], meta['deg'], meta['num_knots'], meta['d'], meta['lam']
    l1r, l1c = kw.get('lam_1', (0.0, 0.0))

    def call(ref=False):
        xx = np.array(meta['x_ref' if ref else 'x'], dtype=float)
        zz = np.array(meta['z_ref' if ref else 'z'], dtype=float)
        return getattr(Baseline2D(xx, zz), host)(Y, **kw)

    with Capture() as cap:
        try:
            with np.errstate(all='ignore'):
                b, p = call()
        except Exception as ex:
            axis_raise(acc, dict(meta, count_raised='2d-raised:'), ex, lambda ref: call(ref)[0], cap)
            return None
    rule_based = host != 'irsqr'
    w_seq = [np.ones((m_, n_))] + [r.reshape(m_, n_) for r in cap.rules]
    if host == 'pspline_iasls':
        w_seq = w_seq[1:]         # the first weights come from the rule applied to the initial polynomial fit
    for k, sv in enumerate(cap.solves):
        if k >= len(w_seq) or not np.all(np.isfinite(sv['coef'])):
            break
        wk = w_seq[k] if rule_based else sv['w']
        if not np.all(np.isfinite(wk)):
            break
        m = dict(meta, step=k)
        if k == 0:
            for knots, ax, nk, dg, nm in ((sv['knots_r'], sv['x'], kr, degr, 'rows'), (sv['knots_c'], sv['z'], kc, degc, 'columns')):
                kp = knots_problem(knots, ax, nk, dg)
                if kp:
                    acc.dis.append(Disagreement('c07.knots', f'2d.{host}:knots', f'2-D {host} ({nm}, axes {meta.get("x_magnitude", "1")} / '
                                                f'{meta.get("z_magnitude", "1")}): {kp}', m, True))
        acc.lines.append(f'c07.berr2 {degr} {degc} {dr} {dc} {q(lamr)} {q(lamc)} {int(host == "pspline_iasls")} {q(l1r)} {q(l1c)} {qs(sv["knots_r"])} {qs(sv["knots_c"])} {qs(sv["x"])} {qs(sv["z"])} '
                         f'{mat(sv["y"])} {mat(wk)} {mat(sv["coef"])}')
        acc.metas.append(('berr', m))
        acc.lines.append(f'c07.bc2 {degr} {degc} {qs(sv["knots_r"])} {qs(sv["knots_c"])} {qs(sv["x"])} {qs(sv["z"])} {mat(sv["coef"])}')
        acc.metas.append(('bc', m, sv['out'], float(np.max(np.abs(sv['coef'])))))
    return cap


CASES = {'main': case_main, 'asmx': case_main, 'solve': case_solve, 'mpspline': case_mpspline, 'smooth': case_smooth, '2d': case_2d}


def evaluate(acc, stats=None):
    """the driver's answers for the accumulated lines -> disagreements (appended to acc.dis)"""
    res = drive(acc.lines, timeout=2400)
    if acc.ctx is not None:
        acc.ctx.traces += len(acc.lines)
    stats = stats if stats is not None else {}
    for ln, r, mt in zip(acc.lines, res, acc.metas):
        meta = mt[1]
        if mt[0] == 'berr':
            a, b_ = (Fraction(t) for t in r.split(' '))
            be = float(a / b_) if b_ > 0 else (0.0 if a == 0 else float('inf'))
            allow = (mt[2] / float(b_)) if len(mt) > 2 and mt[2] and b_ > 0 else 0.0
            stats['berr'] = max(stats.get('berr', 0.0), be - allow)
            stats['interp_allow'] = max(stats.get('interp_allow', 0.0), allow)
            if be > BERR_MAX + allow:
                acc.dis.append(Disagreement('c07.berr', f'{meta["host"]}:system', f'{meta["host"]} ({where(meta)}, N={meta["n"]}, num_knots={meta["num_knots"]}, '
                                            f'degree={meta["deg"]}, diff_order={meta["d"]}, lam={meta["lam"]}, step {meta["step"]}): the coefficients do not solve the '
                                            f'documented P-spline system for the weights in force (exact normwise backward error {be:.3g})', meta, True))
        elif mt[0] == 'asmx':
            sv, kind = mt[2], mt[3]
            if '|' not in r:
                acc.dis.append(Disagreement('c07.model', f'model:asmx:{kind}', f'{meta["host"]}: the driver could not evaluate the assembly model ({r})',
                                            {k: v for k, v in meta.items() if k not in ('x', 'y', 'x_ref')}, False))
                continue
            why, err = asmx_compare(r, sv, kind, mt[4], mt[5])
            stats['asm'] = max(stats.get('asm', 0.0), err)
            if why:
                acc.dis.append(Disagreement('c07.model', f'model:asmx:{kind}', f'{meta["host"]} ({where(meta)}, N={meta["n"]}, num_knots={meta["num_knots"]}, '
                                            f'degree={meta["deg"]}, diff_order={meta["d"]}, lam={meta["lam"]}, banded_solver={meta.get("solver", "default")}, step '
                                            f'{meta["step"]}): the banded system handed to the solver differs from the Lean assembly model: {why}',
                                            meta, False))
        else:
            out, cmax = mt[2], mt[3]
            if ';' in r:
                exact = np.array([[float(v) for v in parse_qs(row)] for row in r.split(';')])
            else:
                exact = np.array([float(v) for v in parse_qs(r)])
            err = float(np.max(np.abs(exact - out))) / max(cmax, 1e-300) if exact.shape == out.shape else float('inf')
            stats['bc'] = max(stats.get('bc', 0.0), err)
            if exact.shape != out.shape or err > 1e-12:
                acc.dis.append(Disagreement('c07.bc', f'{meta["host"]}:Bc', f'{meta["host"]} ({where(meta)}, N={meta["n"]}, degree={meta["deg"]}, step {meta["step"]}): '
                                            f'the returned spline differs from B c evaluated from the definition (relative to max|c|: {err:.3g})', meta, True))
    return stats


def on_axis(meta, x, mag, key='x'):
    """put the case on the x-axis of magnitude `mag` (an increasing affine image of x; the reference axis is kept for the oracle of
    `axis_raise` and for the replay)"""
    if mag == '1':
        meta[key] = np.asarray(x).tolist()
        meta[key + '_magnitude'] = '1'
        return meta
    meta[key + '_ref'] = np.asarray(x).tolist()
    meta[key] = M.x_magnitude(x, mag)[0].tolist()
    meta[key + '_magnitude'] = mag
    return meta


def correspond(ctx):
    rng = ctx.np_rng()
    acc = Acc(ctx)
    lams = [1e-3, 1e-1, 1e1, 1e3, 1e5] if not ctx.thorough else [10.0 ** k for k in range(-3, 7)]
    patterns = ['uniform', 'random', 'clustered', 'unsorted', 'reversed']
    mags = M.x_magnitude_cycle(ctx.seed, M.X_MAGNITUDE_UNUSUAL)

    hosts = [(h, 'std') for h in STD] + [('pspline_iasls', 'iasls'), ('pspline_drpls', 'drpls'), ('pspline_aspls', 'aspls')]
    combos = []
    for host, kind in hosts:
        for deg in range(0, 6):
            combos.append((host, kind, deg))
    for ci, (host, kind, deg) in enumerate(combos):
        reps = 5 if ctx.thorough else 3
        for rep in range(reps):
            # the last repetition of every (host, degree) is on an x-axis of unusual magnitude (round-robin over the kinds)
            mag = next(mags) if rep == reps - 1 or (ctx.thorough and rep == reps - 2) else '1'
            num_knots = int(rng.choice([2, 3, 5, 8, 13]))
            nb = num_knots + deg - 1
            dmin = 2 if kind in ('iasls', 'drpls') else 1
            dmax = min(4, nb - 1)
            if dmax < dmin:
                continue
            d = int(rng.integers(dmin, dmax + 1))
            # stratified, not random: every host meets every x pattern across its degrees, user weights every third case
            pattern = patterns[(ci + 2 * rep + ctx.seed) % len(patterns)]
            n = int(rng.choice([max(4, nb - 2), nb + 3, 40] + ([150] if ctx.thorough else [70])))
            x = make_x(rng, pattern, n)
            y = make_y(rng, x)
            lam = float(lams[int(rng.integers(0, len(lams)))])
            uw = None
            if (ci + rep + ctx.seed) % 3 == 0:
                uw = np.round(rng.uniform(0.05, 1, n) * 64) / 64
            kw = dict(lam=lam, diff_order=d, num_knots=num_knots, spline_degree=deg, max_iter=int(rng.integers(0, 4)), tol=0.0, weights=uw)
            p1 = 0.0
            if kind == 'iasls':
                p1 = float(rng.choice([1e-4, 1e-1, 10.0]))
                kw['lam_1'] = p1
            if kind == 'drpls':
                p1 = float(rng.choice([0.0, 0.5, 1.0]))
                kw['eta'] = p1
            if kind == 'aspls' and (rep + deg) % 2 == 0:      # a caller-supplied alpha in every second aspls case (with and without weights)
                kw['alpha'] = np.round(rng.uniform(0.2, 1, n) * 64) / 64
            meta = {'section': 'main', 'host': host, 'kind': kind, 'pattern': pattern, 'n': n, 'y': y.tolist(), 'kw': jkw(kw), 'num_knots': num_knots,
                    'deg': deg, 'd': d, 'lam': lam, 'p1': p1, 'converged': bool(rng.random() < 0.5)}
            on_axis(meta, x, mag)
            got = case_main(acc, meta)
            if got is None:
                continue
            ctx.case((host, pattern, mag, n, num_knots, deg, d, lam, uw is not None, kw['max_iter']), nontrivial=True,
                     sample={'host': host, 'x': pattern, 'x_magnitude': mag, 'N': n, 'num_knots': num_knots, 'spline_degree': deg, 'diff_order': d,
                             'lam': lam, 'solves_checked': len(got[0].solves)} if len(ctx.samples) < 6 and (mag != '1' or len(ctx.samples) < 3) else None)
            ctx.count('host:' + host)
            ctx.count('x:' + pattern)
            ctx.count('x-magnitude:' + mag)
            ctx.count('degree:%d' % deg)
            ctx.count('d-vs-degree:' + ('d>deg' if d > deg else 'd<=deg'))
            ctx.count('points-vs-bases:' + ('N<bases' if n < nb else 'N>=bases'))
    # hosts checked against the weights handed to the solve
    for host in SOLVE_LEVEL:
        for deg in ((1, 3) if not ctx.thorough else (0, 1, 2, 3, 4, 5)):
            for mag in ('1', next(mags)):
                num_knots = int(rng.choice([3, 6, 10]))
                nb = num_knots + deg - 1
                d = int(rng.integers(1, min(4, nb - 1) + 1))
                pattern = patterns[int(rng.integers(0, len(patterns)))]
                n = int(rng.choice([nb + 3, 45]))
                x = make_x(rng, pattern, n)
                y = make_y(rng, x)
                lam = float(lams[int(rng.integers(0, len(lams)))])
                kw = dict(lam=lam, diff_order=d, num_knots=num_knots, spline_degree=deg)
                if host == 'pspline_mpls':
                    kw['half_window'] = 3
                else:
                    kw.update(max_iter=2, tol=0.0)
                meta = {'section': 'solve', 'host': host, 'kind': 'std', 'pattern': pattern, 'n': n, 'y': y.tolist(), 'kw': kw, 'num_knots': num_knots,
                        'deg': deg, 'd': d, 'lam': lam}
                on_axis(meta, x, mag)
                if case_solve(acc, meta) is None:
                    continue
                ctx.case((host, pattern, mag, n, num_knots, deg, d, lam), nontrivial=True)
                ctx.count('host:' + host)
                ctx.count('x:' + pattern)
                ctx.count('x-magnitude:' + mag)
                ctx.count('degree:%d' % deg)
    # mpspline
    for i in range(6 if not ctx.thorough else 16):
        mag = next(mags) if i % 2 else '1'
        deg = int(rng.integers(1, 5))
        num_knots = int(rng.choice([5, 9, 14]))
        nb = num_knots + deg - 1
        d = int(rng.integers(1, min(4, nb - 1) + 1))
        pattern = patterns[int(rng.integers(0, len(patterns)))]
        n = int(rng.choice([nb + 4, 45, 70]))
        x = make_x(rng, pattern, n)
        y = make_y(rng, x)
        lam = float(10.0 ** int(rng.integers(1, 6)))
        lam_smooth = float(10.0 ** int(rng.integers(-3, 1)))
        uw = None if i % 4 in (1, 2) else np.round(rng.uniform(0.05, 1, n) * 64) / 64      # with and without weights on both kinds of axis
        kw = dict(lam=lam, lam_smooth=lam_smooth, num_knots=num_knots, spline_degree=deg, diff_order=d, half_window=3, weights=uw)
        meta = {'section': 'mpspline', 'host': 'mpspline', 'kind': 'std', 'pattern': pattern, 'n': n, 'y': y.tolist(), 'num_knots': num_knots, 'deg': deg,
                'd': d, 'lam': lam, 'kw': jkw(kw)}
        on_axis(meta, x, mag)
        if case_mpspline(acc, meta) is None:
            continue
        ctx.case(('mpspline', pattern, mag, n, num_knots, deg, d, lam, lam_smooth, uw is not None), nontrivial=True)
        ctx.count('host:mpspline')
        ctx.count('x:' + pattern)
        ctx.count('x-magnitude:' + mag)
    # utils.pspline_smooth: x exactly as given (sorted or not)
    for deg in range(0, 6):
        for pattern in patterns:
            if not ctx.thorough and rng.random() < 0.4:
                continue
            mag = next(mags) if rng.random() < 0.5 else '1'
            num_knots = int(rng.choice([2, 4, 7, 12]))
            nb = num_knots + deg - 1
            if nb < 2:
                continue
            d = int(rng.integers(1, min(4, nb - 1) + 1))
            n = int(rng.choice([nb + 2, 35, 60]))
            x = make_x(rng, pattern, n)
            y = make_y(rng, x)
            lam = float(lams[int(rng.integers(0, len(lams)))])
            w = None if rng.random() < 0.5 else np.round(rng.uniform(0.1, 1, n) * 64) / 64
            meta = {'section': 'smooth', 'host': 'pspline_smooth', 'kind': 'std', 'pattern': pattern, 'n': n, 'y': y.tolist(), 'num_knots': num_knots,
                    'deg': deg, 'd': d, 'lam': lam, 'step': 'final',
                    'kw': jkw(dict(lam=lam, num_knots=num_knots, spline_degree=deg, diff_order=d, weights=w))}
            on_axis(meta, x, mag)
            if case_smooth(acc, meta) is None:
                continue
            ctx.case(('pspline_smooth', pattern, mag, n, num_knots, deg, d, lam, w is not None), nontrivial=True,
                     sample={'host': 'utils.pspline_smooth', 'x': pattern, 'N': n, 'num_knots': num_knots, 'spline_degree': deg, 'diff_order': d}
                     if pattern == 'unsorted' and deg == 3 else None)
            ctx.count('host:pspline_smooth')
            ctx.count('x:' + pattern)
            ctx.count('x-magnitude:' + mag)
            ctx.count('degree:%d' % deg)
    # 2-D
    for host in ('pspline_asls', 'pspline_arpls', 'pspline_iarpls', 'pspline_psalsa', 'pspline_airpls', 'pspline_lsrpls', 'irsqr', 'pspline_iasls'):
        reps2 = 3 if not ctx.thorough else 7
        for rep in range(reps2):
            # the last repetition (thorough: the last two) puts each axis on its own unusual magnitude
            magx, magz = (next(mags), next(mags)) if rep >= reps2 - (2 if ctx.thorough else 1) else ('1', '1')
            m_, n_ = int(rng.integers(6, 12)), int(rng.integers(6, 12))
            degr, degc = int(rng.integers(0, 4)), int(rng.integers(0, 4))
            kr, kc = int(rng.integers(2, 6)), int(rng.integers(2, 6))
            nbr, nbc = kr + degr - 1, kc + degc - 1
            if nbr < 2 or nbc < 2:
                continue
            dmin2 = 2 if host == 'pspline_iasls' else 1
            if min(nbr, nbc) - 1 < dmin2:
                continue
            dr, dc = int(rng.integers(dmin2, min(3, nbr - 1) + 1)), int(rng.integers(dmin2, min(3, nbc - 1) + 1))
            lamr, lamc = float(10.0 ** int(rng.integers(-2, 4))), float(10.0 ** int(rng.integers(-2, 4)))
            x, z, Y = M.make_data2d(rng, m_, n_)
            alike = rep == 0 or rng.random() < 0.25
            if alike:
                # the two axes "look alike": square grid, the same degree / knot count / range (hence the same knot vector) on both
                # axes, but different positions of the points inside the range
                n_, degc, kc, nbc = m_, degr, kr, nbr
                dc = min(dc, nbc - 1)
                x, z, Y = M.make_data2d(rng, m_, n_)
                x = 5.0 * np.linspace(0, 1, m_)
                z = 5.0 * np.linspace(0, 1, n_) ** 3
                magz = magx
                ctx.count('2d-axes-alike')
            elif rng.random() < 0.5:
                x = np.sort(rng.uniform(0, 5, m_))
                z = np.sort(rng.uniform(-2, 2, n_))
            kw = dict(lam=(lamr, lamc), diff_order=(dr, dc), num_knots=(kr, kc), spline_degree=(degr, degc), max_iter=2, tol=0.0)
            if host == 'pspline_iasls':
                kw['lam_1'] = (float(rng.choice([1e-3, 0.5, 20.0])), float(rng.choice([1e-3, 0.5, 20.0])))
            meta = {'section': '2d', 'host': '2d.' + host, 'kind': '2d', 'shape': [m_, n_], 'deg': [degr, degc], 'num_knots': [kr, kc], 'd': [dr, dc],
                    'lam': [lamr, lamc], 'y': Y.tolist(), 'kw': jkw(kw), 'pattern': '2d', 'n': m_ * n_}
            on_axis(meta, x, magx, 'x')
            on_axis(meta, z, magz, 'z')
            if magx != '1' or magz != '1':
                meta.setdefault('x_ref', meta['x'])
                meta.setdefault('z_ref', meta['z'])
                meta['x_magnitude'] = f'{magx} / {magz}'
            if case_2d(acc, meta) is None:
                continue
            ctx.case(('2d', host, m_, n_, degr, degc, kr, kc, dr, dc, lamr, lamc, magx, magz), nontrivial=True,
                     sample={'host': '2-D ' + host, 'shape': [m_, n_], 'spline_degree': [degr, degc], 'num_knots': [kr, kc], 'diff_order': [dr, dc],
                             'lam': [lamr, lamc], 'axes': [magx, magz]} if host == 'pspline_asls' else None)
            ctx.count('host2d:' + host)
            ctx.count('x-magnitude-2d:' + magx)
            ctx.count('x-magnitude-2d:' + magz)
    # the banded systems of pspline_iasls / pspline_drpls / pspline_aspls for every banded_solver (1-3: lower bands for iasls, 4: full
    # bands), dyadic lam / user weights / alpha, sizes at the boundaries (few points per knot interval, d above and below the degree)
    for host, kind in (('pspline_iasls', 'iasls'), ('pspline_drpls', 'drpls'), ('pspline_aspls', 'aspls')):
        for deg in range(0, 6):
            reps3 = 4 if not ctx.thorough else 10
            for rep in range(reps3):
                mag = next(mags) if rep >= reps3 - (2 if ctx.thorough else 1) else '1'
                num_knots = int(rng.choice([2, 3, 4, 6, 9]))
                nb = num_knots + deg - 1
                dmin = 1 if kind == 'aspls' else 2
                dmax = min(4, nb - 1)
                if dmax < dmin:
                    continue
                d = int(rng.integers(dmin, dmax + 1))
                pattern = patterns[int(rng.integers(0, len(patterns)))]
                n = int(rng.choice([max(4, nb - 1), nb + 2, 25, 50]))
                x = make_x(rng, pattern, n)
                y = make_y(rng, x)
                lam = float(2.0 ** int(rng.integers(-4, 14)))
                uw = np.round(rng.uniform(0.05, 1, n) * 64) / 64
                solver = int(rng.integers(1, 5))
                kw = dict(lam=lam, diff_order=d, num_knots=num_knots, spline_degree=deg, max_iter=int(rng.integers(0, 3)), tol=0.0, weights=uw)
                p1 = 0.0
                if kind == 'iasls':
                    p1 = float(2.0 ** int(rng.integers(-10, 5)))
                    kw['lam_1'] = p1
                if kind == 'drpls':
                    p1 = float(rng.choice([0.0, 0.25, 0.5, 1.0]))
                    kw['eta'] = p1
                if kind == 'aspls':
                    kw['alpha'] = np.round(rng.uniform(0.1, 1, n) * 64) / 64
                meta = {'section': 'asmx', 'host': host, 'kind': kind, 'pattern': pattern, 'n': n, 'num_knots': num_knots, 'deg': deg, 'd': d, 'lam': lam,
                        'p1': p1, 'solver': solver, 'y': y.tolist(), 'kw': jkw(kw), 'count_raised': 'asmx-raised:'}
                on_axis(meta, x, mag)
                if case_main(acc, meta) is None:
                    continue
                ctx.case(('asmx', host, pattern, mag, n, num_knots, deg, d, lam, p1, solver, kw['max_iter']), nontrivial=True,
                         sample={'host': host + ' (banded system)', 'x': pattern, 'N': n, 'num_knots': num_knots, 'spline_degree': deg, 'diff_order': d,
                                 'lam': lam, 'banded_solver': solver} if deg == 3 and rep == 0 else None)
                ctx.count('asmx-host:' + host)
                ctx.count('asmx-solver:%d' % solver)
                ctx.count('asmx-x-magnitude:' + mag)
                ctx.count('asmx-d-vs-degree:' + ('d>deg' if d > deg else 'd<=deg'))
    # corpus
    for f in sorted(glob.glob(os.path.join(ROOT, 'corpus', 'C07_*.json'))):
        dd = json.load(open(f))
        r = replay(ctx, dd)
        ctx.case(('corpus', os.path.basename(f)))
        if r:
            acc.dis.append(Disagreement('c07.corpus', dd['signature'], f'corpus {os.path.basename(f)}: {r}', dd['replay'], True))
    stats = evaluate(acc)
    worst, worst_bc, worst_asm = stats.get('berr', 0.0), stats.get('bc', 0.0), stats.get('asm', 0.0)
    ctx.notes.append(f'worst exact normwise backward error = {worst:.3g}; worst |returned - B c| / max|c| = {worst_bc:.3g}')
    ctx.hist['worst_backward_error_x1e16'] = int(worst * 1e16)
    ctx.notes.append(f'worst |captured banded system - Lean assembly model| relative to the largest term = {worst_asm:.3g}')
    ctx.notes.append(f'largest allowance granted for the rounding of the float basis midpoints (drpls / aspls, even degree) = {stats.get("interp_allow", 0.0):.3g}')
    return acc.dis


def search(ctx, hints, lean_failed):
    sub = type(ctx)(ctx.prop, 'thorough', ctx.seed + 1)
    return [d for d in correspond(sub) if d.property_level]


def replay(ctx, data):
    """re-execute the recorded call (section, host, x, y, kw) and every certificate of its section on the current tree"""
    r = data['replay']
    fn = CASES.get(r.get('section'))
    if fn is None or 'x' not in r or 'y' not in r:
        return None
    acc = Acc(None)
    try:
        fn(acc, {k: v for k, v in r.items() if k != 'step'})
        evaluate(acc)
    except Exception as e:      # noqa: BLE001
        return f'{type(e).__name__}: {e}'
    for d in acc.dis:
        if d.property_level:
            return d.detail
    return None
