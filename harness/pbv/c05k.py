"""C05, the remaining kernels: `_numba_banded_dot_banded`, `_quadratic_bezier_spline`, `_interp_inplace` / `_fill_skips`,
`_loess_solver` and the three loess loops — the REAL Python source of each kernel is run on recording arrays and the
indices / slices it touches are compared with the Lean index models (driver ops `c05.*`); plus the PRE-MONITOR for the
caller lemmas: during real public calls every kernel invocation's arguments are captured and checked against the
precondition the caller lemma derives (`BandPre`, `BezPre`, `1 <= total_points <= N`, padded length, ...)."""
import contextlib
import warnings

import numpy as np

from . import kernels as K
from .common import Disagreement, drive, ints, parse_ints
from .rec import Rec


class RecS(Rec):
    """Rec that also logs basic slices (raw bounds; None -> 0 / len) as ('rs' | 'ws', name, (lo, hi))"""

    def _slice(self, idx):
        if isinstance(idx, slice) and idx.step in (None, 1) and self.ndim == 1:
            lo = 0 if idx.start is None else int(idx.start)
            hi = int(self.shape[0]) if idx.stop is None else int(idx.stop)
            return (lo, hi)
        return None

    def __getitem__(self, idx):
        s = self._slice(idx)
        if s is not None and self._log is not None:
            self._log.append(('rs', self._nm, s))
        return Rec.__getitem__(self, idx)

    def __setitem__(self, idx, val):
        s = self._slice(idx)
        if s is not None and self._log is not None:
            self._log.append(('ws', self._nm, s))
        Rec.__setitem__(self, idx, val)


@contextlib.contextmanager
def patched(mod, name, new):
    old = getattr(mod, name)
    setattr(mod, name, new)
    try:
        yield old
    finally:
        setattr(mod, name, old)


class PreViolation(Exception):
    """raised by a pre-monitor wrapper INSTEAD of running the compiled kernel on arguments outside its precondition"""


def model_dis(sig, detail, replay=None):
    return Disagreement('c05.model', sig, detail, replay or {'kind': 'model', 'sig': sig}, False)


def oob_dis(sig, detail, replay=None):
    return Disagreement('c05.oob', sig, detail, replay or {'kind': 'kernel', 'sig': sig}, True)


# ------------------------------------------------------------------------------------------------ banded dot banded
BAND_COMBOS = [(0, 0, 0, 0), (1, 1, 1, 1), (2, 2, 2, 2), (1, 1, 2, 2), (3, 3, 1, 1), (2, 2, 1, 1), (0, 2, 1, 0),
               (2, 0, 0, 1), (3, 1, 0, 2), (1, 0, 0, 3), (4, 4, 2, 2)]


def band_run(a_lu, b_lu, n, sym, rng, full=None):
    """run `_banded_dot_banded` (Python wrapper) with the kernel's Python source on recording arrays.
    returns (kernel args dict | None, access list, error)"""
    from pybaselines import misc as M
    kern = M._numba_banded_dot_banded.py_func
    al, au = a_lu
    bl, bu = b_lu
    log, cap = [], {}

    def wrap(a_, b_, c_, a_lower, a_upper, b_lower, b_upper, c_upper, diag_length, lower_bound):
        cap.update(shapes=(a_.shape, b_.shape, c_.shape),
                   args=(int(a_lower), int(a_upper), int(b_lower), int(b_upper), int(c_upper), int(diag_length), int(lower_bound)))
        ar, br, cr = Rec(a_, 'a', log), Rec(b_, 'b', log), Rec(c_, 'c', log)
        try:
            kern(ar, br, cr, a_lower, a_upper, b_lower, b_upper, c_upper, diag_length, lower_bound)
        except IndexError as e:
            cap['oob'] = str(e)
            raise
        c_[...] = np.asarray(cr)
        return c_
    a = rng.normal(size=(al + au + 1, n))
    b = rng.normal(size=(bl + bu + 1, n))
    full = full or (n, n)
    err = None
    with patched(M, '_numba_banded_dot_banded', wrap):
        try:
            M._banded_dot_banded(a, b, a_lu, b_lu, full, full, sym)
        except Exception as e:  # noqa  (the symmetric fill-in of the wrapper is Python level; only the kernel matters here)
            err = f'{type(e).__name__}: {e}'
    acc = []
    if len(log) % 4 == 0:
        for k in range(0, len(log), 4):
            c0, a0, b0, c1 = log[k:k + 4]
            if not (c0[:2] == ('r', 'c') and a0[:2] == ('r', 'a') and b0[:2] == ('r', 'b') and c1[:2] == ('w', 'c') and c0[2] == c1[2]):
                acc = None
                break
            acc.append(a0[2] + b0[2] + c0[2])
    else:
        acc = None
    return cap, acc, err


def band_traces(ctx, rng):
    dis = []
    lines, exp, meta = [], [], []
    sizes = [1, 2, 3, 4, 5, 8] + ([13, 21] if ctx.thorough else [])
    for (al, au, bl, bu) in BAND_COMBOS:
        for n in sizes:
            for sym in (False, True):
                cap, acc, err = band_run((al, au), (bl, bu), n, sym, rng)
                canon = ('banddot', al, au, bl, bu, n, sym)
                ctx.case(canon, nontrivial='args' in cap)
                ctx.count('kernel:_numba_banded_dot_banded')
                if 'oob' in cap:
                    dis.append(oob_dis('oob:_numba_banded_dot_banded:wrapper',
                                       f'_banded_dot_banded(a_lu=({al},{au}), b_lu=({bl},{bu}), N={n}, symmetric={sym}): the kernel indexes '
                                       f'outside its arrays: {cap["oob"]}', {'kind': 'banddot', 'a_lu': [al, au], 'b_lu': [bl, bu], 'n': n, 'sym': sym}))
                    continue
                if 'args' not in cap:
                    continue
                if acc is None:
                    dis.append(model_dis('model:banddot:shape', f'unexpected access pattern of the kernel source for {canon}'))
                    continue
                a_l, a_u, b_l, b_u, cu, dl, lb = cap['args']
                (ra, ca), (rb, cb), (rc, cc) = cap['shapes']
                lines += [f'c05.banddot {a_l} {a_u} {b_l} {b_u} {cu} {dl} {lb}',
                          f'c05.bdbargs {al} {au} {bl} {bu} {n} {n} {int(sym)}',
                          f'c05.bandpre {ra} {ca} {rb} {cb} {rc} {cc} {a_l} {a_u} {b_l} {b_u} {cu} {dl} {lb}']
                exp += [','.join(':'.join(map(str, t)) for t in acc) if acc else '-',
                        f'{cu} {rc - cu - 1} {lb} {rc}', '1']
                meta += [canon] * 3
    res = drive(lines)
    ctx.traces += len(lines)
    for ln, r, e, m in zip(lines, res, exp, meta):
        if r != e:
            dis.append(model_dis('model:' + ln.split()[0], f'{m}: {ln} model={r[:100]} real={e[:100]}', {'line': ln}))
    return dis


def beads_premonitor(ctx, rng):
    """every `_numba_banded_dot_banded` call made by the public `beads` must satisfy BandPre (caller lemma
    pre_bandedDotBanded_of_beads_guards), and the nested calls must only happen for N >= 4*filter_type + 1"""
    from pybaselines import Baseline, misc as M
    dis = []
    lines, meta = [], []
    orig = M._numba_banded_dot_banded
    for n in [1, 2, 3, 4, 5, 6, 7, 8, 9, 10, 12, 13, 14, 17] + ([40, 101] if ctx.thorough else []):
        for ft in (1, 2, 3):
            calls = []

            def wrap(a_, b_, c_, *args):
                calls.append((a_.shape, b_.shape, c_.shape, tuple(int(v) for v in args)))
                return orig.py_func(a_, b_, c_, *args)   # Python source: a violated precondition raises instead of corrupting memory
            y = 5 + rng.normal(size=n)
            outcome = 'ok'
            with patched(M, '_numba_banded_dot_banded', wrap), warnings.catch_warnings():
                warnings.simplefilter('ignore')
                try:
                    Baseline(np.linspace(0, 5, n)).beads(y, filter_type=ft, max_iter=1, freq_cutoff=0.1)
                except Exception as e:  # noqa
                    outcome = type(e).__name__
            ctx.case(('beads-pre', n, ft, outcome, len(calls)), nontrivial=bool(calls))
            ctx.count('premonitor:beads')
            if len(calls) > 1 and n < 4 * ft + 1:
                dis.append(model_dis('pre:beads:guard', f'beads(N={n}, filter_type={ft}) reached the nested _banded_dot_banded calls although '
                                     f'N < 4*filter_type + 1 (the caller lemma assumes gbmv rejects this)'))
            for (sa, sb, sc, args) in calls:
                lines.append('c05.bandpre ' + ' '.join(map(str, sa + sb + sc + args)))
                meta.append((n, ft, sa, sb, sc, args))
    res = drive(lines)
    ctx.traces += len(lines)
    for ln, r, m in zip(lines, res, meta):
        if r != '1':
            dis.append(model_dis('pre:beads', f'beads(N={m[0]}, filter_type={m[1]}) calls _numba_banded_dot_banded with shapes {m[2:5]} '
                                 f'args {m[5]} violating BandPre: {ln} -> {r}', {'line': ln}))
    return dis


# ------------------------------------------------------------------------------------------------ bezier spline
def bezier_run(x, y, idx):
    """run `_quadratic_bezier_spline.py_func`; returns (events, argmins, outcome)"""
    from pybaselines import spline as S
    kern = S._quadratic_bezier_spline.py_func
    log, ams = [], []

    class NP:
        def __getattr__(self, k):
            return getattr(np, k)

        def empty(self, n, *a, **k):
            return RecS(np.empty(n), 'O', log)

        def argmin(self, arr, *a, **k):
            r = np.argmin(arr, *a, **k)
            ams.append(int(r))
            return r
    xr, yr, ir = RecS(x, 'X', log), RecS(y, 'Y', log), RecS(np.asarray(idx, dtype=np.intp), 'I', log)
    outcome = 'ok'
    with patched(S, 'np', NP()), K.py_kernels(), np.errstate(all='ignore'):
        try:
            kern(xr, yr, ir)
        except IndexError as e:
            outcome = 'IndexError'
        except ValueError as e:
            outcome = 'ValueError'
    ev = []
    for kind, nm, s in log:
        if nm == 'I':
            if kind == 'r':
                ev.append(f'i{s[0]}')
        elif nm == 'X':
            ev.append(f'x{s[0]}' if kind == 'r' else f's{s[0]}:{s[1]}')
        elif nm == 'Y':
            ev.append(f'y{s[0]}')
        elif nm == 'O' and kind == 'ws':
            ev.append(f'o{s[0]}:{s[1]}')
    return ev, ams, outcome


def bezier_eq_bits(x, idx, ams):
    """outcomes of `right_x - left_x == 0` for loop index j = 2 .. M-3, recomputed from the data and the argmin outcomes"""
    M = len(idx)
    bits = ['0'] * max(M, 1)
    if M < 4 or not ams:
        return '-'
    r_prev = idx[1] + ams[0]
    for j in range(2, M - 2):
        if j - 1 >= len(ams):
            break
        r = idx[j] + ams[j - 1]
        try:
            if x[r] - x[r_prev] == 0:
                bits[j] = '1'
        except IndexError:
            break
        r_prev = r
    return ''.join(bits)


def bezier_traces(ctx, rng):
    dis = []
    lines, exp, meta = [], [], []
    cases = []
    for n in [2, 3, 4, 5, 6, 7, 8, 10, 13] + ([30, 64] if ctx.thorough else []):
        for rep in range(6 if n > 3 else 2):
            kind = ('distinct', 'dups', 'plateau')[rep % 3]
            if kind == 'distinct':
                x = np.sort(rng.uniform(0, 5, n))
            elif kind == 'dups':
                x = np.sort(rng.integers(0, max(2, n // 2), n).astype(float))
            else:
                x = np.zeros(n)
            y = rng.normal(size=n)
            mask = rng.random(n) < (0.35, 0.7, 1.0)[rep % 3]
            if rep % 2 == 0:
                mask[0] = mask[-1] = True
            idx = np.flatnonzero(mask)
            cases.append((x, y, idx, 'valid'))
    # control points outside the precondition: decreasing, out of range, negative
    for n, idx in [(8, [0, 5, 3, 7]), (8, [0, 2, 9, 7]), (6, [0, 1, 2, 3, 6]), (6, [0, 6]), (6, [-1, 2, 4, 5]), (5, [4, 3, 2, 1, 0]),
                   (7, [0, 3, 3, 6]), (7, [2, 2, 2, 2, 2]), (4, [0]), (4, [])]:
        cases.append((np.arange(n, dtype=float), rng.normal(size=n), np.array(idx, dtype=np.intp), 'invalid'))
    cases.append((np.arange(5, dtype=float), rng.normal(size=4), np.array([0, 4]), 'invalid'))
    for x, y, idx, kind in cases:
        ev, ams, outcome = bezier_run(x, y, idx)
        eqb = bezier_eq_bits(x, [int(v) for v in idx], ams)
        canon = ('bezier', len(x), len(y), tuple(int(v) for v in idx), tuple(ams), eqb, kind)
        ctx.case(canon, nontrivial=len(idx) >= 2)
        ctx.count('kernel:_quadratic_bezier_spline')
        ctx.count(f'bezier:M={min(len(idx), 5)}{"+" if len(idx) > 5 else ""}')
        if kind == 'valid' and outcome == 'IndexError':
            dis.append(oob_dis('oob:_quadratic_bezier_spline', f'_quadratic_bezier_spline(N={len(x)}, indices={list(map(int, idx))}) indexes outside its arrays',
                               {'kind': 'bezier', 'x': x.tolist(), 'idx': [int(v) for v in idx]}))
            continue
        lines.append(f'c05.bezier {len(x)} {len(y)} {ints(idx)} {ints(ams)} {eqb}')
        exp.append((ev, outcome, kind))
        meta.append(canon)
    res = drive(lines)
    ctx.traces += len(lines)
    for ln, r, (ev, outcome, kind), m in zip(lines, res, exp, meta):
        pre, ok, tr = r.split('|')
        tr = [] if tr == '-' else tr.split(',')
        if kind == 'valid':
            good = pre == '1' and ok == '1' and tr == ev and (outcome == 'ok' or len(m[3]) < 2)
        else:
            # outside the precondition: the model's trace is the real one up to the first failing access, and the
            # real code raises IndexError only where the model has an access that is not Ok
            k = len(ev)
            good = tr[:k] == ev[:k] if outcome != 'IndexError' else (ok == '0' and tr[:k] == ev)
            if outcome == 'ok':
                good = good and tr == ev
        if not good:
            dis.append(model_dis('model:bezier', f'_quadratic_bezier_spline trace differs from the Lean model ({kind}, outcome {outcome}): {ln} '
                                 f'model={r[:160]} real={",".join(ev)[:160]}', {'line': ln}))
    return dis


def quad_bezier_trace(ctx, rng):
    from pybaselines import spline as S
    reads = []

    class RL(list):
        def __getitem__(self, i):
            reads.append(int(i))
            return list.__getitem__(self, i)
    S._quadratic_bezier.py_func(RL([1.0, 2.0, 0.5]), np.linspace(0, 1, 5))
    ctx.case(('qbez',), nontrivial=True)
    ctx.count('kernel:_quadratic_bezier')
    r = drive(['c05.qbez'])[0]
    ctx.traces += 1
    if parse_ints(r) != reads:
        return [model_dis('model:qbez', f'_quadratic_bezier reads y_points{reads}, model {r}')]
    return []


def corner_cutting_premonitor(ctx, rng):
    """`corner_cutting` must call the kernel with control indices satisfying BezPre (pre_bezierSpline_of_guards);
    `np.flatnonzero` is compared with the model's"""
    from pybaselines import Baseline, spline as S
    dis = []
    lines, meta, exp = [], [], []
    orig = S._quadratic_bezier_spline
    for n in [2, 3, 4, 5, 7, 9, 16, 33] + ([100, 257] if ctx.thorough else []):
        for mi in (1, 2, 5, 100):
            for kind in ('noisy', 'convex', 'flat'):
                calls = []

                def wrap(x_, y_, idx_):
                    calls.append((len(x_), len(y_), [int(v) for v in idx_]))
                    return orig.py_func(x_, y_, idx_)
                t = np.linspace(0, 1, n)
                y = {'noisy': 2 + rng.normal(size=n), 'convex': (t - 0.4) ** 2, 'flat': np.ones(n)}[kind]
                x = np.sort(rng.uniform(0, 5, n)) if kind != 'flat' else np.linspace(0, 5, n)
                with patched(S, '_quadratic_bezier_spline', wrap), warnings.catch_warnings():
                    warnings.simplefilter('ignore')
                    try:
                        Baseline(x).corner_cutting(y, max_iter=mi)
                    except Exception:  # noqa
                        pass
                ctx.case(('cc-pre', n, mi, kind, tuple(map(tuple, (c[2] for c in calls)))), nontrivial=bool(calls))
                ctx.count('premonitor:corner_cutting')
                for (nx, ny, idx) in calls:
                    lines.append(f'c05.bezier {nx} {ny} {ints(idx)} - -')
                    meta.append((n, mi, kind, idx))
                    exp.append(None)
    for _ in range(20):
        mask = rng.random(int(rng.integers(0, 12))) < rng.random()
        lines.append('c05.flatnonzero ' + (''.join('1' if m else '0' for m in mask) or '-'))
        meta.append(('flatnonzero',))
        exp.append(ints(np.flatnonzero(mask)))
    res = drive(lines)
    ctx.traces += len(lines)
    for ln, r, m, e in zip(lines, res, meta, exp):
        if e is None:
            if r.split('|')[0] != '1' or m[3][:1] != [0] or m[3][-1:] != [m[0] - 1]:
                dis.append(model_dis('pre:corner_cutting', f'corner_cutting(N={m[0]}, max_iter={m[1]}, {m[2]}) calls the Bezier kernel with '
                                     f'control indices {m[3]} violating BezPre / not containing both end points', {'line': ln}))
        elif r != e:
            dis.append(model_dis('model:flatnonzero', f'{ln}: model={r} real={e}', {'line': ln}))
    return dis


# ------------------------------------------------------------------------------------------------ interp / fill_skips
def interp_traces(ctx, rng, names):
    from pybaselines import utils as U, polynomial as P
    dis = []
    kern = U._interp_inplace.py_func
    lines, exp, meta = [], [], []
    for nx in range(0, 7):
        for ny in sorted({nx, max(0, nx - 1), nx + 1, 1, 3}):
            log = []
            xr, yr = RecS(np.arange(nx, dtype=float), 'X', log), RecS(np.zeros(ny), 'Y', log)
            outcome = 'ok'
            try:
                with np.errstate(all='ignore'):
                    kern(xr, yr, 1.0, 2.0)
            except IndexError:
                outcome = 'IndexError'
            except ValueError:
                outcome = 'ValueError'
            sc = [s[0] for k, nm, s in log if nm == 'X' and k == 'r']
            lines.append(f'c05.interp {nx} {ny}')
            exp.append((sc, outcome))
            meta.append((nx, ny))
            ctx.case(('interp', nx, ny, outcome), nontrivial=nx > 0)
            ctx.count('kernel:_interp_inplace')
    res = drive(lines)
    ctx.traces += len(lines)
    for ln, r, (sc, outcome), (nx, ny) in zip(lines, res, exp, meta):
        a, ly, lx = r.split('|')
        msc = parse_ints(a)
        inb = all(-nx <= i < nx for i in msc)
        # NumPy semantics of the real run: the first out-of-range scalar raises IndexError (the slice x[1:-1] is read first
        # and never fails); otherwise a length mismatch that cannot broadcast raises ValueError
        want = 'IndexError' if not inb else ('ok' if (ly == lx or lx == '1') else 'ValueError')
        k = len(sc)
        if outcome != want or msc[:k] != sc or (outcome != 'IndexError' and msc != sc):
            dis.append(model_dis('model:interp', f'_interp_inplace(len x={nx}, len y={ny}): real outcome {outcome}, scalar reads {sc}; model {r} (expects {want})', {'line': ln}))
        if nx == ny and nx >= 1 and outcome != 'ok':
            dis.append(oob_dis('oob:_interp_inplace', f'_interp_inplace with len(x) = len(y) = {nx} fails: {outcome}'))
    # _fill_skips on the skip ranges the real _determine_fits produces
    det = P._determine_fits.py_func
    fs = P._fill_skips.py_func
    lines, exp, meta = [], [], []
    for n in [2, 3, 4, 5, 7, 9, 12, 23]:
        for delta in (0.5, 1.0, 2.1, 3.5, float(n), 100.0 * n):
            for tp in sorted({1, 2, max(1, n // 2), n}):
                x = np.arange(n, dtype=float)
                if delta == 3.5:
                    x = np.cumsum(rng.integers(1, 5, n)).astype(float) / 2
                w, f, s = det(x, n, tp, float(delta))
                log, lens = [], []
                base = RecS(rng.normal(size=n), 'B', log)

                def interp(x_, y_, a, b):
                    lens.append((len(x_), len(y_)))
                    return U._interp_inplace.py_func(x_, y_, a, b)
                outcome = 'ok'
                with patched(P, '_interp_inplace', interp):
                    try:
                        fs(x, base, np.asarray(s))
                    except IndexError as e:
                        outcome = 'IndexError'
                ctx.case(('fill_skips', n, tp, delta, tuple(map(tuple, np.asarray(s).tolist()))), nontrivial=len(s) > 0)
                ctx.count('kernel:_fill_skips')
                if outcome != 'ok':
                    dis.append(oob_dis('oob:_fill_skips', f'_fill_skips(N={n}, skips={np.asarray(s).tolist()}) indexes outside baseline'))
                    continue
                sc = [t[0] for k, nm, t in log if k == 'r']
                for j, (l, r_) in enumerate(np.asarray(s).tolist()):
                    lines.append(f'c05.fillskips {n} {n} {l} {r_}')
                    exp.append((sc[2 * j:2 * j + 2], lens[j]))
                    meta.append((n, tp, delta))
    res = drive(lines)
    ctx.traces += len(lines)
    for ln, r, (sc, ln2), m in zip(lines, res, exp, meta):
        a, lx, lb = r.split('|')
        if parse_ints(a) != sc or (int(lx), int(lb)) != ln2 or int(lx) < 2:
            dis.append(model_dis('model:fillskips', f'_fill_skips differs from the model {m}: {ln} model={r} real={sc} {ln2}', {'line': ln}))
    return dis


# ------------------------------------------------------------------------------------------------ loess loops and solver
def loess_traces(ctx, rng):
    from pybaselines import polynomial as P
    dis = []
    lines, exp, meta = [], [], []
    solver = P._loess_solver.py_func
    for m in (1, 2, 3):
        for w in (1, 2, 4):
            for wb in sorted({w, w + 1, max(1, w - 1)}):
                AT = rng.normal(size=(m, w)) + 2 * np.eye(m, w)
                b = rng.normal(size=wb)
                try:
                    with np.errstate(all='ignore'):
                        out = str(len(solver(AT, b)))
                except np.linalg.LinAlgError:   # (a subclass of ValueError)
                    out = str(m)   # singular normal equations (w < m): a shape-correct call
                except ValueError:
                    out = 'shape'
                lines.append(f'c05.lsolve {m} {w} {wb}')
                exp.append(out)
                meta.append(('lsolve', m, w, wb))
                ctx.case(('lsolve', m, w, wb), nontrivial=True)
                ctx.count('kernel:_loess_solver')
    det = P._determine_fits.py_func
    loops = {'low': P._loess_low_memory.py_func, 'first': P._loess_first_loop.py_func, 'nonfirst': P._loess_nonfirst_loops.py_func}
    for n in [1, 2, 3, 4, 6, 9] + ([23] if ctx.thorough else []):
        for po in (0, 1, 2):
            for tp in sorted({po + 1, min(n, po + 2), n}):
                if tp > n or tp < po + 1:
                    continue
                for delta in (0.0, 2.1):
                    x = np.linspace(-1, 1, n) if n > 1 else np.array([0.0])
                    w_, f_, s_ = det(np.arange(n, dtype=float), n, tp, delta)
                    vander = np.polynomial.polynomial.polyvander(x, po)
                    y = rng.normal(size=n)
                    wts = np.ones(n)
                    kernels_arr = None
                    for name in ('low', 'first', 'nonfirst'):
                        log, shapes = [], []
                        if name == 'nonfirst' and kernels_arr is None:
                            continue

                        def sv(AT, b):
                            shapes.append((AT.shape, b.shape))
                            return np.zeros(AT.shape[0])
                        xr = Rec(x, 'x', log)
                        vr = Rec(np.ascontiguousarray(vander), 'v', log)
                        cr = Rec(np.zeros((n, po + 1)), 'c', log)
                        outcome = 'ok'
                        with patched(P, '_loess_solver', sv), np.errstate(all='ignore'):
                            try:
                                if name == 'low':
                                    loops[name](xr, y, wts, cr, vr, n, w_, f_)
                                elif name == 'first':
                                    kernels_arr, _ = loops[name](xr, y, wts, cr, vr, tp, n, w_, f_)
                                else:
                                    loops[name](y, wts, cr, vr, kernels_arr, w_, n, f_)
                            except IndexError as e:
                                outcome = f'IndexError {e}'
                            except ValueError as e:
                                outcome = f'ValueError {e}'
                        ctx.case(('loess-loop', name, n, po, tp, delta), nontrivial=True)
                        ctx.count('kernel:_loess_' + name)
                        if outcome != 'ok':
                            dis.append(oob_dis('oob:_loess_' + name, f'_loess loop {name}(N={n}, poly_order={po}, total_points={tp}, delta={delta}): {outcome}'))
                            continue
                        xs = [t[0] for k, nm, t in log if nm == 'x']
                        vs = [t[0] for k, nm, t in log if nm == 'v' and len(t) == 1]
                        cs = [t[0] for k, nm, t in log if nm == 'c' and k == 'w']
                        for j, (i, (l, r_)) in enumerate(zip(f_.tolist(), w_.tolist())):
                            lines.append(f'c05.loessiter {n} {po} {tp} {int(name == "nonfirst")} {i} {l} {r_}')
                            exp.append((xs[j] if name != 'nonfirst' else i, vs[j], cs[j], shapes[j]))
                            meta.append(('loessiter', name, n, po, tp, delta))
    res = drive(lines)
    ctx.traces += len(lines)
    for ln, r, e, m in zip(lines, res, exp, meta):
        if m[0] == 'lsolve':
            ok = r == e
        else:
            wlen, row, didx, klen, sv = r.split('|')
            xi, vi, ci, (sa, sb) = e
            ok = (int(row) == xi == vi == ci and sv == str(m[3] + 1) and sa == (m[3] + 1, int(wlen)) and sb == (int(wlen),)
                  and int(klen) == int(wlen) == m[4] and parse_ints(didx) == [0, -1])
        if not ok:
            dis.append(model_dis('model:' + m[0], f'{m}: {ln} model={r} real={e}', {'line': ln}))
    return dis


# ------------------------------------------------------------------------------------------------ caller guards (pre-monitors)
def guards_premonitor(ctx, rng):
    from pybaselines import Baseline, polynomial as P, smooth as Sm, classification as C
    dis = []
    lines, exp, meta = [], [], []
    # ---- loess: the guards on total_points / poly_order; every _determine_fits call must get 1 <= total_points <= N
    orig_det = P._determine_fits
    for n in (1, 2, 3, 5, 8):
        y = 2 + rng.normal(size=n)
        x = np.linspace(0, 1, n)
        for po in (-1, 0, 1, 2):
            for tp in range(-1, n + 3):
                calls = []

                def wrap(x_, num_x, total_points, delta):
                    calls.append((int(num_x), int(total_points), len(x_)))
                    if not (1 <= total_points <= num_x == len(x_)):
                        raise PreViolation()
                    return orig_det(x_, num_x, total_points, delta)
                outcome = 'ok'
                with patched(P, '_determine_fits', wrap), warnings.catch_warnings():
                    warnings.simplefilter('ignore')
                    try:
                        Baseline(x).loess(y, total_points=tp, poly_order=po, max_iter=0)
                    except (ValueError, TypeError) as e:
                        outcome = 'rejected'
                    except Exception as e:  # noqa
                        outcome = type(e).__name__
                ctx.case(('loess-guard', n, po, tp, outcome), nontrivial=bool(calls))
                ctx.count('premonitor:loess')
                lines.append(f'c05.loessguards {n} {tp} {po}')
                exp.append('1' if calls else '0')
                meta.append(('loessguards', n, tp, po, outcome))
                for (nx, t, lx) in calls:
                    if not (1 <= t <= nx and nx == lx == n):
                        dis.append(model_dis('pre:loess', f'loess(N={n}, total_points={tp}, poly_order={po}) calls _determine_fits with num_x={nx}, total_points={t}'))
        for frac in (0.0, 1e-9, 0.2, 0.5, 0.999, 1.0, 1.0000001, 2.0):
            calls = []

            def wrap2(x_, num_x, total_points, delta):
                calls.append((int(num_x), int(total_points)))
                if not (1 <= total_points <= num_x == len(x_)):
                    raise PreViolation()
                return orig_det(x_, num_x, total_points, delta)
            with patched(P, '_determine_fits', wrap2), warnings.catch_warnings():
                warnings.simplefilter('ignore')
                try:
                    Baseline(x).loess(y, fraction=frac, poly_order=1, max_iter=0)
                except Exception:  # noqa
                    pass
            ctx.case(('loess-frac', n, frac, tuple(calls)), nontrivial=bool(calls))
            for (nx, t) in calls:
                if not (1 <= t <= nx):
                    dis.append(model_dis('pre:loess', f'loess(N={n}, fraction={frac}) calls _determine_fits with total_points={t}'))
    # ---- peak_filling: arguments of every _directional_min_moving_avg call
    orig_dm = Sm._directional_min_moving_avg
    for n in (10, 11, 20, 29, 30, 31, 45, 64):
        y = 2 + rng.normal(size=n)
        x = np.linspace(0, 5, n)
        for sec in sorted({None, 1, 2, 3, n // 3, n - 1, n}, key=lambda v: -1 if v is None else v):
            for hw in (None, 1, 2, 5, n):
                for mi in (1, 3, 5):
                    calls = []

                    def wrap(y_, data_len, half_window):
                        calls.append((len(y_), int(data_len), int(half_window)))
                        if not (1 <= data_len <= len(y_) and half_window >= 0):
                            raise PreViolation()
                        return orig_dm(y_, data_len, half_window)
                    params = None
                    with patched(Sm, '_directional_min_moving_avg', wrap), warnings.catch_warnings():
                        warnings.simplefilter('ignore')
                        try:
                            _, params = Baseline(x).peak_filling(y, half_window=hw, sections=sec, max_iter=mi)
                        except Exception:  # noqa
                            pass
                    ctx.case(('pf-pre', n, sec, hw, mi, tuple(calls[:2])), nontrivial=bool(calls))
                    ctx.count('premonitor:peak_filling')
                    for (ly, dl, h) in calls:
                        if not (1 <= dl <= ly and h >= 0):
                            dis.append(model_dis('pre:peak_filling', f'peak_filling(N={n}, sections={sec}, half_window={hw}, max_iter={mi}) calls the kernel '
                                                 f'with len(y)={ly}, data_len={dl}, half_window={h}'))
                    if calls and params is not None and hw is not None:
                        s = n // 10 if sec is None else sec
                        pads = len(params['x_fit']) - s
                        lines.append(f'c05.peakargs {s} {pads} 0 {hw}')
                        exp.append(f'{calls[0][0]} {calls[0][1]} {calls[0][2]}')
                        meta.append(('peakargs', n, sec, hw, mi))
    # ---- _padded_rolling_std (std_distribution, fastchrom): padded length
    orig_rs = C._rolling_std
    for n in (1, 2, 3, 5, 9, 30):
        y = 2 + rng.normal(size=n)
        x = np.linspace(0, 5, n)
        for hw in (-1, 0, 1, 2, n - 1, n, n + 3, 2 * n + 1):
            for meth in ('std_distribution', 'fastchrom'):
                calls = []

                def wrap(d_, half_window, ddof):
                    calls.append((len(d_), int(half_window)))
                    if not (half_window >= 0 and len(d_) >= 2 * half_window + 1):
                        raise PreViolation()
                    return orig_rs(d_, half_window, ddof)
                with patched(C, '_rolling_std', wrap), warnings.catch_warnings():
                    warnings.simplefilter('ignore')
                    try:
                        getattr(Baseline(x), meth)(y, half_window=hw)
                    except Exception:  # noqa
                        pass
                ctx.case(('rstd-pre', meth, n, hw, tuple(calls)), nontrivial=bool(calls))
                ctx.count('premonitor:' + meth)
                lines.append(f'c05.padlen {n} {hw}')
                exp.append(str(calls[0][0]) if calls else 'none')
                meta.append(('padlen', meth, n, hw))
                for (ld, h) in calls:
                    if h != hw or ld < 2 * h + 1:
                        dis.append(model_dis('pre:rolling_std', f'{meth}(N={n}, half_window={hw}) calls _rolling_std with half_window={h}'))
    # ---- P-spline family: knots.size = num_knots + 2*degree, num_bases = num_knots + degree - 1 > degree
    for nk in (2, 3, 5, 12):
        for deg in (0, 1, 2, 3, 5):
            n = 15
            if nk + deg - 1 <= 1:    # diff_order = 1 needs at least two basis functions
                continue
            fit = Baseline(np.linspace(0, 1, n))
            try:
                with warnings.catch_warnings():
                    warnings.simplefilter('ignore')
                    fit.pspline_asls(2 + rng.normal(size=n), num_knots=nk, spline_degree=deg, diff_order=1, max_iter=1)
                basis = fit._spline_basis
                real = f'{len(basis.knots)} {basis._num_bases}'
            except Exception as e:  # noqa
                real = f'exc {type(e).__name__}'
            ctx.case(('spline-pre', nk, deg, real), nontrivial=True)
            lines.append(f'c05.splinepre {nk} {deg}')
            exp.append(real)
            meta.append(('splinepre', nk, deg))
    res = drive(lines)
    ctx.traces += len(lines)
    for ln, r, e, m in zip(lines, res, exp, meta):
        if r != e:
            dis.append(model_dis('pre:' + m[0], f'caller model differs from the real call {m}: {ln} model={r} real={e}', {'line': ln}))
    return dis


def averaged_interp(ctx, rng):
    """`_find_peak_segments` vs the Lean model on EVERY mask up to length 9 (and random longer ones); pre-monitor of the
    `_interp_inplace` calls made through `_averaged_interp` by the public classification methods"""
    import itertools
    from pybaselines import Baseline, classification as C
    dis = []
    lines, exp = [], []
    masks = [np.array(m, dtype=bool) for n in range(0, 10) for m in itertools.product((False, True), repeat=n)]
    masks += [rng.random(int(rng.integers(10, 60))) < rng.random() for _ in range(200 if ctx.thorough else 40)]
    for mask in masks:
        try:
            st, en = C._find_peak_segments(mask)
            real = f'{ints(st)}|{ints(en)}'
        except Exception as e:  # noqa
            real = f'exc {type(e).__name__}'
        lines.append('c05.peaksegs ' + (''.join('1' if m else '0' for m in mask) or '-'))
        exp.append(real)
        ctx.case(('peaksegs', tuple(bool(m) for m in mask)), nontrivial=len(mask) > 0 and not mask.all())
        ctx.count('caller:_find_peak_segments')
    res = drive(lines)
    ctx.traces += len(lines)
    for ln, r, e in zip(lines, res, exp):
        if r != e:
            dis.append(model_dis('model:peaksegs', f'_find_peak_segments differs from the Lean model: {ln} model={r} real={e}', {'line': ln}))
    orig = C._interp_inplace
    for n in (5, 8, 13, 30, 61):
        t = np.linspace(0, 1, n)
        x = np.linspace(0, 5, n)
        for kind in ('peak', 'edge_peaks', 'noise', 'flat'):
            y = {'peak': 2 + 5 * np.exp(-((t - 0.5) / 0.1) ** 2), 'edge_peaks': 2 + 5 * np.exp(-(t / 0.1) ** 2) + 5 * np.exp(-((t - 1) / 0.1) ** 2),
                 'noise': np.zeros(n), 'flat': np.ones(n)}[kind] + rng.normal(0, 0.05, n)
            for meth, kw in (('golotvin', {'half_window': 2, 'sections': 2}), ('dietrich', {'smooth_half_window': 1, 'poly_order': 1}),
                             ('std_distribution', {'half_window': 2}), ('fastchrom', {'half_window': 2})):
                calls = []

                def wrap(x_, y_, a, b):
                    calls.append((len(x_), len(y_)))
                    if not (len(x_) == len(y_) >= 1):
                        raise PreViolation()
                    return orig(x_, y_, a, b)
                with patched(C, '_interp_inplace', wrap), warnings.catch_warnings():
                    warnings.simplefilter('ignore')
                    try:
                        getattr(Baseline(x), meth)(y, **kw)
                    except Exception:  # noqa
                        pass
                ctx.case(('avg-interp-pre', meth, n, kind, tuple(calls)), nontrivial=bool(calls))
                ctx.count('premonitor:' + meth)
                for (lx, ly) in calls:
                    if not (lx == ly >= 1):
                        dis.append(model_dis('pre:averaged_interp', f'{meth}(N={n}, {kind}) calls _interp_inplace with len(x)={lx}, len(y)={ly}'))
    return dis


def correspond_more(ctx, rng, names):
    dis = []
    for fn in (band_traces, beads_premonitor, bezier_traces, quad_bezier_trace, corner_cutting_premonitor, loess_traces, guards_premonitor, averaged_interp):
        dis += fn(ctx, rng)
    dis += interp_traces(ctx, rng, names)
    return dis
