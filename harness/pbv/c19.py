"""C19 — LOESS gives the same fit whichever internal strategy is used."""
import contextlib
import glob
import json
import os
import struct
from fractions import Fraction

import numpy as np

from . import kernels as K
from . import methods as MM
from .common import Disagreement, drive, q, qs, parse_qs, ROOT
from .c05 import fmt_fits

PROP_MODULE = 'PbVerif.Props.C19'
# increasing affine maps t -> a*t + b of the exact model self-checks (scales over 60 decades, huge offsets)
AFFINE_MAPS = [(Fraction(1, 10 ** 30), Fraction(0)), (Fraction(1), Fraction(1700000000)), (Fraction(10 ** 30), Fraction(-7, 3)),
               (Fraction(3, 7), Fraction(-10 ** 12)), (Fraction(1, 2 ** 40), Fraction(10 ** 9))]
RULE = ('cases = (x kind, x-axis magnitude kind (methods.X_MAGNITUDES with dyadic factors: x * 2^-100 ... 2^99, huge offsets with a narrow '
        'range, negative ranges - exact images of the dyadic reference axis, delta scaled alike, so every float comparison of the '
        'selection stays exact), N, total_points, poly_order, delta, weighting options, max_iter); the fit/window/skip selection and the '
        'skip filling are compared exactly with the Lean model on dyadic x; the two memory strategies and compiled/uncompiled kernels '
        'are compared on the real code; non-trivial = delta > 0 or max_iter >= 1; distinct by canonical tuple; loop kernels: two passes '
        '(data/weights changed in between, exact-zero weights included) of the Python-source _loess_first_loop / _loess_nonfirst_loops / '
        '_loess_low_memory on N = 3..12 (33 thorough), total_points from poly_order+1 to N, against the Lean model of the same kernels')
ASSUMPTIONS = [
    'float comparisons in _determine_fits are exact on dyadic x and delta (the generator uses multiples of 1/8)',
    'np.linalg.solve is deterministic: both memory strategies feed it identical matrices',
    'polynomial reproduction is checked to a conditioning-scaled tolerance (1e-7 relative)',
    'loop kernels: the kernel vectors of the Python-source kernels equal the Lean model evaluated in IEEE doubles bit for bit '
    '(NumPy elementwise -, abs, /, *, sqrt are correctly rounded); coefficients/baseline of the Python-source kernels are compared '
    'with the model in exact rationals (sqrt to 2^-128, exact solve) to 64*eps*total_points*cond(A^T A)*max(|c|, (|A||b| + |A|^2|c|)/|A^T A|) with |A| taken without the kernel factor, local systems with '
    'cond > 1e10 or exactly singular are counted and skipped',
]


def x_of(rng, n, kind):
    if kind == 'uniform':
        return np.arange(n, dtype=float)
    if kind == 'random':
        return np.cumsum(rng.integers(1, 17, n)).astype(float) / 8
    if kind == 'clustered':
        d = np.where(rng.random(n) < 0.7, 1, 40)
        return np.cumsum(d).astype(float) / 8
    if kind == 'gap_end':
        x = np.arange(n, dtype=float)
        x[-1] += 5 * n
        return x
    return np.arange(n, dtype=float)


def on_axis(x, mag):
    """(x', factor): the exact image of the dyadic x on the axis of magnitude `mag` (factor: a power of two; lengths such as delta are
    multiplied with it); the image is verified to be exact, otherwise the reference axis is kept"""
    if mag == '1':
        return x, 1.0
    from fractions import Fraction
    xm, f = MM.x_magnitude(x, mag, dyadic=True)
    d0, dm = np.diff(x), np.diff(xm)
    if len(np.unique(xm)) != len(np.unique(x)) or any(Fraction(float(a)) * Fraction(f) != Fraction(float(b)) for a, b in zip(d0, dm)):
        return None, None
    return xm, f


def loess_cases(ctx, rng):
    kinds = ['uniform', 'random', 'clustered', 'gap_end']
    mags = MM.x_magnitude_cycle(ctx.seed, MM.X_MAGNITUDE_UNUSUAL)
    out = []
    for n in ([4, 7, 12, 23, 40] + ([120] if ctx.thorough else [])):
        for kind in kinds:
            x0 = x_of(rng, n, kind)
            span = x0[-1] - x0[0]
            # every (N, x kind) block once on the reference axis and once, thinned, on an axis of unusual magnitude (round-robin)
            for mag in ('1', next(mags)):
                x, fac = on_axis(x0, mag)
                if x is None:
                    ctx.count('x-magnitude:inexact-image(skipped):' + mag)
                    continue
                for po in (0, 1, 2, 3):
                    for tp in sorted({po + 1, max(po + 1, n // 3), n - 1, n}):
                        if tp < po + 1 or tp > n:
                            continue
                        for delta in (0.0, 0.125, 2.125, 0.1 * span, 2 * span):
                            if rng.random() < ((0.55 if not ctx.thorough else 0.0) if mag == '1' else (0.8 if not ctx.thorough else 0.5)):
                                continue
                            opts = dict(symmetric_weights=bool(rng.integers(0, 2)), use_threshold=bool(rng.integers(0, 2)),
                                        max_iter=int(rng.choice([0, 1, 2, 4, 10])))
                            if rng.random() < 0.35:
                                # caller-supplied, non-uniform weights: both strategies must apply them in every pass
                                opts['weights'] = (np.round(rng.uniform(0.2, 1.0, n) * 64) / 64).tolist()
                            out.append((n, kind, x, po, tp, float(delta) * fac, opts, mag, x0, float(delta)))
    return out



# ----------------------------------------------------------------------------- loop kernels vs the Lean model
class _NanEmptyNumpy:
    """stand-in for the `np` global of pybaselines.polynomial while the Python-source kernels run: `np.empty` returns
    NaN-filled arrays so that the entries a kernel never writes are visible; everything else is NumPy's"""

    def __getattr__(self, name):
        return getattr(np, name)

    @staticmethod
    def empty(shape, *a, **k):
        return np.full(shape, np.nan, *a, **k)


@contextlib.contextmanager
def nan_empty():
    import pybaselines.polynomial as P
    saved = P.np
    P.np = _NanEmptyNumpy()
    try:
        yield
    finally:
        P.np = saved


QNAN = 0x7FF8000000000000


def canon_bits(b):
    """all NaN patterns are one value (sign and payload of a NaN are not defined by IEEE arithmetic)"""
    return QNAN if (b & 0x7FF0000000000000) == 0x7FF0000000000000 and (b & 0x000FFFFFFFFFFFFF) else b


def fbits(v):
    return canon_bits(struct.unpack('<Q', struct.pack('<d', float(v)))[0])


def run_real_kernels(meta):
    """two passes of both strategies with the REAL Python-source kernels on the data of `meta`"""
    import pybaselines.polynomial as P
    x_raw = np.array(meta['x'], dtype=float)
    n, po, tp, delta = len(x_raw), meta['poly_order'], meta['total_points'], meta['delta']
    x = np.polynomial.polyutils.mapdomain(x_raw, np.array([x_raw[0], x_raw[-1]]), np.array([-1., 1.]))
    vander = np.ascontiguousarray(np.polynomial.polynomial.polyvander(x, po))
    y1, w1, y2, w2 = (np.array(meta[k], dtype=float) for k in ('y1', 'w1', 'y2', 'w2'))
    out = {'x': x, 'vander': vander}
    with K.py_kernels(), nan_empty(), np.errstate(all='ignore'):
        windows, fits, skips = P._determine_fits(x_raw, n, tp, float(delta))
        out.update(windows=windows, fits=fits)
        try:
            c_f = np.zeros((n, po + 1))
            kernels, b_f1 = P._loess_first_loop(x, y1, w1, c_f, vander, tp, n, windows, fits)
            c_l = np.zeros((n, po + 1))
            b_l1 = P._loess_low_memory(x, y1, w1, c_l, vander, n, windows, fits)
            out.update(kernels=kernels, b_f1=b_f1, c_f1=c_f.copy(), b_l1=b_l1, c_l1=c_l.copy())
            b_n2 = P._loess_nonfirst_loops(y2, w2, c_f, vander, kernels, windows, n, fits)
            b_l2 = P._loess_low_memory(x, y2, w2, c_l, vander, n, windows, fits)
            out.update(b_n2=b_n2, c_n2=c_f, b_l2=b_l2, c_l2=c_l)
        except np.linalg.LinAlgError:
            out['linalg'] = True
    return out


def strategy_problem(out):
    """property on the real kernels: the cached strategy equals the recomputing one, bit for bit"""
    if 'b_f1' not in out:
        return None
    pairs = [('first-pass baseline', 'b_f1', 'b_l1'), ('first-pass coefs', 'c_f1', 'c_l1')]
    if 'b_n2' in out:
        pairs += [('second-pass baseline', 'b_n2', 'b_l2'), ('second-pass coefs', 'c_n2', 'c_l2')]
    for name, a, b in pairs:
        if not np.array_equal(out[a], out[b], equal_nan=True):
            return f'{name} of the caching kernels differs from _loess_low_memory'
    return None


def kernel_cases(ctx, rng):
    kinds = ['uniform', 'random', 'clustered', 'gap_end']
    mags = MM.x_magnitude_cycle(ctx.seed + 3, MM.X_MAGNITUDE_UNUSUAL)
    out = []
    for n in ([3, 4, 5, 7, 9, 12] + ([20, 33] if ctx.thorough else [])):
        for kind in kinds:
            for po in (0, 1, 2):
                for tp in sorted({po + 1, po + 2, po + 3, po + 4, n // 2 + 1, n - 1, n}):
                    if tp < max(po + 1, 1) or tp > n:
                        continue
                    if not ctx.thorough and rng.random() < (0.75 if tp >= po + 3 else 0.9):
                        continue
                    x = x_of(rng, n, kind)
                    span = x[-1] - x[0]
                    delta = float(rng.choice([0.0, 0.125, 1.125, 0.2 * span]))
                    mag = '1'
                    if rng.random() < 0.3:
                        # the same case on an axis of unusual magnitude (exact dyadic image; delta scaled alike)
                        mag = next(mags)
                        xm, fac = on_axis(x, mag)
                        if xm is None:
                            mag = '1'
                        else:
                            x, delta = xm, delta * fac
                    y1 = rng.integers(-16, 17, n) / 8
                    y2 = np.minimum(y1, rng.integers(-16, 17, n) / 8)       # what `use_threshold` does to y
                    w1 = np.ones(n) if rng.random() < 0.5 else rng.integers(1, 9, n) / 8
                    w2 = rng.integers(0 if rng.random() < 0.3 else 1, 9, n) / 8   # _tukey_square gives exact zeros
                    out.append({'x': x.tolist(), 'kind': kind, 'x_magnitude': mag, 'poly_order': po, 'total_points': tp, 'delta': delta,
                                'y1': y1.tolist(), 'w1': w1.tolist(), 'y2': y2.tolist(), 'w2': w2.tolist(), 'check': 'kernels'})
    return out


def parse_opt(s):
    return [] if s in ('-', '') else [None if t == 'n' else float(parse_qs(t)[0]) for t in s.split(',')]


def parse_rows(s):
    return [] if s in ('-', '') else [None if r == 'x' else [float(v) for v in parse_qs(r)] for r in s.split(';')]


EPS = 2.0 ** -52


def compare_pass(tag, meta, out, yv, w, b_py, c_py, kern_py, m_base, m_coefs, ctx, worst):
    """Python-source kernel results of one pass against the model's exact-rational results"""
    fits, windows, vander = out['fits'], out['windows'], out['vander']
    n = len(b_py)
    written_py = [not np.isnan(v) for v in b_py]
    written_m = [v is not None for v in m_base]
    if written_py != written_m:
        return f'{tag}: baseline entries written by the kernel {np.flatnonzero(written_py).tolist()} vs model {np.flatnonzero(written_m).tolist()}'
    fitted = set(int(i) for i in fits)
    for j in range(n):
        if j not in fitted and (m_coefs[j] is None or np.any(np.asarray(m_coefs[j]) != c_py[j])):
            return f'{tag}: coefs row {j} of an unfitted point changed'
    for i, (l, r) in zip(fits, windows):
        i, l, r = int(i), int(l), int(r)
        at = kern_py[i] * (vander[l:r].T * w[l:r])
        g = at @ at.T
        cond = np.linalg.cond(g) if np.all(np.isfinite(g)) else np.inf
        if m_coefs[i] is None or not np.isfinite(cond) or cond > 1e10:
            ctx.count('kernels:fit ' + ('exactly singular' if m_coefs[i] is None else 'ill-conditioned') + ' (skipped)')
            continue
        cm = np.asarray(m_coefs[i])
        # forward error of solve(G, AT b) formed and solved in doubles, G = AT AT^T: eps * cond(G) * (|c| + |G^-1| |AT||b|) (the
        # second term matters when the right-hand side cancels).  The real kernel entries carry an ABSOLUTE rounding error of a few
        # eps (1 - d^3 cancels near the window edge) whatever their size, so |AT|, |b| are bounded without the kernel factor (<= 1).
        at_abs = np.abs(vander[l:r].T * w[l:r])
        rhs = np.max(at_abs @ np.abs(yv[l:r] * w[l:r]))
        g2 = np.linalg.norm(g, 2)
        scale = max(np.max(np.abs(cm)) * max(1.0, np.linalg.norm(at_abs @ at_abs.T, 2) / g2), rhs / g2, 1e-300)
        tol = 64 * EPS * (r - l) * cond * scale
        err = float(np.max(np.abs(cm - c_py[i])))
        berr = abs(m_base[i] - b_py[i])
        btol = (len(cm) + 1) * tol + 8 * EPS * abs(m_base[i])
        worst[0] = max(worst[0], err / tol, berr / btol)
        ctx.count('kernels:fit compared')
        if not (err <= tol):
            return f'{tag}: coefs[{i}] (window {l}:{r}) real {c_py[i].tolist()} vs model {cm.tolist()} (cond {cond:.3g}, tol {tol:.3g})'
        if not (berr <= btol):
            return f'{tag}: baseline[{i}] (window {l}:{r}) real {b_py[i]!r} vs model {m_base[i]!r} (tol {btol:.3g})'
    return None


def kernels_correspond(ctx, rng, dis):
    tab = K.kernel_table()
    compiled_first = tab['_loess_first_loop'][1]
    cases = kernel_cases(ctx, rng)
    lines, keep = [], []
    for meta in cases:
        out = run_real_kernels(meta)
        n, po, tp = len(meta['x']), meta['poly_order'], meta['total_points']
        canon = ('kernels',) + tuple((k, tuple(v) if isinstance(v, list) else v) for k, v in sorted(meta.items()))
        ctx.case(canon, nontrivial=True, sample={k: meta[k] for k in ('kind', 'poly_order', 'total_points', 'delta')} | {'N': n}
                 if n == 7 and po == 1 else None)
        ctx.count('kernels:x:' + meta['kind'])
        ctx.count('kernels:x-magnitude:' + meta.get('x_magnitude', '1'))
        ctx.count('kernels:tp-po:%s' % (tp - po if tp - po < 4 else '>=4'))
        ctx.count('kernels:outcome:' + ('LinAlgError' if out.get('linalg') else 'ok'))
        prob = strategy_problem(out)
        if prob:
            dis.append(Disagreement('c19.kernels', 'kernels:strategy', f'{prob} (N={n}, tp={tp}, po={po}, delta={meta["delta"]})', meta, True))
        fs = ','.join(str(int(i)) for i in out['fits'])
        ws = ';'.join(f'{int(a)},{int(b)}' for a, b in out['windows'])
        x, vander = out['x'], out['vander']
        lines.append(f'c19.kernf {fs} {ws} ' + ','.join(str(fbits(v)) for v in x))
        lines.append(f'c19.loops {po} {fs} {ws} {qs(x)} ' + ';'.join(qs(row) for row in vander) + ' ' +
                     ' '.join(qs(meta[k]) for k in ('y1', 'w1', 'y2', 'w2')))
        keep.append((meta, out))
        # the compiled kernel must produce the same kernel vectors as its Python source
        if 'kernels' in out and not out.get('linalg'):
            try:
                with np.errstate(all='ignore'):
                    kc, _ = compiled_first(x, np.array(meta['y1']), np.array(meta['w1']), np.zeros((n, po + 1)), vander, tp, n,
                                           out['windows'], out['fits'])
                idx = np.asarray(out['fits'], dtype=int)
                if not np.array_equal(kc[idx], out['kernels'][idx]):
                    ulp = np.max(np.abs(kc[idx] - out['kernels'][idx])) / EPS
                    if ulp > 8:
                        dis.append(Disagreement('c19.kernels', 'kernels:compiled', f'compiled _loess_first_loop kernels differ from the '
                                                f'Python source by {ulp:.3g} eps (N={n}, tp={tp})', meta, True))
                    else:
                        ctx.notes.append('compiled kernel vectors differ from the Python source in the last bits')
            except Exception as e:   # singular systems raise inside the compiled solver as well
                ctx.count('kernels:compiled:' + type(e).__name__)
    res = drive(lines)
    ctx.traces += len(lines)
    worst = [0.0]
    for k, (meta, out) in enumerate(keep):
        rk, rl = res[2 * k], res[2 * k + 1]
        n, po, tp = len(meta['x']), meta['poly_order'], meta['total_points']
        where = f'(N={n}, tp={tp}, po={po}, delta={meta["delta"]}, x={meta["kind"]}, axis {meta.get("x_magnitude", "1")})'
        parts = rl.split('|')
        if rk == 'bad-op' or len(parts) != 6:
            dis.append(Disagreement('c19.model', 'model:kernels-protocol', f'driver answered {rl[:60]!r} {where}', meta, False))
            continue
        flags, m_kern = parts[0], parse_rows(parts[1])
        if flags != '11':
            dis.append(Disagreement('c19.model', 'model:strategies', f'the MODEL strategies differ (flags {flags}) {where}', meta, False))
        m_rows = [[canon_bits(int(t)) for t in row.split(',')] if row != '-' else [] for row in rk.split(';')]
        if 'kernels' not in out:
            # the real kernel raised LinAlgError in the first pass: the model must see a degenerate local system
            m_c1 = parse_rows(parts[3])
            fitted = [int(i) for i in out['fits']]
            if all(m_c1[i] is not None for i in fitted):
                x, vander, w1 = out['x'], out['vander'], np.array(meta['w1'])
                conds = []
                for i, (l, r), kq in zip(fitted, out['windows'], [m_kern[i] for i in fitted]):
                    at = np.asarray(kq) * (vander[int(l):int(r)].T * w1[int(l):int(r)])
                    conds.append(np.linalg.cond(at @ at.T))
                if max(conds) < 1e10:
                    dis.append(Disagreement('c19.model', 'model:linalg', f'_loess_first_loop raised LinAlgError but every local system of the '
                                            f'model is well conditioned (max cond {max(conds):.3g}) {where}', meta, False))
            ctx.count('kernels:pass LinAlgError (model degenerate)')
            continue
        # (c) kernel vectors: bit-exact against the model in doubles, 2e-15 against the model in rationals
        bad = None
        for row, i in zip(m_rows, out['fits']):
            real = [fbits(v) for v in out['kernels'][int(i)]]
            if row != real:
                bad = f'kernel of fit {int(i)}: real bits {real[:4]}… vs model (doubles) {row[:4]}…'
                break
            kq = m_kern[int(i)]
            if kq is None or len(kq) != len(real) or np.max(np.abs(np.asarray(kq) - out['kernels'][int(i)])) > 2e-15:
                bad = f'kernel of fit {int(i)} differs from the exact tricube kernel by more than 2e-15'
                break
        ctx.count('kernels:kernel vectors compared', len(m_rows))
        if bad:
            dis.append(Disagreement('c19.model', 'model:kernel-vector', f'{bad} {where}', meta, False))
            continue
        if np.isnan(out['kernels'][np.asarray(out['fits'], dtype=int)]).any():
            # a one-point window: difference / max(difference[0], difference[-1]) is 0/0; the doubles model agrees (NaN),
            # the rational model is only claimed under `kernel_den_pos`'s guard
            ctx.count('kernels:0/0 kernel (total_points = 1), rational comparison skipped')
            continue
        # (b), (d) what each pass writes
        prob = compare_pass('pass 1', meta, out, np.array(meta['y1']), np.array(meta['w1']), out['b_l1'], out['c_l1'], out['kernels'],
                            parse_opt(parts[2]), parse_rows(parts[3]), ctx, worst)
        if prob is None and 'b_l2' in out:
            prob = compare_pass('pass 2', meta, out, np.array(meta['y2']), np.array(meta['w2']), out['b_l2'], out['c_l2'], out['kernels'],
                                parse_opt(parts[4]), parse_rows(parts[5]), ctx, worst)
        elif prob is None:
            ctx.count('kernels:pass 2 LinAlgError')
        if prob:
            dis.append(Disagreement('c19.model', 'model:kernel-pass', f'{prob} {where}', meta, False))
    ctx.notes.append(f'loop kernels: worst (error / conditioning-scaled tolerance) = {worst[0]:.3g}')


def correspond(ctx):
    from pybaselines import Baseline
    rng = ctx.np_rng()
    dis = []
    tab = K.kernel_table()
    det_fits = tab['_determine_fits'][1].py_func
    fill_skips = tab['_fill_skips'][1].py_func
    names = set(tab)
    for f in sorted(glob.glob(os.path.join(ROOT, 'corpus', 'C19_*.json'))):
        d = json.load(open(f))
        r = replay(ctx, d)
        ctx.case(('corpus', os.path.basename(f)))
        if r:
            dis.append(Disagreement('c19.corpus', d['signature'], f'corpus {os.path.basename(f)}: {r}', d['replay'], True))
    lines, exp, metas = [], [], []
    for n, kind, x, po, tp, delta, opts, mag, x_ref, delta_ref in loess_cases(ctx, rng):
        canon = ('loess', n, kind, po, tp, delta, tuple(sorted((k, (tuple(v) if isinstance(v, list) else v)) for k, v in opts.items())), tuple(x.tolist()))
        ctx.count('x:' + kind)
        ctx.count('x-magnitude:' + mag)
        ctx.count('poly_order:%d' % po)
        ctx.count('delta:' + ('0' if delta == 0 else '>0'))
        t = (x - x[0]) / max(x[-1] - x[0], 1)
        y = 3 + 2 * t + 5 * np.exp(-((t - 0.4) / 0.1) ** 2) + rng.normal(0, 0.05, n)
        meta = {'x': x.tolist(), 'y': y.tolist(), 'poly_order': po, 'total_points': tp, 'delta': delta, 'opts': opts}
        if mag != '1':
            meta.update(x_magnitude=mag, x_ref=x_ref.tolist(), delta_ref=delta_ref)
        # (1) selection of fits / windows / skips vs the model (exact) and its documented properties
        res = K.monitored(lambda: det_fits(x, n, tp, delta), names | {'_determine_fits'})
        if res[0] != 'ok':
            dis.append(Disagreement('c19.fits', 'fits:raises', f'_determine_fits raised {res[1:]} (N={n}, tp={tp}, delta={delta})', meta, True))
            continue
        w, f, s = res[1]
        prob = check_selection(x, n, tp, delta, w, f, s)
        if prob:
            dis.append(Disagreement('c19.fits', 'fits:' + prob[0], f'_determine_fits(N={n}, total_points={tp}, delta={delta}, x={kind}'
                                    + ('' if mag == '1' else f' on the axis {mag}') + f'): {prob[1]}',
                                    dict(meta, check='selection'), True))
        lines.append(f'c19.fits {tp} {q(delta)} {qs(x)}')
        exp.append(fmt_fits(w, f, s))
        metas.append(('fits', meta))
        # MODEL self-check, exact in Q: the selection for a*x + b with delta scaled by a is the selection for x
        # (theorem determineFits_affine_invariant; guards N >= 1, total_points >= 1)
        if tp >= 1 and n <= 60:
            fa, fb = AFFINE_MAPS[len(lines) % len(AFFINE_MAPS)]
            lines.append(f'c19.fits {tp} {q(fa * Fraction(float(delta)))} {qs([fa * Fraction(float(v)) + fb for v in x])}')
            exp.append(None)
            metas.append(('fits_aff', dict(meta, a=str(fa), b=str(fb))))
            ctx.count('affine-self-check:fits')
        # (2) skip filling vs the model
        if len(s):
            b = rng.integers(-8, 9, n).astype(float)
            b2 = b.copy()
            fill_skips(x, b2, s)
            lines.append(f'c19.fill {qs(x)} {qs(b)} ' + ';'.join(f'{int(a)},{int(c)}' for a, c in s))
            exp.append(b2)
            metas.append(('fill', meta))
            if n <= 60 and all(x[int(c) - 1] != x[int(a)] for a, c in s):
                fa, fb = AFFINE_MAPS[len(lines) % len(AFFINE_MAPS)]
                lines.append(f'c19.fill {qs([fa * Fraction(float(v)) + fb for v in x])} {qs(b)} ' + ';'.join(f'{int(a)},{int(c)}' for a, c in s))
                exp.append(None)
                metas.append(('fill_aff', dict(meta, a=str(fa), b=str(fb))))
                ctx.count('affine-self-check:fill')
        # (3) real loess: memory strategies, compiled vs python kernels, chords, delta=0
        kw = dict(total_points=tp, poly_order=po, delta=delta, return_coef=True, tol=1e-3, **{k: (np.array(v) if k == 'weights' else v) for k, v in opts.items()})
        ctx.count('weights:' + ('user' if 'weights' in opts else 'none'))
        try:
            with np.errstate(all='ignore'):
                b1, p1 = Baseline(x).loess(y, conserve_memory=True, **kw)
                b0, p0 = Baseline(x).loess(y, conserve_memory=False, **kw)
        except Exception as e:
            ctx.case(canon, nontrivial=False)
            ctx.count('outcome:' + type(e).__name__)
            try:
                Baseline(x).loess(y, conserve_memory=False, **kw)
                dis.append(Disagreement('c19.strategy', 'strategy:outcome', f'conserve_memory=True raised {type(e).__name__} but False returned', meta, True))
            except Exception:
                pass
            why = axis_problem(meta)
            if why:
                dis.append(Disagreement('c19.axis', 'axis:outcome', f'loess (N={n}, tp={tp}, po={po}, delta={delta}, x={kind} on the axis {mag}): {why}',
                                        dict(meta, check='axis'), True))
            continue
        ctx.case(canon, nontrivial=(delta > 0 or opts['max_iter'] >= 1),
                 sample={'N': n, 'x': kind, 'poly_order': po, 'total_points': tp, 'delta': delta, **opts} if n == 12 else None)
        ctx.count('outcome:ok')
        for key, a, bb in (('baseline', b1, b0), ('weights', p1['weights'], p0['weights']), ('coef', p1['coef'], p0['coef']),
                           ('tol_history', p1['tol_history'], p0['tol_history'])):
            if np.shape(a) != np.shape(bb) or not np.array_equal(a, bb, equal_nan=True):
                close = np.shape(a) == np.shape(bb) and np.allclose(a, bb, rtol=1e-9, atol=1e-9, equal_nan=True)
                if not close:
                    dis.append(Disagreement('c19.strategy', 'strategy:' + key, f'loess {key} differs between conserve_memory=True and False '
                                            f'(N={n}, tp={tp}, po={po}, delta={delta}, {opts})', dict(meta, check='strategy', key=key), True))
                else:
                    ctx.notes.append(f'strategies differ in rounding only ({key})')
        if mag != '1' and rng.random() < 0.5:
            ctx.count('axis-vs-reference')
            why = axis_problem(meta)
            if why:
                dis.append(Disagreement('c19.axis', 'axis:baseline', f'loess (N={n}, tp={tp}, po={po}, delta={delta}, x={kind} on the axis {mag}): {why}',
                                        dict(meta, check='axis'), True))
        # chord law at skipped points (the baseline is interpolated on the mapped x, a linear map of x)
        for a, c in s:
            for k in range(a + 1, c - 1):
                want = b1[a] + (x[k] - x[a]) * (b1[c - 1] - b1[a]) / (x[c - 1] - x[a])
                # the code interpolates on t = mapdomain(x) = off + scl * x, an affine image of x only to 4 eps max|x| scl: the three
                # abscissae of the chord carry that error, the interpolated value 12 eps max|x| / (x[c-1] - x[a]) of the chord's rise
                # (1e-15 on ordinary axes, 1e-6 on 1e6 + [0, 1e-3])
                slack = 12 * EPS * float(np.max(np.abs(x))) / float(x[c - 1] - x[a]) * abs(float(b1[c - 1] - b1[a]))
                if not np.isclose(b1[k], want, rtol=1e-9, atol=1e-9 * max(1, abs(want)) + slack):
                    dis.append(Disagreement('c19.chord', 'chord', f'loess baseline at skipped point {k} is not on the line between fitted '
                                            f'points {a} and {c - 1} (N={n}, delta={delta})', dict(meta, check='chord'), True))
                    break
        # compiled vs python-source kernels
        # (well-posed local fits only: no robust re-weighting, at least poly_order+3 points per window, since the
        # tricube kernel gives the farthest point zero weight; rank-deficient local systems are solver dependent)
        if n <= 23 and tp >= po + 3:
            kw0 = dict(kw, max_iter=0)
            with np.errstate(all='ignore'):
                b1c = Baseline(x).loess(y, conserve_memory=True, **kw0)[0]
            r2 = K.monitored(lambda: Baseline(x).loess(y, conserve_memory=True, **kw0), names)
            if r2[0] == 'exc' and r2[1] == 'LinAlgError':
                ctx.count('compiled:singular-local-fit(skipped)')
            elif r2[0] != 'ok' or not np.allclose(r2[1][0], b1c, rtol=1e-6, atol=1e-6, equal_nan=True):
                dis.append(Disagreement('c19.compiled', 'compiled', f'loess with Python-source kernels differs from the compiled kernels '
                                        f'(N={n}, tp={tp}, delta={delta}): {r2[0]}', dict(meta, check='compiled'), True))
        # polynomial reproduction
        coefs = rng.integers(-3, 4, po + 1).astype(float)
        tt = np.polynomial.polyutils.mapdomain(x, np.array([x[0], x[-1]]), np.array([-1., 1.]))
        yp = np.polynomial.polynomial.polyval(tt, coefs)
        try:
            with np.errstate(all='ignore'):
                bp, _ = Baseline(x).loess(yp, total_points=tp, poly_order=po, delta=delta, max_iter=0)
            fitted = np.asarray(f)
            sc = max(1.0, float(np.max(np.abs(yp))))
            if not np.allclose(bp[fitted], yp[fitted], rtol=0, atol=1e-6 * sc):
                dis.append(Disagreement('c19.reproduce', 'reproduce', f'loess does not reproduce a degree-{po} polynomial at the fitted points '
                                        f'(max err {float(np.max(np.abs(bp[fitted] - yp[fitted]))):.3g}; N={n}, tp={tp}, delta={delta})',
                                        dict(meta, check='reproduce', coefs=coefs.tolist()), True))
        except np.linalg.LinAlgError:
            ctx.count('reproduce:singular')
    res = drive(lines)
    ctx.traces += len(lines)
    last = {}
    for ln, r, e, (kind, meta) in zip(lines, res, exp, metas):
        if kind in ('fits', 'fill'):
            last[kind] = r
        if kind in ('fits_aff', 'fill_aff'):
            if r != last[kind[:4]]:
                dis.append(Disagreement('c19.model', 'model:affine:' + kind[:4], f'MODEL self-check: {kind[:4]} for a*x+b (a={meta["a"]}, b={meta["b"]}, delta scaled '
                                        f'by a) differs from that for x (theorem {"determineFits" if kind[:4] == "fits" else "fillSkips"}_affine_invariant '
                                        f'violated?): {r[:80]} vs {last[kind[:4]][:80]}', dict(meta, line=ln[:60]), False))
        elif kind == 'fits':
            if r != e:
                dis.append(Disagreement('c19.model', 'model:fits', f'_determine_fits differs from the Lean model: model={r[:100]} real={e[:100]}',
                                        dict(meta, line=ln[:60]), False))
        else:
            pred = [float(v) for v in parse_qs(r)]
            if len(pred) != len(e) or not np.allclose(pred, e, rtol=1e-12, atol=1e-12):
                dis.append(Disagreement('c19.model', 'model:fill', '_fill_skips differs from the Lean model', dict(meta, line=ln[:60]), False))
    kernels_correspond(ctx, rng, dis)
    history_cases(ctx, rng, dis)
    return dis


def run_history(x, y, hist):
    """the calls of `hist` on ONE long-lived fitter; each must give what a fresh fitter gives with conserve_memory=True.
    Returns None or (step index, what differs)."""
    from pybaselines import Baseline
    shared = Baseline(x)
    for k, h in enumerate(hist):
        kw = {a: v for a, v in h.items() if a != 'conserve_memory'}
        outs = []
        for fit, cm in ((shared, h['conserve_memory']), (Baseline(x), True)):
            try:
                with np.errstate(all='ignore'):
                    b, p = fit.loess(y, conserve_memory=cm, return_coef=True, **kw)
                outs.append(('ok', b, p))
            except Exception as e:      # noqa: BLE001
                outs.append(('exc', type(e).__name__, None))
        (s0, b0, p0), (s1, b1, p1) = outs
        if s0 != s1 or (s0 == 'exc' and b0 != b1):
            return k, f'outcome {s0 if s0 == "ok" else b0} on the re-used fitter, {s1 if s1 == "ok" else b1} on a fresh one'
        if s0 == 'exc':
            continue
        for key, a, bb in (('baseline', b0, b1), ('weights', p0['weights'], p1['weights']), ('coef', p0['coef'], p1['coef']),
                           ('tol_history', p0['tol_history'], p1['tol_history'])):
            if np.shape(a) != np.shape(bb) or not np.allclose(a, bb, rtol=1e-9, atol=1e-9, equal_nan=True):
                return k, f'{key} differs'
    return None


def history_cases(ctx, rng, dis):
    """the memory strategy must not matter on a RE-USED fitter either: histories of loess calls on one object in which delta,
    total_points, poly_order, the iteration budget and the strategy change from call to call (and sometimes do not)"""
    hmags = MM.x_magnitude_cycle(ctx.seed + 5, MM.X_MAGNITUDE_UNUSUAL)
    for _ in range(40 if ctx.thorough else 10):
        n = int(rng.choice([12, 23, 40, 61]))
        kind = ['uniform', 'random', 'clustered'][int(rng.integers(0, 3))]
        x = x_of(rng, n, kind)
        y = np.round((0.02 * (x - x.mean()) ** 2 + 3 * np.exp(-0.5 * ((x - x[n // 2]) / (0.05 * (x[-1] - x[0]) + 1e-9)) ** 2) + rng.normal(0, 0.2, n)) * 64) / 64
        hmag = '1'
        if rng.random() < 0.5:
            hmag = next(hmags)
            xm, _fac = on_axis(x, hmag)
            if xm is None:
                hmag = '1'
            else:
                x = xm
        ctx.count('history:x-magnitude:' + hmag)
        span = float(x[-1] - x[0])
        tps = [int(v) for v in rng.choice(np.arange(5, max(6, n // 2 + 1)), 2)]
        hist = []
        for k in range(int(rng.integers(4, 9))):
            hist.append({'total_points': tps[int(rng.integers(0, 2))] if rng.random() < 0.8 else int(rng.integers(5, n + 1)),
                         'poly_order': int(rng.choice([1, 2])) if rng.random() < 0.8 else 0,
                         'delta': float(rng.choice([0.0, 0.0, 0.02 * span, 0.1 * span, 0.35 * span])),
                         'max_iter': int(rng.choice([0, 1, 3])), 'tol': 1e-3,
                         'conserve_memory': bool(rng.random() < 0.35)})
        ctx.case(('history', n, kind, tuple(tuple(sorted(h.items())) for h in hist)), nontrivial=True)
        ctx.count('history:calls', len(hist))
        ctx.count('history:strategy-changes', sum(1 for a, b in zip(hist, hist[1:]) if a['conserve_memory'] != b['conserve_memory']))
        ctx.count('history:delta-changes-same-size', sum(1 for a, b in zip(hist, hist[1:]) if a['delta'] != b['delta'] and a['total_points'] == b['total_points']))
        bad = run_history(x, y, hist)
        if bad:
            # shrink: drop calls from the front / keep the failing prefix only
            # (every candidate is re-run: a defect that reads uninitialised memory need not fail twice in the same way)
            for cand in [hist[:bad[0] + 1]] + [hist[j:bad[0] + 1] for j in range(1, bad[0] + 1)]:
                again = run_history(x, y, cand)
                if again:
                    hist, bad = cand, again
            dis.append(Disagreement('c19.history', 'strategy:history', f'loess on a re-used fitter (call {bad[0] + 1} of {len(hist)}, conserve_memory='
                                    f'{hist[bad[0]]["conserve_memory"]}) differs from a fresh fitter with conserve_memory=True: {bad[1]}; calls: {hist}',
                                    {'check': 'history', 'x': x.tolist(), 'y': y.tolist(), 'history': hist}, True))


def axis_problem(meta):
    """An axis of unusual magnitude is an exact increasing affine image of the reference axis (delta scaled alike): the windows, the
    fitted points and the mapped abscissae in [-1, 1] are the same, so loess must do on it what it does on the reference axis.  Only
    well-posed local fits are compared (total_points >= poly_order + 3, no robust re-weighting: rank-deficient local systems are solver
    dependent - Appendix C).  Returns a description or None."""
    from pybaselines import Baseline
    if 'x_ref' not in meta or meta['total_points'] < meta['poly_order'] + 3:
        return None
    y = np.array(meta['y'], dtype=float)
    kw = dict(total_points=meta['total_points'], poly_order=meta['poly_order'], max_iter=0, conserve_memory=True)
    if 'weights' in meta['opts']:
        kw['weights'] = np.array(meta['opts']['weights'])
    outs = []
    for xx, dd in ((meta['x_ref'], meta['delta_ref']), (meta['x'], meta['delta'])):
        try:
            with np.errstate(all='ignore'):
                outs.append(('ok', Baseline(np.array(xx, dtype=float)).loess(y, delta=dd, **kw)[0]))
        except Exception as e:          # noqa: BLE001
            outs.append(('exc', type(e).__name__))
    (s0, b0), (s1, b1) = outs
    if s0 != 'ok' or not np.all(np.isfinite(b0)):
        return None
    if s1 != 'ok':
        return f'raises {b1} although the same call on the reference axis (same relative positions, same windows) returns a baseline'
    # the mapped abscissae t = off + scl * x of the two axes agree only to 4 eps max|x| / range (cancellation inside numpy's mapdomain)
    xa = np.array(meta['x'], dtype=float)
    sc = max(1.0, float(np.max(np.abs(y)))) * (1.0 + 1e9 * EPS * float(np.max(np.abs(xa))) / float(np.ptp(xa)))
    if not np.allclose(b1, b0, rtol=0, atol=1e-6 * sc, equal_nan=True):
        return (f'the baseline differs from the one on the reference axis by {float(np.nanmax(np.abs(b1 - b0))):.3g} (first iteration, well-posed '
                f'local fits; the windows and the mapped abscissae are the same)')
    return None


def check_selection(x, n, tp, delta, w, f, s):
    f = [int(v) for v in f]
    if len(w) != len(f):
        return ('shape', 'windows and fits have different lengths')
    if f[0] != 0 or f[-1] != n - 1 or any(a >= b for a, b in zip(f, f[1:])):
        return ('ends', f'fits {f[:6]}… are not strictly increasing from 0 to N-1')
    if delta <= 0 and (f != list(range(n)) or len(s)):
        return ('delta0', 'delta = 0 does not fit every point')
    for (l, r), i in zip(w, f):
        if not (0 <= l and r <= n and r - l == tp):
            return ('window', f'window ({int(l)}, {int(r)}) of fit {i} is not total_points={tp} points inside the data')
        if not (l <= i < r):
            return ('contain', f'window ({int(l)}, {int(r)}) does not contain the fitted point {i}')
    gaps = [(a, b + 1) for a, b in zip(f, f[1:]) if a + 1 < b]
    real = [(int(a), int(b)) for a, b in s if a + 2 < b]
    if gaps != real:
        return ('skips', f'skip ranges {real[:4]} are not the gaps between fits {gaps[:4]}')
    return None


def search(ctx, hints, lean_failed):
    sub = type(ctx)(ctx.prop, 'thorough', ctx.seed + 1)
    return [d for d in correspond(sub) if d.property_level]


def replay(ctx, data):
    from pybaselines import Baseline
    r = data['replay']
    if r.get('check') == 'kernels':
        try:
            return strategy_problem(run_real_kernels(r))
        except Exception as e:
            return f'{type(e).__name__}: {e}'
    x, y = np.array(r['x']), np.array(r['y'])
    if r.get('check') == 'history':
        bad = run_history(x, y, r['history'])
        return f'call {bad[0] + 1}: {bad[1]}' if bad else None
    n = len(x)
    tab = K.kernel_table()
    det_fits = tab['_determine_fits'][1].py_func
    kw = dict(total_points=r['total_points'], poly_order=r['poly_order'], delta=r['delta'], return_coef=True, **r['opts'])
    chk = r.get('check')
    try:
        if chk == 'axis':
            return axis_problem(r)
        if chk == 'selection':
            w, f, s = det_fits(x, n, r['total_points'], r['delta'])
            p = check_selection(x, n, r['total_points'], r['delta'], w, f, s)
            return p[1] if p else None
        if chk == 'strategy':
            b1, p1 = Baseline(x).loess(y, conserve_memory=True, **kw)
            b0, p0 = Baseline(x).loess(y, conserve_memory=False, **kw)
            key = r['key']
            a, b = (b1, b0) if key == 'baseline' else (p1[key], p0[key])
            return None if (np.shape(a) == np.shape(b) and np.allclose(a, b, rtol=1e-9, atol=1e-9, equal_nan=True)) else f'{key} differs between memory strategies'
        if chk == 'reproduce':
            tt = np.polynomial.polyutils.mapdomain(x, np.array([x[0], x[-1]]), np.array([-1., 1.]))
            yp = np.polynomial.polynomial.polyval(tt, np.array(r['coefs']))
            bp, _ = Baseline(x).loess(yp, total_points=r['total_points'], poly_order=r['poly_order'], delta=r['delta'], max_iter=0)
            f = det_fits(x, n, r['total_points'], r['delta'])[1]
            return None if np.allclose(bp[f], yp[f], rtol=0, atol=1e-6 * max(1, np.abs(yp).max())) else 'polynomial not reproduced'
    except Exception as e:
        return f'{type(e).__name__}: {e}'
    return None
