"""C19 — LOESS gives the same fit whichever internal strategy is used."""
import glob
import json
import os

import numpy as np

from . import kernels as K
from .common import Disagreement, drive, q, qs, parse_qs, ROOT
from .c05 import fmt_fits

PROP_MODULE = 'PbVerif.Props.C19'
RULE = ('cases = (x kind, N, total_points, poly_order, delta, weighting options, max_iter); the fit/window/skip selection and the '
        'skip filling are compared exactly with the Lean model on dyadic x; the two memory strategies and compiled/uncompiled kernels '
        'are compared on the real code; non-trivial = delta > 0 or max_iter >= 1; distinct by canonical tuple')
ASSUMPTIONS = [
    'float comparisons in _determine_fits are exact on dyadic x and delta (the generator uses multiples of 1/8)',
    'np.linalg.solve is deterministic: both memory strategies feed it identical matrices',
    'polynomial reproduction is checked to a conditioning-scaled tolerance (1e-7 relative)',
]


def x_of(rng, n, kind):
    if kind == 'uniform':
        return np.arange(n, dtype=float)
    if kind == 'random':
        return np.cumsum(rng.integers(1, 17, n)).astype(float) / 8
    if kind == 'clustered':
        d = np.where(rng.random(n) < 0.7, 1, 40)
        return np.cumsum(d).astype(float) / 8
    if kind == 'gap_end':
        x = np.arange(n, dtype=float)
        x[-1] += 5 * n
        return x
    return np.arange(n, dtype=float)


def loess_cases(ctx, rng):
    kinds = ['uniform', 'random', 'clustered', 'gap_end']
    out = []
    for n in ([4, 7, 12, 23, 40] + ([120] if ctx.thorough else [])):
        for kind in kinds:
            x = x_of(rng, n, kind)
            span = x[-1] - x[0]
            for po in (0, 1, 2, 3):
                for tp in sorted({po + 1, max(po + 1, n // 3), n - 1, n}):
                    if tp < po + 1 or tp > n:
                        continue
                    for delta in (0.0, 0.125, 2.125, 0.1 * span, 2 * span):
                        if not ctx.thorough and rng.random() < 0.55:
                            continue
                        opts = dict(symmetric_weights=bool(rng.integers(0, 2)), use_threshold=bool(rng.integers(0, 2)),
                                    max_iter=int(rng.choice([0, 1, 2, 4, 10])))
                        if rng.random() < 0.35:
                            # caller-supplied, non-uniform weights: both strategies must apply them in every pass
                            opts['weights'] = (np.round(rng.uniform(0.2, 1.0, n) * 64) / 64).tolist()
                        out.append((n, kind, x, po, tp, float(delta), opts))
    return out


def correspond(ctx):
    from pybaselines import Baseline
    rng = ctx.np_rng()
    dis = []
    tab = K.kernel_table()
    det_fits = tab['_determine_fits'][1].py_func
    fill_skips = tab['_fill_skips'][1].py_func
    names = set(tab)
    for f in sorted(glob.glob(os.path.join(ROOT, 'corpus', 'C19_*.json'))):
        d = json.load(open(f))
        r = replay(ctx, d)
        ctx.case(('corpus', os.path.basename(f)))
        if r:
            dis.append(Disagreement('c19.corpus', d['signature'], f'corpus {os.path.basename(f)}: {r}', d['replay'], True))
    lines, exp, metas = [], [], []
    for n, kind, x, po, tp, delta, opts in loess_cases(ctx, rng):
        canon = ('loess', n, kind, po, tp, delta, tuple(sorted((k, (tuple(v) if isinstance(v, list) else v)) for k, v in opts.items())), tuple(x.tolist()))
        ctx.count('x:' + kind)
        ctx.count('poly_order:%d' % po)
        ctx.count('delta:' + ('0' if delta == 0 else '>0'))
        t = (x - x[0]) / max(x[-1] - x[0], 1)
        y = 3 + 2 * t + 5 * np.exp(-((t - 0.4) / 0.1) ** 2) + rng.normal(0, 0.05, n)
        meta = {'x': x.tolist(), 'y': y.tolist(), 'poly_order': po, 'total_points': tp, 'delta': delta, 'opts': opts}
        # (1) selection of fits / windows / skips vs the model (exact) and its documented properties
        res = K.monitored(lambda: det_fits(x, n, tp, delta), names | {'_determine_fits'})
        if res[0] != 'ok':
            dis.append(Disagreement('c19.fits', 'fits:raises', f'_determine_fits raised {res[1:]} (N={n}, tp={tp}, delta={delta})', meta, True))
            continue
        w, f, s = res[1]
        prob = check_selection(x, n, tp, delta, w, f, s)
        if prob:
            dis.append(Disagreement('c19.fits', 'fits:' + prob[0], f'_determine_fits(N={n}, total_points={tp}, delta={delta}, x={kind}): {prob[1]}',
                                    dict(meta, check='selection'), True))
        lines.append(f'c19.fits {tp} {q(delta)} {qs(x)}')
        exp.append(fmt_fits(w, f, s))
        metas.append(('fits', meta))
        # (2) skip filling vs the model
        if len(s):
            b = rng.integers(-8, 9, n).astype(float)
            b2 = b.copy()
            fill_skips(x, b2, s)
            lines.append(f'c19.fill {qs(x)} {qs(b)} ' + ';'.join(f'{int(a)},{int(c)}' for a, c in s))
            exp.append(b2)
            metas.append(('fill', meta))
        # (3) real loess: memory strategies, compiled vs python kernels, chords, delta=0
        kw = dict(total_points=tp, poly_order=po, delta=delta, return_coef=True, tol=1e-3, **{k: (np.array(v) if k == 'weights' else v) for k, v in opts.items()})
        ctx.count('weights:' + ('user' if 'weights' in opts else 'none'))
        try:
            with np.errstate(all='ignore'):
                b1, p1 = Baseline(x).loess(y, conserve_memory=True, **kw)
                b0, p0 = Baseline(x).loess(y, conserve_memory=False, **kw)
        except Exception as e:
            ctx.case(canon, nontrivial=False)
            ctx.count('outcome:' + type(e).__name__)
            try:
                Baseline(x).loess(y, conserve_memory=False, **kw)
                dis.append(Disagreement('c19.strategy', 'strategy:outcome', f'conserve_memory=True raised {type(e).__name__} but False returned', meta, True))
            except Exception:
                pass
            continue
        ctx.case(canon, nontrivial=(delta > 0 or opts['max_iter'] >= 1),
                 sample={'N': n, 'x': kind, 'poly_order': po, 'total_points': tp, 'delta': delta, **opts} if n == 12 else None)
        ctx.count('outcome:ok')
        for key, a, bb in (('baseline', b1, b0), ('weights', p1['weights'], p0['weights']), ('coef', p1['coef'], p0['coef']),
                           ('tol_history', p1['tol_history'], p0['tol_history'])):
            if np.shape(a) != np.shape(bb) or not np.array_equal(a, bb, equal_nan=True):
                close = np.shape(a) == np.shape(bb) and np.allclose(a, bb, rtol=1e-9, atol=1e-9, equal_nan=True)
                if not close:
                    dis.append(Disagreement('c19.strategy', 'strategy:' + key, f'loess {key} differs between conserve_memory=True and False '
                                            f'(N={n}, tp={tp}, po={po}, delta={delta}, {opts})', dict(meta, check='strategy', key=key), True))
                else:
                    ctx.notes.append(f'strategies differ in rounding only ({key})')
        # chord law at skipped points (the baseline is interpolated on the mapped x, a linear map of x)
        for a, c in s:
            for k in range(a + 1, c - 1):
                want = b1[a] + (x[k] - x[a]) * (b1[c - 1] - b1[a]) / (x[c - 1] - x[a])
                if not np.isclose(b1[k], want, rtol=1e-9, atol=1e-9 * max(1, abs(want))):
                    dis.append(Disagreement('c19.chord', 'chord', f'loess baseline at skipped point {k} is not on the line between fitted '
                                            f'points {a} and {c - 1} (N={n}, delta={delta})', dict(meta, check='chord'), True))
                    break
        # compiled vs python-source kernels
        # (well-posed local fits only: no robust re-weighting, at least poly_order+3 points per window, since the
        # tricube kernel gives the farthest point zero weight; rank-deficient local systems are solver dependent)
        if n <= 23 and tp >= po + 3:
            kw0 = dict(kw, max_iter=0)
            with np.errstate(all='ignore'):
                b1c = Baseline(x).loess(y, conserve_memory=True, **kw0)[0]
            r2 = K.monitored(lambda: Baseline(x).loess(y, conserve_memory=True, **kw0), names)
            if r2[0] == 'exc' and r2[1] == 'LinAlgError':
                ctx.count('compiled:singular-local-fit(skipped)')
            elif r2[0] != 'ok' or not np.allclose(r2[1][0], b1c, rtol=1e-6, atol=1e-6, equal_nan=True):
                dis.append(Disagreement('c19.compiled', 'compiled', f'loess with Python-source kernels differs from the compiled kernels '
                                        f'(N={n}, tp={tp}, delta={delta}): {r2[0]}', dict(meta, check='compiled'), True))
        # polynomial reproduction
        coefs = rng.integers(-3, 4, po + 1).astype(float)
        tt = np.polynomial.polyutils.mapdomain(x, np.array([x[0], x[-1]]), np.array([-1., 1.]))
        yp = np.polynomial.polynomial.polyval(tt, coefs)
        try:
            with np.errstate(all='ignore'):
                bp, _ = Baseline(x).loess(yp, total_points=tp, poly_order=po, delta=delta, max_iter=0)
            fitted = np.asarray(f)
            sc = max(1.0, float(np.max(np.abs(yp))))
            if not np.allclose(bp[fitted], yp[fitted], rtol=0, atol=1e-6 * sc):
                dis.append(Disagreement('c19.reproduce', 'reproduce', f'loess does not reproduce a degree-{po} polynomial at the fitted points '
                                        f'(max err {float(np.max(np.abs(bp[fitted] - yp[fitted]))):.3g}; N={n}, tp={tp}, delta={delta})',
                                        dict(meta, check='reproduce', coefs=coefs.tolist()), True))
        except np.linalg.LinAlgError:
            ctx.count('reproduce:singular')
    res = drive(lines)
    ctx.traces += len(lines)
    for ln, r, e, (kind, meta) in zip(lines, res, exp, metas):
        if kind == 'fits':
            if r != e:
                dis.append(Disagreement('c19.model', 'model:fits', f'_determine_fits differs from the Lean model: model={r[:100]} real={e[:100]}',
                                        dict(meta, line=ln[:60]), False))
        else:
            pred = [float(v) for v in parse_qs(r)]
            if len(pred) != len(e) or not np.allclose(pred, e, rtol=1e-12, atol=1e-12):
                dis.append(Disagreement('c19.model', 'model:fill', '_fill_skips differs from the Lean model', dict(meta, line=ln[:60]), False))
    return dis


def check_selection(x, n, tp, delta, w, f, s):
    f = [int(v) for v in f]
    if len(w) != len(f):
        return ('shape', 'windows and fits have different lengths')
    if f[0] != 0 or f[-1] != n - 1 or any(a >= b for a, b in zip(f, f[1:])):
        return ('ends', f'fits {f[:6]}… are not strictly increasing from 0 to N-1')
    if delta <= 0 and (f != list(range(n)) or len(s)):
        return ('delta0', 'delta = 0 does not fit every point')
    for (l, r), i in zip(w, f):
        if not (0 <= l and r <= n and r - l == tp):
            return ('window', f'window ({int(l)}, {int(r)}) of fit {i} is not total_points={tp} points inside the data')
        if not (l <= i < r):
            return ('contain', f'window ({int(l)}, {int(r)}) does not contain the fitted point {i}')
    gaps = [(a, b + 1) for a, b in zip(f, f[1:]) if a + 1 < b]
    real = [(int(a), int(b)) for a, b in s if a + 2 < b]
    if gaps != real:
        return ('skips', f'skip ranges {real[:4]} are not the gaps between fits {gaps[:4]}')
    return None


def search(ctx, hints, lean_failed):
    sub = type(ctx)(ctx.prop, 'thorough', ctx.seed + 1)
    return [d for d in correspond(sub) if d.property_level]


def replay(ctx, data):
    from pybaselines import Baseline
    r = data['replay']
    x, y = np.array(r['x']), np.array(r['y'])
    n = len(x)
    tab = K.kernel_table()
    det_fits = tab['_determine_fits'][1].py_func
    kw = dict(total_points=r['total_points'], poly_order=r['poly_order'], delta=r['delta'], return_coef=True, **r['opts'])
    chk = r.get('check')
    try:
        if chk == 'selection':
            w, f, s = det_fits(x, n, r['total_points'], r['delta'])
            p = check_selection(x, n, r['total_points'], r['delta'], w, f, s)
            return p[1] if p else None
        if chk == 'strategy':
            b1, p1 = Baseline(x).loess(y, conserve_memory=True, **kw)
            b0, p0 = Baseline(x).loess(y, conserve_memory=False, **kw)
            key = r['key']
            a, b = (b1, b0) if key == 'baseline' else (p1[key], p0[key])
            return None if (np.shape(a) == np.shape(b) and np.allclose(a, b, rtol=1e-9, atol=1e-9, equal_nan=True)) else f'{key} differs between memory strategies'
        if chk == 'reproduce':
            tt = np.polynomial.polyutils.mapdomain(x, np.array([x[0], x[-1]]), np.array([-1., 1.]))
            yp = np.polynomial.polynomial.polyval(tt, np.array(r['coefs']))
            bp, _ = Baseline(x).loess(yp, total_points=r['total_points'], poly_order=r['poly_order'], delta=r['delta'], max_iter=0)
            f = det_fits(x, n, r['total_points'], r['delta'])[1]
            return None if np.allclose(bp[f], yp[f], rtol=0, atol=1e-6 * max(1, np.abs(yp).max())) else 'polynomial not reproduced'
    except Exception as e:
        return f'{type(e).__name__}: {e}'
    return None
