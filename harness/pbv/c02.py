"""C02 — results do not depend on the order in which x (and z) are supplied.

Correspondence (DESIGN 4.C02): the real method is run on pre-sorted data (all sorting code inert)
and on consistently permuted data; the Lean model (`Perm.determineSorts`, `invertedSort`,
`sort2d`) predicts the second call's outputs from the first call's; they must agree bit for bit.
"""
import numpy as np

from . import methods as M
from . import cmp
from .common import Disagreement, drive, qs, parse_qs, q, log
from fractions import Fraction

PROP_MODULE = 'PbVerif.Props.C02'
GEN_TABLES = ('Registry',)
RULE = ('cases = (method, dimension, which axes are permuted, permutation kind, weights/alpha given or not, '
        'max_iter choice, size); non-trivial = the permutation is not the identity and the call returned; '
        'distinct by the canonical tuple')
ASSUMPTIONS = [
    'np.argsort(kind="mergesort") is a stable sort (its specification; the model uses a stable insertion sort)',
    'numpy fancy indexing a[idx] selects elements',
    'IEEE arithmetic: the core sees identical arrays in both runs, hence bit-identical results',
    'wrapped core algorithms are black boxes (the theorem needs no hypothesis on them)',
]
TOL = 1e-9


def perm_of(rng, n, kind):
    p = np.arange(n)
    if kind == 'random':
        rng.shuffle(p)
    elif kind == 'reverse':
        p = p[::-1].copy()
    elif kind == 'swap':
        i, j = rng.choice(n, 2, replace=False)
        p[i], p[j] = p[j], p[i]
    elif kind == 'rotate':
        p = np.roll(p, int(rng.integers(1, n)))
    elif kind == 'swap_ends':
        p[0], p[-1] = p[-1], p[0]
    return p


def mat(a):
    return ';'.join(qs(r) for r in a)


def parse_mat(s):
    return [parse_qs(r) for r in s.split(';')]


def exact_eq(a, pred):
    """bit-exact comparison of a float array with a list of Fractions"""
    a = np.asarray(a, dtype=float).ravel()
    if len(a) != len(pred):
        return False
    return all((np.isnan(v) and p is None) or (np.isfinite(v) and Fraction(float(v)) == p) for v, p in zip(a, pred))


def close(a, b):
    a = np.asarray(a, dtype=float)
    b = np.asarray(b, dtype=float)
    if a.shape != b.shape:
        return False
    scale = max(1.0, float(np.nanmax(np.abs(b))) if b.size else 1.0)
    return bool(np.allclose(a, b, rtol=TOL, atol=TOL * scale, equal_nan=True))


def perpoint_items(params, shape, prefix=''):
    """yield (key path, array) of arrays whose trailing dims equal the data shape; recurse into dicts"""
    nd = len(shape)
    for k, v in params.items():
        if isinstance(v, dict):
            yield from perpoint_items(v, shape, prefix + k + '.')
        elif isinstance(v, np.ndarray) and v.ndim >= nd and tuple(v.shape[v.ndim - nd:]) == tuple(shape) and v.size:
            yield prefix + k, v
        elif isinstance(v, np.ndarray) and nd == 1 and v.ndim == 2 and v.shape[0] == shape[0] and prefix + k == 'coef':
            yield prefix + k, v.T  # loess coefficients: one row per point


def other_items(params, shape, prefix=''):
    nd = len(shape)
    for k, v in params.items():
        if isinstance(v, dict):
            yield from other_items(v, shape, prefix + k + '.')
        elif isinstance(v, np.ndarray) and v.ndim >= nd and tuple(v.shape[v.ndim - nd:]) == tuple(shape) and v.size:
            continue
        elif prefix + k == 'coef' and isinstance(v, np.ndarray) and v.ndim == 2 and nd == 1 and v.shape[0] == shape[0]:
            continue
        else:
            yield prefix + k, v


def call(two_d, name, xs, y, kw, stack=False, iface='class', module=None):
    from pybaselines import Baseline, Baseline2D
    import importlib
    try:
        if iface == 'func' and not two_d:
            fn = getattr(importlib.import_module('pybaselines.' + module), name)
            b, p = fn(y, x_data=xs[0], **kw)
            return ('ok', b, p)
        fit = Baseline2D(*xs) if two_d else Baseline(xs[0])
        b, p = getattr(fit, name)(y, **kw)
        return ('ok', b, p)
    except Exception as e:  # noqa
        return ('exc', type(e).__name__, str(e)[:100])


def build_case(ctx, rng, two_d, name, entry, n, want_weights, mi_choice, kw_override=None):
    kw = M.filter_kwargs(entry, M.call_kwargs(name, two_d))
    params = entry['params']
    if kw_override is not None:
        kw = dict(kw_override)
        ctx.count('kwargs:single-variant')
    elif rng.random() < 0.45:
        # a non-default parameter value (optional code paths: smoothing, Whittaker interpolation of a mask, other orders ...)
        vs = M.variants(name, entry, two_d, rng, 1, base=kw)
        if vs:
            kw = vs[0]
            ctx.count('kwargs:variant')
    if 'max_iter' in params and mi_choice is not None:
        kw['max_iter'] = mi_choice
    pp = {}  # per-point kwargs (sorted order)
    if two_d:
        m, n2 = n
        x, z, y = M.make_data2d(rng, m, n2)
        shape = (m, n2)
    else:
        x, y = M.make_data(rng, n)
        shape = (n,)
    if want_weights:
        # every non-empty subset of the per-point arguments is a separate case (alpha alone, weights alone, both)
        if 'weights' in params and want_weights in (True, 'weights'):
            pp['weights'] = np.round(rng.uniform(0.1, 1.0, shape) * 64) / 64
        if 'alpha' in params and 'aspls' in name and want_weights in (True, 'alpha'):
            pp['alpha'] = np.round(rng.uniform(0.3, 1.0, shape) * 64) / 64
    return kw, pp, ((x, z) if two_d else (x,)), y, shape


def run_case(ctx, rng, two_d, name, entry, n, pkind, axes, want_weights, mi_choice, iface='class', kw_override=None):
    """returns list of Disagreement"""
    kw, pp, xs, y, shape = build_case(ctx, rng, two_d, name, entry, n, want_weights, mi_choice, kw_override)
    stack = name == 'collab_pls'
    perms = []
    for ax, xv in enumerate(xs):
        if ax in axes:
            perms.append(perm_of(rng, len(xv), pkind))
        else:
            perms.append(np.arange(len(xv)))

    def permute(a):
        a = np.asarray(a)
        if two_d:
            return a[..., perms[0][:, None], perms[1][None, :]]
        return a[..., perms[0]]

    ys = np.array([y, 1.1 * y + 0.5]) if stack else y
    xs_u = tuple(xv[p] for xv, p in zip(xs, perms))
    kw_s = dict(kw, **pp)
    kw_u = dict(kw, **{k: permute(v) for k, v in pp.items()})
    rs = call(two_d, name, xs, ys, kw_s, iface=iface, module=entry['module'])
    ru = call(two_d, name, xs_u, permute(ys), kw_u, iface=iface, module=entry['module'])
    canon = (name, two_d, tuple(axes), pkind, want_weights, mi_choice, n, iface)
    ctx.count('iface:' + iface)
    trivial = all((p == np.arange(len(p))).all() for p in perms)
    ctx.count(('2d:' if two_d else '1d:') + pkind)
    ctx.count('weights:' + ('user' if want_weights else 'none'))
    ctx.count('max_iter:' + str(mi_choice))
    sample = {'method': name, 'two_d': two_d, 'iface': iface, 'module': entry['module'], 'perm': pkind, 'axes': list(axes), 'user_weights': want_weights,
              'max_iter': mi_choice, 'shape': list(shape)}
    replay = dict(sample, seed_state=None, x=[xv.tolist() for xv in xs_u], y=np.asarray(permute(ys)).tolist(),
                  kwargs={k: (v.tolist() if isinstance(v, np.ndarray) else v) for k, v in kw_u.items()})
    sig = f'{"2d" if two_d else "1d"}:{name}:weights={"user" if want_weights else "none"}' + (':func' if iface == 'func' else '')
    out = []
    if rs[0] == 'exc' or ru[0] == 'exc':
        ctx.case(canon, nontrivial=False, sample=None)
        ctx.count('outcome:exception')
        if rs[0] != ru[0] or (rs[0] == 'exc' and rs[1] != ru[1]):
            out.append(Disagreement('c02.outcome', sig,
                                    f'{name}: sorted call -> {rs[:2] if rs[0]=="exc" else "ok"}, permuted call -> '
                                    f'{ru[:2] if ru[0]=="exc" else "ok"}', replay, property_level=True))
        return out
    ctx.case(canon, nontrivial=not trivial, sample=sample)
    ctx.count('outcome:ok')
    _, bs, ps = rs
    _, bu, pu = ru
    # model predictions through the driver
    lines, targets = [], []

    def add(label, a_sorted, a_unsorted):
        a_sorted = np.asarray(a_sorted, dtype=float)
        a_unsorted = np.asarray(a_unsorted, dtype=float)
        if a_sorted.shape != a_unsorted.shape:
            out.append(Disagreement('c02.shape', sig, f'{name}:{label} shapes differ '
                                    f'{a_sorted.shape} vs {a_unsorted.shape}', replay, property_level=True))
            return
        if not (np.isfinite(a_sorted).all() and np.isfinite(a_unsorted).all()):
            # non-finite cannot travel as rationals: compare directly with numpy
            if not close(a_unsorted, permute(a_sorted)):
                out.append(Disagreement('c02.direct', sig, f'{name}:{label} (non-finite) differs',
                                        replay, property_level=True))
            return
        lead = a_sorted.reshape((-1,) + tuple(shape))
        leadu = a_unsorted.reshape((-1,) + tuple(shape))
        for sl, ul in zip(lead, leadu):
            if two_d:
                lines.append(f'c02.unsort2d {qs(xs_u[0])} {qs(xs_u[1])} {mat(sl)}')
            else:
                lines.append(f'c02.unsort {qs(xs_u[0])} {qs(sl)}')
            targets.append((label, sl, ul))

    add('baseline', bs, bu)
    keys_s, os_ = cmp.split(ps, shape, name)
    keys_u, ou_ = cmp.split(pu, shape, name)
    for k in sorted(set(keys_s) | set(keys_u)):
        if k not in keys_s or k not in keys_u:
            out.append(Disagreement('c02.keys', sig, f'{name}: per-point key {k} present in only one run',
                                    replay, property_level=True))
            continue
        add(k, keys_s[k], keys_u[k])
    # non-per-point outputs must be the same in both runs
    for k in sorted(set(os_) | set(ou_)):
        if name == 'individual_axes' and k.startswith(('params_rows', 'params_columns')):
            continue  # per-line parameter lists follow the line order; covered through baseline_rows/columns
        a, b = os_.get(k), ou_.get(k)
        if not ((a is None and b is None) or cmp.same_value(a, b, TOL)):
            out.append(Disagreement('c02.scalars', sig, f'{name}: parameter {k} differs between sorted and '
                                    f'permuted call', replay, property_level=True))
    res = drive(lines)
    ctx.traces += len(lines)
    for (label, sl, ul), r in zip(targets, res):
        pred = [v for row in parse_mat(r) for v in row] if two_d else parse_qs(r)
        if exact_eq(ul, pred):
            continue
        # direct evaluation of the property with numpy only (independent of the model)
        direct = permute(sl)
        if close(ul, direct):
            predf = np.array([float(v) for v in pred]).reshape(np.shape(ul))
            if close(predf, direct):
                ctx.notes.append(f'{name}:{label} differs from model only in rounding (max {np.max(np.abs(ul-direct)):.2e})')
                continue
            out.append(Disagreement('c02.model', sig + ':model:' + label,
                                    f'{name}:{label}: Lean model of the sort layer disagrees with numpy reference',
                                    replay, property_level=False))
        else:
            err = float(np.max(np.abs(np.asarray(ul) - direct)))
            out.append(Disagreement('c02.equivariance', sig,
                                    f'{name} ({"2-D" if two_d else "1-D"}, weights={"user" if want_weights else "None"}, '
                                    f'max_iter={mi_choice}, perm={pkind} axes={list(axes)}): {label} of the permuted call '
                                    f'differs from the permuted {label} of the sorted call by {err:.3g}',
                                    dict(replay, label=label, max_abs_diff=err), property_level=True))
    # rounding amplified by an ill-conditioned problem (e.g. lam = 1e7 on a tiny grid) is not an ordering defect: when the
    # permuted and the sorted call differ only slightly, measure how much the sorted call moves under a relative perturbation
    # of 1e-14 of the data; differences within 1000x that change are attributed to the conditioning (counted, not reported)
    soft = [d for d in out if d.stage in ('c02.equivariance', 'c02.scalars') and d.property_level]
    if soft and np.all(np.isfinite(np.asarray(bs, dtype=float))):
        try:
            sgn = np.where(np.random.default_rng(7).random(np.shape(ys)) < 0.5, -1.0, 1.0)
            rs2 = call(two_d, name, xs, np.asarray(ys, dtype=float) * (1 + 1e-14 * sgn), kw_s, iface=iface, module=entry['module'])
            if rs2[0] == 'ok':
                d_pert = float(np.max(np.abs(np.asarray(rs2[1], dtype=float) - np.asarray(bs, dtype=float))))
                d_obs = float(np.max(np.abs(np.asarray(bu, dtype=float) - permute(np.asarray(bs, dtype=float)))))
                th_ok = True
                if 'tol_history' in ps and 'tol_history' in pu:
                    th_ok = len(np.atleast_1d(ps['tol_history'])) == len(np.atleast_1d(pu['tol_history']))
                if th_ok and d_obs <= 1000 * d_pert:
                    # the excuse is granted per output: an output is excused only if ITS OWN difference is within 1000x the
                    # movement of that same output under the perturbation (a mask or weight array that is simply not
                    # un-sorted differs by O(1) while the perturbation does not move it at all)
                    keys_p = cmp.split(rs2[2], shape, name)[0]

                    def moved(label):
                        if label == 'baseline':
                            return d_pert
                        if label in keys_p and label in keys_s and np.shape(keys_p[label]) == np.shape(keys_s[label]):
                            return float(np.max(np.abs(np.asarray(keys_p[label], dtype=float) - np.asarray(keys_s[label], dtype=float))))
                        return 0.0
                    excused = [d for d in soft if d.stage == 'c02.scalars' or
                               d.replay.get('max_abs_diff', np.inf) <= 1000 * max(moved(d.replay.get('label', 'baseline')), d_pert if d.replay.get('label') == 'baseline' else 0.0)]
                    if excused:
                        ctx.count('ill-conditioned-case')
                    out = [d for d in out if d not in excused]
        except Exception:      # noqa: BLE001
            pass
    return out


def cases(ctx):
    rng = ctx.np_rng()
    reg1, reg2 = M.registry(False), M.registry(True)
    kinds = ['random', 'reverse', 'swap', 'rotate', 'swap_ends']
    plan = []
    reps = 3 if ctx.thorough else 1
    for rep in range(reps):
        for name, e in reg1.items():
            for ww in ((False, True, 'alpha', 'weights') if ('alpha' in e['params'] and 'aspls' in name) else (False, True)):
                if ww and not ({'weights', 'alpha'} & set(e['params'])):
                    continue
                mi_opts = [None, 0, 1, 2] if 'max_iter' in e['params'] else [None]
                mis = mi_opts if ctx.thorough else [None, mi_opts[int(rng.integers(1, len(mi_opts)))] if len(mi_opts) > 1 else None]
                for mi in dict.fromkeys(mis):
                    n = int(rng.choice([25, 31, 40, 57])) if not ctx.thorough else int(rng.choice([25, 40, 57, 120, 301]))
                    ifaces = ['class', 'func'] if (name in M.OPTIMIZERS_1D or ctx.thorough) else \
                        [['class', 'class', 'func'][int(rng.integers(0, 3))]]
                    for iface in ifaces:
                        # kinds[0..] : 'random' and 'rotate' are not self-inverse; always use one of those for 'func'
                        pk = kinds[int(rng.integers(0, len(kinds)))] if iface == 'class' else ['random', 'rotate'][int(rng.integers(0, 2))]
                        plan.append((False, name, e, n, pk, (0,), ww, mi, iface))
        for name, e in reg2.items():
            for ww in ((False, True, 'alpha', 'weights') if ('alpha' in e['params'] and 'aspls' in name) else (False, True)):
                if ww and not ({'weights', 'alpha'} & set(e['params'])):
                    continue
                axes_opts = [(0,), (1,), (0, 1)]
                mi_opts = [None, 0, 1] if 'max_iter' in e['params'] else [None]
                for axes in (axes_opts if ctx.thorough else [axes_opts[int(rng.integers(0, 3))], (0, 1)]):
                    mi = mi_opts[int(rng.integers(0, len(mi_opts)))]
                    shape = (int(rng.choice([12, 14, 17])), int(rng.choice([11, 13, 16])))
                    plan.append((True, name, e, shape, kinds[int(rng.integers(0, 4))], axes, ww, mi))
    # every method with each single parameter moved to a non-default value (optional code paths), one permutation each
    for two_d, reg in ((False, reg1), (True, reg2)):
        for name, e in reg.items():
            svs = M.single_variants(name, e, two_d)
            if not ctx.thorough and len(svs) > 10:
                svs = [svs[i] for i in sorted(rng.choice(len(svs), 10, replace=False))]
            for kwv in svs:
                pk = ['random', 'rotate', 'reverse'][int(rng.integers(0, 3))] if 'reverse' in kinds else ['random', 'rotate'][int(rng.integers(0, 2))]
                if two_d:
                    plan.append((True, name, e, (12, 11), pk, [(0,), (1,), (0, 1)][int(rng.integers(0, 3))], False, None, 'class', kwv))
                else:
                    plan.append((False, name, e, int(rng.choice([25, 40])), pk, (0,), False, None, 'class', kwv))
    return rng, plan


def corpus(ctx):
    import glob, json, os
    from .common import ROOT
    out = []
    for f in sorted(glob.glob(os.path.join(ROOT, 'corpus', 'C02_*.json'))):
        d = json.load(open(f))
        still = replay(ctx, d)
        ctx.case(('corpus', os.path.basename(f)), nontrivial=True)
        ctx.count('corpus')
        if still:
            out.append(Disagreement('c02.corpus', d['signature'], f'corpus case {os.path.basename(f)}: {still}',
                                    d['replay'], property_level=True))
    return out


def correspond(ctx):
    rng, plan = cases(ctx)
    dis = corpus(ctx)
    # model self-check against numpy on raw permutations (ties included): sorts / inverse
    lines, exp = [], []
    for _ in range(200 if ctx.thorough else 60):
        n = int(rng.integers(1, 40))
        x = np.round(rng.normal(0, 3, n) * 4) / 4  # ties likely
        so = np.argsort(x, kind='mergesort')
        lines.append(f'c02.sorts {qs(x)}')
        if (so[1:] > so[:-1]).all():
            exp.append('none')
        else:
            inv = np.empty(n, dtype=int)
            inv[so] = np.arange(n)
            exp.append(','.join(map(str, so)) + '|' + ','.join(map(str, inv)))
        ctx.case(('sorts', tuple(x.tolist())), nontrivial=exp[-1] != 'none')
    for ln, r, e in zip(lines, drive(lines), exp):
        ctx.traces += 1
        if r != e:
            dis.append(Disagreement('c02.sorts', 'model:sorts', f'_determine_sorts model {r} != numpy {e} on {ln}',
                                    {'line': ln}, property_level=False))
    # the real _determine_sorts/_inverted_sort/_sort_array against the model
    from pybaselines.utils import _determine_sorts
    lines, exp = [], []
    for _ in range(60):
        n = int(rng.integers(1, 30))
        x = np.round(rng.normal(0, 3, n) * 4) / 4
        so, inv = _determine_sorts(x)
        lines.append(f'c02.sorts {qs(x)}')
        exp.append('none' if so is None else ','.join(map(str, so)) + '|' + ','.join(map(str, inv)))
    for ln, r, e in zip(lines, drive(lines), exp):
        ctx.traces += 1
        if r != e:
            dis.append(Disagreement('c02.sorts', 'impl:sorts', f'utils._determine_sorts returned {e}, model {r}; {ln}',
                                    {'line': ln}, property_level=False))
    # interp_pts is the one method whose data argument may be omitted: the baseline must still come back in the caller's x order
    from pybaselines import Baseline, misc
    for pk in ('random', 'rotate', 'reverse'):
        for im in ('linear', 'quadratic'):
            n = int(rng.choice([25, 40]))
            x = np.sort(np.round(rng.uniform(0, 100, n) * 8) / 8 + np.arange(n) * 1e-3)
            pts = np.array([[x[2], 3.0], [x[n // 2], 7.5], [x[-3], 5.0], [x[n // 4], 1.0]])
            perm = perm_of(rng, n, pk)
            xu = x[perm]
            for label, fs, fu in (('method', lambda: Baseline(x).interp_pts(baseline_points=pts, interp_method=im),
                                   lambda: Baseline(xu).interp_pts(baseline_points=pts, interp_method=im)),
                                  ('function', lambda: misc.interp_pts(x_data=x, baseline_points=pts, interp_method=im),
                                   lambda: misc.interp_pts(x_data=xu, baseline_points=pts, interp_method=im))):
                try:
                    bs, bu = fs()[0], fu()[0]
                except Exception as ex:      # noqa: BLE001
                    ctx.count('interp_pts-no-data:raised')
                    continue
                ctx.case(('interp_pts-no-data', pk, im, label, n), nontrivial=True)
                ctx.count('interp_pts-no-data')
                if np.shape(bu) != np.shape(bs) or not close(bu, bs[perm]):
                    dis.append(Disagreement('c02.equivariance', f'1d:interp_pts:no-data:{label}', f'interp_pts ({label}, data omitted, {im}, perm={pk}): the baseline of the '
                                            f'permuted call is not the permuted baseline of the sorted call (max diff '
                                            f'{float(np.max(np.abs(bu - bs[perm]))) if np.shape(bu) == np.shape(bs) else "shape"})',
                                            {'method': 'interp_pts', 'no_data': True, 'x': xu.tolist(), 'points': pts.tolist(), 'interp_method': im, 'iface': label}, True))
    for item in plan:
        try:
            dis += run_case(ctx, rng, *item)
        except Exception as e:  # harness problem: report as model-level so it is never silently lost
            import traceback
            traceback.print_exc()
            dis.append(Disagreement('c02.harness', f'harness:{item[1]}', f'harness error {type(e).__name__}: {e}',
                                    {'method': item[1]}, property_level=False))
    return dis


def search(ctx, hints, lean_failed):
    """Direct evaluation of the property on the real code with fresh seeds/larger variety."""
    found = []
    rng, plan = cases(ctx)
    # the registry obligation broke: methods whose per-point outputs are not all declared for un-sorting are driven first, on
    # larger data (masks / weights that are almost constant on small data hide a missing un-sort)
    try:
        from . import translate
        reg1, reg2 = M.registry(False), M.registry(True)
        flagged = [(r[0], r[1]) for r in translate.gen_registry()[1] if not r[5] and (set(r[6]) | set(r[7])) - set(r[2])]
        directed = []
        for two_d, name in flagged:
            e = (reg2 if two_d else reg1)[name]
            for pk in ('random', 'rotate', 'random'):
                directed.append((True, name, e, (23, 19), pk, (0, 1), False, None) if two_d else (False, name, e, 160, pk, (0,), False, None))
            # ... and with every single-parameter variant on several sizes (a mask that is all True / all False says nothing)
            for kwv in M.single_variants(name, e, two_d):
                for size in (((14, 12), (23, 19)) if two_d else (40, 100, 300)):
                    directed.append((two_d, name, e, size, 'random', (0, 1) if two_d else (0,), False, None, 'class', kwv))
        plan = directed + plan
        if flagged:
            ctx.notes.append(f'registry: per-point outputs not declared in sort_keys for {flagged}; driven first on larger data')
    except Exception:
        import traceback
        traceback.print_exc()
    for item in plan:
        try:
            found += [d for d in run_case(ctx, rng, *item) if d.property_level]
        except Exception:
            pass
        if len(found) > 5:
            break
    return found


def replay(ctx, data):
    from pybaselines import Baseline, Baseline2D
    r = data['replay']
    two_d = r['two_d']
    xs = [np.array(v) for v in r['x']]
    y = np.array(r['y'])
    kw = {k: (np.array(v) if isinstance(v, list) and k in ('weights', 'alpha') else v) for k, v in r['kwargs'].items()}
    if 'baseline_points' in kw:
        kw['baseline_points'] = np.array(kw['baseline_points'])
    name = r['method']
    sos = [np.argsort(v, kind='mergesort') for v in xs]

    def srt(a):
        a = np.asarray(a)
        return a[..., sos[0][:, None], sos[1][None, :]] if two_d else a[..., sos[0]]

    def unsrt(a):
        invs = [np.argsort(s) for s in sos]
        a = np.asarray(a)
        return a[..., invs[0][:, None], invs[1][None, :]] if two_d else a[..., invs[0]]
    kws = {k: (srt(v) if k in ('weights', 'alpha') else v) for k, v in kw.items()}
    ru = call(two_d, name, xs, y, kw, iface=r.get('iface', 'class'), module=r.get('module'))
    rs = call(two_d, name, [v[s] for v, s in zip(xs, sos)], srt(y), kws, iface=r.get('iface', 'class'), module=r.get('module'))
    if ru[0] != rs[0]:
        return f'outcomes differ: {ru[:2]} vs {rs[:2]}'
    if ru[0] == 'exc':
        return None
    label = r.get('label', 'baseline')
    def get(b, p):
        if label == 'baseline':
            return b
        return cmp.split(p, np.shape(b), name)[0][label]
    a, b = get(ru[1], ru[2]), unsrt(get(rs[1], rs[2]))
    if not close(a, b):
        return f'{name}:{label} max abs diff {float(np.max(np.abs(np.asarray(a)-np.asarray(b)))):.3g}'
    return None
