"""C20 — 2-D eigendecomposition and array algebra agree with the full 2-D system."""
import glob
import json
import os

import numpy as np

from . import methods as M
from .common import Disagreement, drive, q, qs, parse_qs, ROOT

PROP_MODULE = 'PbVerif.Props.C20'
RULE = ('cases = (grid shape incl. M = N and sides down to diff_order+2, diff_order per axis, num_eigens from diff_order+1 to full per axis, '
        'lam per axis, weight matrices, hosts): _make_btwb / rhs / reconstruction / eigen-penalty of WhittakerSystem2D and PSpline2D vs the '
        'Lean array-algebra model (exact rationals on small integer bases); full eigenbasis vs direct Kronecker solve; truncated basis vs '
        'the Galerkin equations in an independently computed eigenbasis; individual_axes vs explicit 1-D loops; non-trivial = differing '
        'settings per axis or truncated basis; distinct by canonical tuple')
ASSUMPTIONS = [
    'LAPACK eig_banded / eigh_tridiagonal: orthonormality and the eigen-equation of the returned vectors are measured on every case, not proved',
    'the Galerkin certificate uses eigenvectors from an independent dense np.linalg.eigh of D\'D per axis; residuals are compared with 1e-8 relative tolerance',
]


def mat(a):
    return ';'.join(qs(r) for r in np.atleast_2d(a))


def parse_mat(s):
    return np.array([[float(v) for v in parse_qs(row)] for row in s.split(';')])


def dtd(n, d):
    D = np.diff(np.eye(n), d, axis=0)
    return D.T @ D


def galerkin_check(Y, W, v, dr, dc, lamr, lamc, kr, kc):
    """(distance of v from span(B), relative Galerkin residual) with B = U_r[:, :kr] ⊗ U_c[:, :kc] from dense eigh"""
    m, n = Y.shape
    Pr, Pc = dtd(m, dr), dtd(n, dc)
    er, Ur = np.linalg.eigh(Pr)
    ec, Uc = np.linalg.eigh(Pc)
    Ur, Uc = Ur[:, :kr], Uc[:, :kc]
    C = Ur.T @ v @ Uc                      # coefficients of the projection
    proj = Ur @ C @ Uc.T
    span_err = float(np.max(np.abs(v - proj)) / max(1.0, np.max(np.abs(v))))
    resid_full = W * (Y - v) - lamr * (Pr @ v) - lamc * (v @ Pc)
    g = Ur.T @ resid_full @ Uc
    scale = float(np.max(np.abs(Ur.T @ (W * Y) @ Uc)) + lamr * np.max(np.abs(Ur.T @ Pr @ v @ Uc)) + lamc * np.max(np.abs(Ur.T @ v @ Pc @ Uc)) + 1e-300)
    return span_err, float(np.max(np.abs(g)) / scale)


def galerkin_tol(v, dr, dc, lamr, lamc, Y, W):
    """rounding budget of the Galerkin residual: the eigenvalues of D'D (norm 4^d) are known to about eps * 4^d, and they are
    multiplied by lam"""
    eps = np.finfo(float).eps
    scale = float(np.max(np.abs(W * Y))) + 1e-300
    return 1e-8 + 200 * eps * (lamr * 4.0 ** dr + lamc * 4.0 ** dc) * float(np.max(np.abs(v))) / scale


def correspond(ctx):
    from pybaselines import Baseline, Baseline2D
    from pybaselines.two_d import _whittaker_utils as wu, _spline_utils as su2
    rng = ctx.np_rng()
    dis = []
    for f in sorted(glob.glob(os.path.join(ROOT, 'corpus', 'C20_*.json'))):
        d = json.load(open(f))
        r = replay(ctx, d)
        ctx.case(('corpus', os.path.basename(f)))
        if r:
            dis.append(Disagreement('c20.corpus', d['signature'], f'corpus {os.path.basename(f)}: {r}', d['replay'], True))
    lines, metas = [], []
    # ---- (a) array algebra of the real objects vs the Lean model on small integer-valued bases
    for _ in range(12 if ctx.thorough else 5):
        m, n, a, b = int(rng.integers(2, 6)), int(rng.integers(2, 6)), int(rng.integers(1, 4)), int(rng.integers(1, 4))
        Br = rng.integers(-3, 4, (m, a)).astype(float)
        Bc = rng.integers(-3, 4, (n, b)).astype(float)
        W = rng.integers(0, 5, (m, n)).astype(float)
        Y = rng.integers(-5, 6, (m, n)).astype(float)
        coef = rng.integers(-4, 5, a * b).astype(float)
        obj = wu.WhittakerSystem2D.__new__(wu.WhittakerSystem2D)
        obj._num_bases = np.array([a, b])
        obj.basis_r, obj.basis_c = Br, Bc
        obj._G_r, obj._G_c = su2._face_splitting(Br), su2._face_splitting(Bc)
        F = np.asarray(obj._make_btwb(W))
        rhs = (Br.T @ (W * Y) @ Bc).ravel()
        rec = Br @ coef.reshape(a, b) @ Bc.T
        lines += [f'c20.btwb {mat(Br)} {mat(Bc)} {mat(W)}', f'c20.rhs {mat(Br)} {mat(Bc)} {mat(W * Y)}', f'c20.recon {mat(Br)} {mat(Bc)} {qs(coef)}']
        metas += [('btwb', F, (m, n, a, b)), ('rhs', rhs, (m, n, a, b)), ('recon', rec, (m, n, a, b))]
        K = np.kron(Br, Bc)
        if not np.allclose(F, K.T @ (W.ravel()[:, None] * K)):
            dis.append(Disagreement('c20.btwb', 'btwb:whittaker', f'WhittakerSystem2D._make_btwb differs from (B_r ⊗ B_c)\' diag(vec W) (B_r ⊗ B_c) for shapes {(m, n, a, b)}',
                                    {'kind': 'btwb', 'shape': [m, n, a, b]}, True))
        ctx.case(('btwb', m, n, a, b), nontrivial=True, sample={'check': '_make_btwb', 'data': [m, n], 'bases': [a, b]} if len(ctx.samples) < 2 else None)
        er = rng.integers(0, 6, a).astype(float)
        ec = rng.integers(0, 6, b).astype(float)
        lr, lc = float(rng.integers(1, 9)), float(rng.integers(1, 9))
        lines.append(f'c20.pen {q(lr)} {q(lc)} {qs(er)} {qs(ec)}')
        metas.append(('pen', np.repeat(lr * er, b) + np.tile(lc * ec, a), (a, b)))
    # PSpline2D basis algebra
    for _ in range(6 if ctx.thorough else 3):
        m, n = int(rng.integers(6, 12)), int(rng.integers(6, 12))
        x, z = np.sort(rng.uniform(0, 1, m)), np.sort(rng.uniform(0, 1, n))
        nk, deg = (int(rng.integers(3, 6)), int(rng.integers(3, 6))), (int(rng.integers(1, 4)), int(rng.integers(1, 4)))
        basis = su2.SplineBasis2D(x, z, nk, deg)
        W = rng.uniform(0, 1, (m, n))
        F = basis._make_btwb(W)
        F = F.toarray() if hasattr(F, 'toarray') else np.asarray(F)
        K = np.kron(basis.basis_r.toarray(), basis.basis_c.toarray())
        ctx.case(('btwb-spline', m, n, nk, deg), nontrivial=True)
        if not np.allclose(F, K.T @ (W.ravel()[:, None] * K), rtol=1e-10, atol=1e-12):
            dis.append(Disagreement('c20.btwb', 'btwb:pspline', f'SplineBasis2D._make_btwb differs from the Kronecker normal matrix (knots {nk}, degree {deg})',
                                    {'kind': 'btwb-spline', 'nk': list(nk), 'deg': list(deg)}, True))
    # ---- (b) WhittakerSystem2D.solve: eigen hypotheses, full vs direct, truncated vs Galerkin
    shapes = [(7, 7), (9, 6), (6, 9), (12, 12), (5, 8), (10, 10)] + ([(20, 15), (16, 16)] if ctx.thorough else [])
    for (m, n) in shapes:
        for _ in range(3 if ctx.thorough else 2):
            dr, dc = int(rng.integers(1, min(4, m - 2) + 1)), int(rng.integers(1, min(4, n - 2) + 1))
            if m == n and rng.random() < 0.7:
                while dc == dr:
                    dc = int(rng.integers(1, min(4, n - 2) + 1))
            full = rng.random() < 0.4
            if full:
                kr, kc = m, n
            elif m == n and rng.random() < 0.7:
                kr = kc = int(rng.integers(max(dr, dc) + 1, m + 1))
            else:
                kr, kc = int(rng.integers(dr + 1, m + 1)), int(rng.integers(dc + 1, n + 1))
            lamr, lamc = float(10.0 ** int(rng.integers(-1, 4))), float(10.0 ** int(rng.integers(-1, 4)))
            x, z, Y = M.make_data2d(rng, m, n)
            W = np.round(rng.uniform(0.05, 1, (m, n)) * 64) / 64
            meta = {'kind': 'solve', 'shape': [m, n], 'd': [dr, dc], 'eig': [kr, kc], 'lam': [lamr, lamc], 'Y': Y.tolist(), 'W': W.tolist()}
            try:
                with np.errstate(all='ignore'):
                    sys_e = wu.WhittakerSystem2D((m, n), (lamr, lamc), (dr, dc), (kr, kc))
                    v = sys_e.solve(Y, W)
                    sys_d = wu.WhittakerSystem2D((m, n), (lamr, lamc), (dr, dc), None)
                    vd = sys_d.solve(Y.ravel(), W.ravel()).reshape(m, n)
            except Exception as ex:
                ctx.count('solve-raised:' + type(ex).__name__)
                continue
            ctx.case(('solve', m, n, dr, dc, kr, kc, lamr, lamc), nontrivial=(dr != dc or kr < m or kc < n),
                     sample={'shape': [m, n], 'diff_order': [dr, dc], 'num_eigens': [kr, kc], 'lam': [lamr, lamc]} if len(ctx.samples) < 6 else None)
            ctx.count('eigens:' + ('full' if (kr, kc) == (m, n) else 'truncated'))
            ctx.count('grid:' + ('square' if m == n else 'rect'))
            # eigen hypotheses measured on the real bases
            for axis, (U, nn, dd) in enumerate(((sys_e.basis_r, m, dr), (sys_e.basis_c, n, dc))):
                P = dtd(nn, dd)
                orth = float(np.max(np.abs(U.T @ U - np.eye(U.shape[1]))))
                lam_est = np.diag(U.T @ P @ U)
                eigres = float(np.max(np.abs(P @ U - U * lam_est)) / max(1.0, np.max(np.abs(lam_est))))
                ctx.hist['eig_orth_max_x1e16'] = max(ctx.hist.get('eig_orth_max_x1e16', 0), int(orth * 1e16))
                if orth > 1e-8 or eigres > 1e-7:
                    dis.append(Disagreement('c20.eigen', f'eigen:axis{axis}', f'the {"row" if axis == 0 else "column"} basis of WhittakerSystem2D({(m, n)}, d={(dr, dc)}, '
                                            f'eig={(kr, kc)}) is not an orthonormal set of eigenvectors of D\'D for ITS difference order '
                                            f'(orthonormality {orth:.2g}, eigen-residual {eigres:.2g})', meta, True))
            span_err, gal = galerkin_check(Y, W, v, dr, dc, lamr, lamc, kr, kc)
            ctx.hist['galerkin_max_x1e12'] = max(ctx.hist.get('galerkin_max_x1e12', 0), int(gal * 1e12))
            if span_err > 1e-8 or gal > 1e-8:
                dis.append(Disagreement('c20.galerkin', 'galerkin', f'WhittakerSystem2D({(m, n)}, d={(dr, dc)}, num_eigens={(kr, kc)}, lam={(lamr, lamc)}): the solution is not '
                                        f'the Galerkin solution of the documented system in the eigenbasis (distance from span {span_err:.2g}, Galerkin residual {gal:.2g})',
                                        meta, True))
            if (kr, kc) == (m, n):
                sc = max(1.0, float(np.max(np.abs(vd))))
                if not np.allclose(v, vd, rtol=0, atol=1e-7 * sc):
                    dis.append(Disagreement('c20.full', 'full-vs-direct', f'WhittakerSystem2D({(m, n)}, d={(dr, dc)}) with all eigenvectors differs from the direct '
                                            f'Kronecker solve by {float(np.max(np.abs(v - vd))):.3g}', meta, True))
    # long grids: the smallest non-zero eigenvalues of D'D are tiny (1e-9 and below) and must still be penalised
    for (m, n, dl) in [(160, 7, 3), (7, 150, 3), (100, 6, 4), (6, 90, 4)] + ([(500, 5, 2), (240, 8, 3)] if ctx.thorough else []):
        long_rows = m > n
        dr, dc = (dl, int(rng.integers(1, 3))) if long_rows else (int(rng.integers(1, 3)), dl)
        kr, kc = (int(rng.integers(dl + 6, 30)), n) if long_rows else (m, int(rng.integers(dl + 6, 30)))
        lamr, lamc = (float(10.0 ** int(rng.integers(6, 9))), 10.0) if long_rows else (10.0, float(10.0 ** int(rng.integers(6, 9))))
        x, z, Y = M.make_data2d(rng, m, n)
        W = np.round(rng.uniform(0.05, 1, (m, n)) * 64) / 64
        meta = {'kind': 'solve', 'shape': [m, n], 'd': [dr, dc], 'eig': [kr, kc], 'lam': [lamr, lamc], 'Y': Y.tolist(), 'W': W.tolist()}
        try:
            with np.errstate(all='ignore'):
                v = wu.WhittakerSystem2D((m, n), (lamr, lamc), (dr, dc), (kr, kc)).solve(Y, W)
        except Exception as ex:
            ctx.count('solve-raised:' + type(ex).__name__)
            continue
        ctx.case(('solve-long', m, n, dr, dc, kr, kc, lamr, lamc), nontrivial=True)
        ctx.count('grid:long')
        span_err, gal = galerkin_check(Y, W, v, dr, dc, lamr, lamc, kr, kc)
        ctx.hist['galerkin_long_max_x1e12'] = max(ctx.hist.get('galerkin_long_max_x1e12', 0), int(gal * 1e12))
        tol_l = galerkin_tol(v, dr, dc, lamr, lamc, Y, W)
        ctx.hist['galerkin_long_ratio_x1000'] = max(ctx.hist.get('galerkin_long_ratio_x1000', 0), int(1000 * gal / tol_l))
        if span_err > 1e-7 or gal > tol_l:
            dis.append(Disagreement('c20.galerkin', 'galerkin:long', f'WhittakerSystem2D({(m, n)}, d={(dr, dc)}, num_eigens={(kr, kc)}, lam={(lamr, lamc)}): the solution is not '
                                    f'the Galerkin solution of the documented system in the eigenbasis (distance from span {span_err:.2g}, Galerkin residual {gal:.2g})',
                                    meta, True))
    # hosts through the public API: full eigens vs direct
    for host in ('asls', 'arpls', 'airpls'):
        m, n = (8, 8) if rng.random() < 0.5 else (9, 7)
        x, z, Y = M.make_data2d(rng, m, n)
        dr, dc = 1, 2
        try:
            with np.errstate(all='ignore'):
                b1 = getattr(Baseline2D(x, z), host)(Y, lam=(10, 100), diff_order=(dr, dc), num_eigens=(m, n), max_iter=3, tol=0)[0]
                b2 = getattr(Baseline2D(x, z), host)(Y, lam=(10, 100), diff_order=(dr, dc), num_eigens=None, max_iter=3, tol=0)[0]
        except Exception as ex:
            ctx.count('host-raised:' + type(ex).__name__)
            continue
        ctx.case(('host', host, m, n), nontrivial=True)
        if not np.allclose(b1, b2, rtol=0, atol=1e-6 * max(1.0, float(np.max(np.abs(b2))))):
            dis.append(Disagreement('c20.full', f'host:{host}', f'2-D {host} with all eigenvectors differs from the direct solution by {float(np.max(np.abs(b1 - b2))):.3g} '
                                    f'(shape {(m, n)}, diff_order {(dr, dc)})', {'kind': 'host', 'host': host, 'shape': [m, n]}, True))
    # ---- (c) individual_axes = the 1-D method along the requested axes in order
    for axes in ((0, 1), (1, 0), 0, 1):
        for order in ('sorted', 'unsorted', 'uneven'):
            m, n = 9, 7
            x, z, Y = M.make_data2d(rng, m, n)
            if order == 'uneven':
                x, z = np.cumsum(rng.uniform(0.5, 3, m)), np.cumsum(rng.uniform(0.5, 3, n))
            if order == 'unsorted':
                px, pz = rng.permutation(m), rng.permutation(n)
                x, z, Y = x[px], z[pz], Y[px][:, pz]
            mk = [{'lam': 1e2}, {'lam': 1e3, 'p': 0.05}]
            try:
                with np.errstate(all='ignore'):
                    b, p = Baseline2D(x, z).individual_axes(Y, axes=axes, method='asls', method_kwargs=mk if not np.isscalar(axes) else mk[0])
            except Exception as ex:
                dis.append(Disagreement('c20.axes', 'individual_axes:raises', f'individual_axes(axes={axes}) raised {type(ex).__name__}: {ex}', {'kind': 'axes'}, True))
                continue
            want = np.zeros_like(Y)
            for i, ax in enumerate([axes] if np.isscalar(axes) else axes):
                kw = mk[i] if not np.isscalar(axes) else mk[0]
                cur = Y - want
                part = np.zeros_like(Y)
                if ax == 0:       # along the rows axis: one fit per column, coordinates x
                    for j in range(n):
                        part[:, j] = Baseline(x).asls(cur[:, j], **kw)[0]
                else:
                    for i2 in range(m):
                        part[i2, :] = Baseline(z).asls(cur[i2, :], **kw)[0]
                want = want + part
            ctx.case(('axes', str(axes), order), nontrivial=True)
            ctx.count('individual_axes:' + order)
            if not np.allclose(b, want, rtol=1e-9, atol=1e-9 * max(1.0, float(np.max(np.abs(want))))):
                dis.append(Disagreement('c20.axes', f'individual_axes:{order}', f'individual_axes(axes={axes}, x/z {order}) differs from applying the 1-D method along '
                                        f'the axes in order by {float(np.max(np.abs(b - want))):.3g}', {'kind': 'axes', 'axes': str(axes), 'order': order}, True))
    res = drive(lines)
    ctx.traces += len(lines)
    for ln, r, (kind, real, shape) in zip(lines, res, metas):
        pred = parse_mat(r) if kind in ('btwb', 'recon') else np.array([float(v) for v in parse_qs(r)])
        if np.shape(pred) != np.shape(real) or not np.array_equal(pred, np.asarray(real)):
            dis.append(Disagreement('c20.model', f'model:{kind}', f'{kind} of the real array algebra differs from the Lean model for shapes {shape}',
                                    {'kind': kind, 'shape': list(shape)}, False))
    return dis


def search(ctx, hints, lean_failed):
    sub = type(ctx)(ctx.prop, 'thorough', ctx.seed + 1)
    return [d for d in correspond(sub) if d.property_level]


def replay(ctx, data):
    from pybaselines.two_d import _whittaker_utils as wu
    r = data['replay']
    if r.get('kind') != 'solve':
        return None
    try:
        m, n = r['shape']
        Y, W = np.array(r['Y']), np.array(r['W'])
        dr, dc = r['d']
        kr, kc = r['eig']
        lamr, lamc = r['lam']
        v = wu.WhittakerSystem2D((m, n), (lamr, lamc), (dr, dc), (kr, kc)).solve(Y, W)
        span_err, gal = galerkin_check(Y, W, v, dr, dc, lamr, lamc, kr, kc)
        if span_err > 1e-8 or gal > 1e-8:
            return f'not the Galerkin solution (span {span_err:.2g}, residual {gal:.2g})'
    except Exception as e:
        return f'{type(e).__name__}: {e}'
    return None
