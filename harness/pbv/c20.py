"""C20 — 2-D eigendecomposition and array algebra agree with the full 2-D system."""
import glob
import json
import os

import numpy as np

from . import methods as M
from .common import Disagreement, drive, q, qs, parse_qs, ROOT

EPS = float(np.finfo(float).eps)

PROP_MODULE = 'PbVerif.Props.C20'
RULE = ('cases = (grid shape incl. M = N and sides down to diff_order+2, diff_order per axis, num_eigens from diff_order+1 to full per axis, '
        'lam per axis, weight matrices, hosts): _make_btwb / rhs / reconstruction / eigen-penalty of WhittakerSystem2D and PSpline2D vs the '
        'Lean array-algebra model (exact rationals on small integer bases); full eigenbasis vs direct Kronecker solve; truncated basis vs '
        'the Galerkin equations in an independently computed eigenbasis; individual_axes: the Lean plan (axis, coordinate vector, kwargs pairing, order of '
        'the 1-D fits) executed with direct calls of the real 1-D method (x-dependent and x-independent methods, square and rectangular grids, x and/or z '
        'unsorted, every form of method_kwargs, rejected inputs) and the Lean semantics of the plan with Baseline(c).mor as the 1-D method compared exactly; non-trivial = differing '
        'settings per axis or truncated basis; distinct by canonical tuple')
ASSUMPTIONS = [
    'LAPACK eig_banded / eigh_tridiagonal: orthonormality and the eigen-equation of the returned vectors are measured on every case, not proved',
    'the Galerkin certificate uses eigenvectors from an independent dense np.linalg.eigh of D\'D per axis; residuals are compared with 1e-8 relative tolerance',
]


def mat(a):
    return ';'.join(qs(r) for r in np.atleast_2d(a))


def parse_mat(s):
    return np.array([[float(v) for v in parse_qs(row)] for row in s.split(';')])


def dtd(n, d):
    D = np.diff(np.eye(n), d, axis=0)
    return D.T @ D


def galerkin_check(Y, W, v, dr, dc, lamr, lamc, kr, kc):
    """(distance of v from span(B), relative Galerkin residual) with B = U_r[:, :kr] ⊗ U_c[:, :kc] from dense eigh"""
    m, n = Y.shape
    Pr, Pc = dtd(m, dr), dtd(n, dc)
    er, Ur = np.linalg.eigh(Pr)
    ec, Uc = np.linalg.eigh(Pc)
    Ur, Uc = Ur[:, :kr], Uc[:, :kc]
    C = Ur.T @ v @ Uc                      # coefficients of the projection
    proj = Ur @ C @ Uc.T
    span_err = float(np.max(np.abs(v - proj)) / max(1.0, np.max(np.abs(v))))
    resid_full = W * (Y - v) - lamr * (Pr @ v) - lamc * (v @ Pc)
    g = Ur.T @ resid_full @ Uc
    scale = float(np.max(np.abs(Ur.T @ (W * Y) @ Uc)) + lamr * np.max(np.abs(Ur.T @ Pr @ v @ Uc)) + lamc * np.max(np.abs(Ur.T @ v @ Pc @ Uc)) + 1e-300)
    return span_err, float(np.max(np.abs(g)) / scale)


def galerkin_tol(v, dr, dc, lamr, lamc, Y, W):
    """rounding budget of the Galerkin residual: the eigenvalues of D'D (norm 4^d) are known to about eps * 4^d, and they are
    multiplied by lam"""
    eps = np.finfo(float).eps
    scale = float(np.max(np.abs(W * Y))) + 1e-300
    return 1e-8 + 200 * eps * (lamr * 4.0 ** dr + lamc * 4.0 ** dc) * float(np.max(np.abs(v))) / scale


def dof_problem(host, x, z, Y, lam, d, eig, kw):
    """(status, message): runs the 2-D host with `return_dof=True`; the reported degrees of freedom must be the diagonal of
    (B'WB + P)^-1 B'WB for B = kron of the system's own retained eigenvectors, P its penalty and W the RETURNED weights"""
    from pybaselines import Baseline2D
    from pybaselines.two_d import _whittaker_utils as wu
    seen = []
    orig = wu.WhittakerSystem2D._calc_dof

    def rec(obj, weights, *a, __orig=orig, **k):
        out = __orig(obj, weights, *a, **k)
        seen.append((np.array(obj.basis_r, copy=True), np.array(obj.basis_c, copy=True), np.array(obj.penalty, copy=True)))
        return out
    wu.WhittakerSystem2D._calc_dof = rec
    try:
        with np.errstate(all='ignore'):
            bb, pp = getattr(Baseline2D(x, z), host)(Y, lam=tuple(lam), diff_order=tuple(d), num_eigens=tuple(eig), return_dof=True, **kw)
    except Exception as ex:      # noqa: BLE001
        return 'raised:' + type(ex).__name__, None
    finally:
        wu.WhittakerSystem2D._calc_dof = orig
    if 'dof' not in pp or not seen or not np.all(np.isfinite(pp['weights'])):
        return 'absent', None
    Ur, Uc, pen = seen[-1]
    B = np.kron(Ur, Uc)
    Wret = np.asarray(pp['weights'], dtype=float).reshape(-1)
    btwb = B.T @ (Wret[:, None] * B)
    lhs = btwb + np.diag(np.asarray(pen, dtype=float).reshape(-1))
    try:
        want = np.linalg.solve(lhs, btwb).diagonal().reshape(np.shape(pp['dof']))
        cond = float(np.linalg.cond(lhs))
    except np.linalg.LinAlgError:
        return 'singular', None
    if cond >= 1e10:
        return 'ill-conditioned', None
    tol_d = max(1e-9, 1e3 * EPS * cond)
    got = np.asarray(pp['dof'], dtype=float)
    if not np.allclose(got, want, rtol=tol_d, atol=tol_d):
        return 'ok', (f"the reported degrees of freedom are not diag((B'WB + P)^-1 B'WB) for the returned weights "
                      f'(max diff {float(np.max(np.abs(got - want))):.3g}, allowed {tol_d:.2g})')
    return 'ok', None


def weight_pattern(rng, shape, k, integer=False):
    """weights of a given PATTERN (stratified by k, not drawn at random): generic, constant != 1, all ones, a 0/1 mask, generic with a
    few zeros — degenerate patterns take shortcuts in array algebra"""
    kind = ['generic', 'constant', 'generic', 'ones', 'mask', 'zeros-in-generic'][k % 6]
    if kind == 'generic':
        W = rng.integers(1, 5, shape).astype(float) if integer else np.round(rng.uniform(0.05, 1, shape) * 64) / 64
    elif kind == 'constant':
        W = np.full(shape, float([3, 2, 5][k % 3]) if integer else [0.25, 2.0, 0.5][k % 3])
    elif kind == 'ones':
        W = np.ones(shape)
    elif kind == 'mask':
        W = (rng.random(shape) < 0.7).astype(float)
    else:
        W = rng.integers(0, 5, shape).astype(float) if integer else np.round(rng.uniform(0.05, 1, shape) * 64) / 64 * (rng.random(shape) < 0.85)
    return W, kind


def correspond(ctx):
    from pybaselines import Baseline, Baseline2D
    from pybaselines.two_d import _whittaker_utils as wu, _spline_utils as su2
    rng = ctx.np_rng()
    dis = []
    for f in sorted(glob.glob(os.path.join(ROOT, 'corpus', 'C20_*.json'))):
        d = json.load(open(f))
        r = replay(ctx, d)
        ctx.case(('corpus', os.path.basename(f)))
        if r:
            dis.append(Disagreement('c20.corpus', d['signature'], f'corpus {os.path.basename(f)}: {r}', d['replay'], True))
    lines, metas = [], []
    # ---- (a) array algebra of the real objects vs the Lean model on small integer-valued bases
    for it in range(12 if ctx.thorough else 6):
        m, n, a, b = int(rng.integers(2, 6)), int(rng.integers(2, 6)), int(rng.integers(1, 4)), int(rng.integers(1, 4))
        Br = rng.integers(-3, 4, (m, a)).astype(float)
        Bc = rng.integers(-3, 4, (n, b)).astype(float)
        W, wkind = weight_pattern(rng, (m, n), it + ctx.seed, integer=True)
        ctx.count('weights-pattern:' + wkind)
        Y = rng.integers(-5, 6, (m, n)).astype(float)
        coef = rng.integers(-4, 5, a * b).astype(float)
        obj = wu.WhittakerSystem2D.__new__(wu.WhittakerSystem2D)
        obj._num_bases = np.array([a, b])
        obj.basis_r, obj.basis_c = Br, Bc
        obj._G_r, obj._G_c = su2._face_splitting(Br), su2._face_splitting(Bc)
        F = np.asarray(obj._make_btwb(W))
        rhs = (Br.T @ (W * Y) @ Bc).ravel()
        rec = Br @ coef.reshape(a, b) @ Bc.T
        lines += [f'c20.btwb {mat(Br)} {mat(Bc)} {mat(W)}', f'c20.rhs {mat(Br)} {mat(Bc)} {mat(W * Y)}', f'c20.recon {mat(Br)} {mat(Bc)} {qs(coef)}']
        metas += [('btwb', F, (m, n, a, b)), ('rhs', rhs, (m, n, a, b)), ('recon', rec, (m, n, a, b))]
        K = np.kron(Br, Bc)
        if not np.allclose(F, K.T @ (W.ravel()[:, None] * K)):
            dis.append(Disagreement('c20.btwb', 'btwb:whittaker', f'WhittakerSystem2D._make_btwb differs from (B_r ⊗ B_c)\' diag(vec W) (B_r ⊗ B_c) for shapes {(m, n, a, b)}',
                                    {'kind': 'btwb', 'shape': [m, n, a, b]}, True))
        ctx.case(('btwb', m, n, a, b), nontrivial=True, sample={'check': '_make_btwb', 'data': [m, n], 'bases': [a, b]} if len(ctx.samples) < 2 else None)
        er = rng.integers(0, 6, a).astype(float)
        ec = rng.integers(0, 6, b).astype(float)
        lr, lc = float(rng.integers(1, 9)), float(rng.integers(1, 9))
        lines.append(f'c20.pen {q(lr)} {q(lc)} {qs(er)} {qs(ec)}')
        metas.append(('pen', np.repeat(lr * er, b) + np.tile(lc * ec, a), (a, b)))
    # PSpline2D basis algebra
    for it in range(12 if ctx.thorough else 6):
        m, n = int(rng.integers(6, 12)), int(rng.integers(6, 12))
        x, z = np.sort(rng.uniform(0, 1, m)), np.sort(rng.uniform(0, 1, n))
        nk, deg = (int(rng.integers(3, 6)), int(rng.integers(3, 6))), (int(rng.integers(1, 4)), int(rng.integers(1, 4)))
        basis = su2.SplineBasis2D(x, z, nk, deg)
        W, wkind = weight_pattern(rng, (m, n), it + ctx.seed)
        ctx.count('weights-pattern:' + wkind)
        F = basis._make_btwb(W)
        F = F.toarray() if hasattr(F, 'toarray') else np.asarray(F)
        K = np.kron(basis.basis_r.toarray(), basis.basis_c.toarray())
        ctx.case(('btwb-spline', m, n, nk, deg), nontrivial=True)
        if not np.allclose(F, K.T @ (W.ravel()[:, None] * K), rtol=1e-10, atol=1e-12):
            dis.append(Disagreement('c20.btwb', 'btwb:pspline', f'SplineBasis2D._make_btwb differs from the Kronecker normal matrix (knots {nk}, degree {deg})',
                                    {'kind': 'btwb-spline', 'nk': list(nk), 'deg': list(deg)}, True))
    # ---- (b) WhittakerSystem2D.solve: eigen hypotheses, full vs direct, truncated vs Galerkin
    shapes = [(7, 7), (9, 6), (6, 9), (12, 12), (5, 8), (10, 10)] + ([(20, 15), (16, 16)] if ctx.thorough else [])
    wk = ctx.seed
    for (m, n) in shapes:
        for _ in range(3 if ctx.thorough else 2):
            wk += 1
            dr, dc = int(rng.integers(1, min(4, m - 2) + 1)), int(rng.integers(1, min(4, n - 2) + 1))
            if m == n and rng.random() < 0.7:
                while dc == dr:
                    dc = int(rng.integers(1, min(4, n - 2) + 1))
            full = rng.random() < 0.4
            if full:
                kr, kc = m, n
            elif m == n and rng.random() < 0.7:
                kr = kc = int(rng.integers(max(dr, dc) + 1, m + 1))
            else:
                kr, kc = int(rng.integers(dr + 1, m + 1)), int(rng.integers(dc + 1, n + 1))
            lamr, lamc = float(10.0 ** int(rng.integers(-1, 4))), float(10.0 ** int(rng.integers(-1, 4)))
            x, z, Y = M.make_data2d(rng, m, n)
            W, wkind = weight_pattern(rng, (m, n), wk)
            if wkind in ('mask', 'zeros-in-generic'):      # the solve needs a positive definite system
                W = np.maximum(W, 1.0 / 64)
            ctx.count('weights-pattern:' + wkind)
            meta = {'kind': 'solve', 'shape': [m, n], 'd': [dr, dc], 'eig': [kr, kc], 'lam': [lamr, lamc], 'Y': Y.tolist(), 'W': W.tolist()}
            try:
                with np.errstate(all='ignore'):
                    sys_e = wu.WhittakerSystem2D((m, n), (lamr, lamc), (dr, dc), (kr, kc))
                    v = sys_e.solve(Y, W)
                    sys_d = wu.WhittakerSystem2D((m, n), (lamr, lamc), (dr, dc), None)
                    vd = sys_d.solve(Y.ravel(), W.ravel()).reshape(m, n)
            except Exception as ex:
                ctx.count('solve-raised:' + type(ex).__name__)
                continue
            ctx.case(('solve', m, n, dr, dc, kr, kc, lamr, lamc), nontrivial=(dr != dc or kr < m or kc < n),
                     sample={'shape': [m, n], 'diff_order': [dr, dc], 'num_eigens': [kr, kc], 'lam': [lamr, lamc]} if len(ctx.samples) < 6 else None)
            ctx.count('eigens:' + ('full' if (kr, kc) == (m, n) else 'truncated'))
            ctx.count('grid:' + ('square' if m == n else 'rect'))
            # eigen hypotheses measured on the real bases
            for axis, (U, nn, dd) in enumerate(((sys_e.basis_r, m, dr), (sys_e.basis_c, n, dc))):
                P = dtd(nn, dd)
                orth = float(np.max(np.abs(U.T @ U - np.eye(U.shape[1]))))
                lam_est = np.diag(U.T @ P @ U)
                eigres = float(np.max(np.abs(P @ U - U * lam_est)) / max(1.0, np.max(np.abs(lam_est))))
                ctx.hist['eig_orth_max_x1e16'] = max(ctx.hist.get('eig_orth_max_x1e16', 0), int(orth * 1e16))
                if orth > 1e-8 or eigres > 1e-7:
                    dis.append(Disagreement('c20.eigen', f'eigen:axis{axis}', f'the {"row" if axis == 0 else "column"} basis of WhittakerSystem2D({(m, n)}, d={(dr, dc)}, '
                                            f'eig={(kr, kc)}) is not an orthonormal set of eigenvectors of D\'D for ITS difference order '
                                            f'(orthonormality {orth:.2g}, eigen-residual {eigres:.2g})', meta, True))
            span_err, gal = galerkin_check(Y, W, v, dr, dc, lamr, lamc, kr, kc)
            ctx.hist['galerkin_max_x1e12'] = max(ctx.hist.get('galerkin_max_x1e12', 0), int(gal * 1e12))
            if span_err > 1e-8 or gal > 1e-8:
                dis.append(Disagreement('c20.galerkin', 'galerkin', f'WhittakerSystem2D({(m, n)}, d={(dr, dc)}, num_eigens={(kr, kc)}, lam={(lamr, lamc)}): the solution is not '
                                        f'the Galerkin solution of the documented system in the eigenbasis (distance from span {span_err:.2g}, Galerkin residual {gal:.2g})',
                                        meta, True))
            if (kr, kc) == (m, n):
                sc = max(1.0, float(np.max(np.abs(vd))))
                if not np.allclose(v, vd, rtol=0, atol=1e-7 * sc):
                    dis.append(Disagreement('c20.full', 'full-vs-direct', f'WhittakerSystem2D({(m, n)}, d={(dr, dc)}) with all eigenvectors differs from the direct '
                                            f'Kronecker solve by {float(np.max(np.abs(v - vd))):.3g}', meta, True))
    # long grids: the smallest non-zero eigenvalues of D'D are tiny (1e-9 and below) and must still be penalised
    for (m, n, dl) in [(160, 7, 3), (7, 150, 3), (100, 6, 4), (6, 90, 4)] + ([(500, 5, 2), (240, 8, 3)] if ctx.thorough else []):
        long_rows = m > n
        dr, dc = (dl, int(rng.integers(1, 3))) if long_rows else (int(rng.integers(1, 3)), dl)
        kr, kc = (int(rng.integers(dl + 6, 30)), n) if long_rows else (m, int(rng.integers(dl + 6, 30)))
        lamr, lamc = (float(10.0 ** int(rng.integers(6, 9))), 10.0) if long_rows else (10.0, float(10.0 ** int(rng.integers(6, 9))))
        x, z, Y = M.make_data2d(rng, m, n)
        W = np.round(rng.uniform(0.05, 1, (m, n)) * 64) / 64
        meta = {'kind': 'solve', 'shape': [m, n], 'd': [dr, dc], 'eig': [kr, kc], 'lam': [lamr, lamc], 'Y': Y.tolist(), 'W': W.tolist()}
        try:
            with np.errstate(all='ignore'):
                v = wu.WhittakerSystem2D((m, n), (lamr, lamc), (dr, dc), (kr, kc)).solve(Y, W)
        except Exception as ex:
            ctx.count('solve-raised:' + type(ex).__name__)
            continue
        ctx.case(('solve-long', m, n, dr, dc, kr, kc, lamr, lamc), nontrivial=True)
        ctx.count('grid:long')
        span_err, gal = galerkin_check(Y, W, v, dr, dc, lamr, lamc, kr, kc)
        ctx.hist['galerkin_long_max_x1e12'] = max(ctx.hist.get('galerkin_long_max_x1e12', 0), int(gal * 1e12))
        tol_l = galerkin_tol(v, dr, dc, lamr, lamc, Y, W)
        ctx.hist['galerkin_long_ratio_x1000'] = max(ctx.hist.get('galerkin_long_ratio_x1000', 0), int(1000 * gal / tol_l))
        if span_err > 1e-7 or gal > tol_l:
            dis.append(Disagreement('c20.galerkin', 'galerkin:long', f'WhittakerSystem2D({(m, n)}, d={(dr, dc)}, num_eigens={(kr, kc)}, lam={(lamr, lamc)}): the solution is not '
                                    f'the Galerkin solution of the documented system in the eigenbasis (distance from span {span_err:.2g}, Galerkin residual {gal:.2g})',
                                    meta, True))
    # hosts through the public API: full eigens vs direct
    for host in ('asls', 'arpls', 'airpls'):
        m, n = (8, 8) if rng.random() < 0.5 else (9, 7)
        x, z, Y = M.make_data2d(rng, m, n)
        dr, dc = 1, 2
        try:
            with np.errstate(all='ignore'):
                b1 = getattr(Baseline2D(x, z), host)(Y, lam=(10, 100), diff_order=(dr, dc), num_eigens=(m, n), max_iter=3, tol=0)[0]
                b2 = getattr(Baseline2D(x, z), host)(Y, lam=(10, 100), diff_order=(dr, dc), num_eigens=None, max_iter=3, tol=0)[0]
        except Exception as ex:
            ctx.count('host-raised:' + type(ex).__name__)
            continue
        ctx.case(('host', host, m, n), nontrivial=True)
        if not np.allclose(b1, b2, rtol=0, atol=1e-6 * max(1.0, float(np.max(np.abs(b2))))):
            dis.append(Disagreement('c20.full', f'host:{host}', f'2-D {host} with all eigenvectors differs from the direct solution by {float(np.max(np.abs(b1 - b2))):.3g} '
                                    f'(shape {(m, n)}, diff_order {(dr, dc)})', {'kind': 'host', 'host': host, 'shape': [m, n]}, True))
    # ---- (b2) the effective degrees of freedom reported in the eigenbasis (`return_dof=True`) are the diagonal of
    # (B'WB + P)^-1 B'WB for B = the Kronecker product of the retained eigenvectors and W = the RETURNED weights (recomputed
    # densely from the system object's own eigenvectors, so that the arbitrary basis of the penalty's null space does not matter)
    reg2 = M.registry(True)
    dof_hosts = [nm for nm, e in sorted(reg2.items()) if 'return_dof' in e['params'] and 'num_eigens' in e['params']]
    for host in dof_hosts:
        for mode in ('exhausted', 'converged', 'first-solve'):
            if not ctx.thorough and rng.random() < 0.1:
                continue
            m, n = int(rng.integers(7, 12)), int(rng.integers(7, 12))
            dr, dc = int(rng.integers(1, 4)), int(rng.integers(1, 4))
            kr, kc = int(rng.integers(dr + 1, m + 1)), int(rng.integers(dc + 1, n + 1))
            x, z, Y = M.make_data2d(rng, m, n)
            kw = {'exhausted': dict(max_iter=2, tol=0.0), 'converged': dict(max_iter=80, tol=1e-2), 'first-solve': dict(tol=np.inf)}[mode]
            if 'tol_2' in reg2[host]['params']:
                kw['tol_2'] = kw['tol']
            lam = (float(10.0 ** int(rng.integers(0, 4))), float(10.0 ** int(rng.integers(0, 4))))
            st, msg = dof_problem(host, x, z, Y, lam, (dr, dc), (kr, kc), kw)
            if st != 'ok':
                ctx.count('dof-' + st)
                continue
            ctx.case(('dof', host, mode, m, n, dr, dc, kr, kc), nontrivial=True)
            ctx.count('dof:' + mode)
            if msg:
                dis.append(Disagreement('c20.dof', f'dof:{host}', f'2-D {host} ({mode}, shape {(m, n)}, diff_order {(dr, dc)}, num_eigens {(kr, kc)}, lam {lam}): {msg}',
                                        {'kind': 'dof', 'host': host, 'mode': mode, 'shape': [m, n], 'd': [dr, dc], 'eig': [kr, kc], 'lam': list(lam),
                                         'x': x.tolist(), 'z': z.tolist(), 'data': Y.tolist(), 'kw': {k: (str(v) if not np.isfinite(v) else v) for k, v in kw.items()}}, True))
    # ---- (c) individual_axes = the 1-D method along the requested axes in order: the Lean planner (Model/Axes.lean) says which 1-D
    # fits are made (axis, coordinate vector, keyword arguments, order); the plan is executed with direct calls of the real 1-D method
    # and compared with the real individual_axes; the Lean semantics of the plan (oracle: Baseline(c).mor) is compared exactly
    cases = axes_cases(ctx, rng)
    plans = drive([c['line'] for c in cases])
    ctx.traces += len(cases)
    for c, r in zip(cases, plans):
        axes_check(ctx, c, r, dis, lines, metas)
    res = drive(lines)
    ctx.traces += len(lines)
    for ln, r, (kind, real, shape) in zip(lines, res, metas):
        if kind == 'axesrun':
            msg = axesrun_compare(r, real)
            if msg:
                dis.append(Disagreement('c20.model', 'model:axesrun', f'individual_axes(method=mor, {shape}): {msg}', {'kind': 'axesrun', 'case': shape}, False))
            continue
        pred = parse_mat(r) if kind in ('btwb', 'recon') else np.array([float(v) for v in parse_qs(r)])
        if np.shape(pred) != np.shape(real) or not np.array_equal(pred, np.asarray(real)):
            dis.append(Disagreement('c20.model', f'model:{kind}', f'{kind} of the real array algebra differs from the Lean model for shapes {shape}',
                                    {'kind': kind, 'shape': list(shape)}, False))
    return dis


# ---------------------------------------------------------------------------------------------------------------- individual_axes
AXES_KW = {'asls': ({'lam': 1e2}, {'lam': 1e3, 'p': 0.05}), 'modpoly': ({'poly_order': 1}, {'poly_order': 2, 'max_iter': 5}),
           'pspline_asls': ({'num_knots': 5, 'lam': 1.0}, {'num_knots': 6, 'lam': 10.0}), 'mor': ({'half_window': 2}, {'half_window': 3}),
           'loess': ({'fraction': 0.7, 'poly_order': 1}, {'fraction': 0.8, 'poly_order': 1, 'max_iter': 3})}
KW_FORMS = ['none', 'dict:A', 'dict:B', 'seq:', 'seq:A', 'seq:B', 'seq:A,B', 'seq:B,A', 'seq:A,B,A']


def axes_kwarg(form, kwmap):
    if form == 'none':
        return None
    if form.startswith('dict:'):
        return kwmap[form[5:]]
    return [kwmap[t] for t in form[4:].split(',') if t]


def axes_cases(ctx, rng):
    cases = []
    axes_all = [(0, 1), (1, 0), 0, 1]
    orders = ['sorted', 'unsorted-x', 'unsorted-z', 'unsorted', 'uneven']
    count = 90 if ctx.thorough else 36
    for t in range(count):
        axes = axes_all[t % 4]
        order = orders[(t // 4) % 5]
        method = ['asls', 'modpoly', 'pspline_asls', 'mor', 'loess'][int(rng.integers(0, 5))] if t >= 5 else ['asls', 'modpoly', 'pspline_asls', 'mor', 'loess'][t]
        m, n = [(9, 7), (8, 8), (7, 10), (9, 9)][int(rng.integers(0, 4))]
        x, z, Y = M.make_data2d(rng, m, n)
        if order == 'uneven' or rng.random() < 0.3:
            x, z = np.cumsum(rng.uniform(0.5, 3, m)), np.cumsum(rng.uniform(0.5, 3, n))
        if order in ('unsorted', 'unsorted-x'):
            px = rng.permutation(m)
            x, Y = x[px], Y[px]
        if order in ('unsorted', 'unsorted-z'):
            pz = rng.permutation(n)
            z, Y = z[pz], Y[:, pz]
        two = not np.isscalar(axes)
        forms = ['seq:A,B', 'seq:B,A', 'dict:A', 'seq:B', 'none', 'seq:'] if two else ['dict:A', 'seq:B', 'dict:B', 'none', 'seq:']
        form = forms[int(rng.integers(0, len(forms)))]
        if method in ('pspline_asls', 'loess') and form in ('none', 'seq:'):
            form = 'dict:A'       # the defaults (100 knots, fraction 0.2) need more points than these grids have
        cases.append({'axes': axes, 'order': order, 'method': method, 'x': x, 'z': z, 'Y': Y, 'form': form})
    # what is rejected before any fit
    x, z, Y = M.make_data2d(rng, 6, 5)
    for axes, form in (((0, 0), 'dict:A'), ((1, 1), 'seq:A,B'), ((0, 1), 'seq:A,B,A'), (0, 'seq:A,B'), (1, 'seq:A,B,A'), ((1, 1), 'seq:A,B,A')):
        cases.append({'axes': axes, 'order': 'sorted', 'method': 'asls', 'x': x, 'z': z, 'Y': Y, 'form': form})
    for c in cases:
        ax = c['axes']
        c['axes_s'] = str(ax) if np.isscalar(ax) else ','.join(str(a) for a in ax)
        c['line'] = f'c20.axesplan {c["Y"].shape[0]} {c["Y"].shape[1]} {c["axes_s"]} {c["form"]}'
    # exact runs of the plan's Lean semantics: method mor on integer data, coordinates in any order (also square grids, where a
    # swapped coordinate vector would go unnoticed by the shapes)
    for t in range(24 if ctx.thorough else 10):
        m, n = [(6, 6), (5, 7), (7, 4), (5, 5)][t % 4]
        x = rng.permutation(m).astype(float) if t % 3 else np.arange(m, dtype=float)
        z = rng.permutation(n).astype(float) if (t // 2) % 3 else np.arange(n, dtype=float)
        Y = rng.integers(0, 40, (m, n)).astype(float)
        axes = axes_all[int(rng.integers(0, 4))]
        hw = [int(rng.integers(1, 3)), int(rng.integers(1, 3))]
        two = not np.isscalar(axes)
        form = (f'seq:{hw[0]},{hw[1]}' if rng.random() < 0.6 else f'dict:{hw[0]}') if two else (f'dict:{hw[0]}' if rng.random() < 0.5 else f'seq:{hw[1]}')
        if t == 7:
            axes, form = (1, 1), f'dict:{hw[0]}'
        if t == 8:
            axes, form = 0, f'seq:{hw[0]},{hw[1]}'
        cases.append({'run': True, 'axes': axes, 'x': x, 'z': z, 'Y': Y, 'form': form,
                      'axes_s': str(axes) if np.isscalar(axes) else ','.join(str(a) for a in axes), 'line': 'ping'})
    return cases


def exec_axes_plan(steps, x, z, Y, method, kwmap):
    """run the plan with direct calls of the real 1-D method: one fitter per step on the coordinate vector the plan names"""
    from collections import defaultdict
    from pybaselines import Baseline
    base = np.zeros(Y.shape)
    params = {}
    for axis, coord, label, key, fits in steps:
        fitter = Baseline(x if coord == 'x' else z)
        cur = Y - base
        outs, plist = [], defaultdict(list)
        for j in fits:
            b, p = getattr(fitter, method)(cur[:, j] if axis == 0 else cur[j, :], **kwmap[label])
            outs.append(b)
            for k, v in p.items():
                plist[k].append(v)
        part = np.stack(outs, axis=1 if axis == 0 else 0)
        base = base + part
        params['params_' + key] = plist
        params['baseline_' + key] = part
    return base, params


def axes_check(ctx, c, r, dis, lines, metas):
    from pybaselines import Baseline2D
    x, z, Y, axes = c['x'], c['z'], c['Y'], c['axes']
    if c.get('run'):
        kwd = {t: {'half_window': int(t)} for t in c['form'].split(':')[1].split(',')}
        try:
            with np.errstate(all='ignore'):
                real = Baseline2D(x, z).individual_axes(Y, axes=axes, method='mor', method_kwargs=axes_kwarg(c['form'], kwd))
        except Exception as ex:
            real = ex
        lines.append(f'c20.axesrun {c["axes_s"]} {c["form"]} {qs(x)} {qs(z)} {mat(Y)}')
        metas.append(('axesrun', real, f'axes={axes}, kwargs {c["form"]}, shape {Y.shape}, x {"sorted" if np.all(np.diff(x) > 0) else "unsorted"}, '
                      f'z {"sorted" if np.all(np.diff(z) > 0) else "unsorted"}'))
        ctx.case(('axesrun', c['axes_s'], c['form'], Y.shape, tuple(x), tuple(z)), nontrivial=True)
        ctx.count('individual_axes:exact-run')
        return
    method, form = c['method'], c['form']
    kwmap = {'A': AXES_KW[method][0], 'B': AXES_KW[method][1], '{}': {}}
    what = f'individual_axes(axes={axes}, method={method}, method_kwargs form {form}, shape {Y.shape}, x/z {c["order"]})'
    info = {'kind': 'axes', 'axes': c['axes_s'], 'order': c['order'], 'method': method, 'form': form, 'shape': list(Y.shape)}
    try:
        with np.errstate(all='ignore'):
            b, p = Baseline2D(x, z).individual_axes(Y, axes=axes, method=method, method_kwargs=axes_kwarg(form, kwmap))
        raised = None
    except Exception as ex:
        raised = ex
    ctx.case(('axes', c['axes_s'], c['order'], method, form, Y.shape), nontrivial=True,
             sample={'check': 'individual_axes', 'axes': c['axes_s'], 'method': method, 'method_kwargs': form, 'x/z': c['order']} if len(ctx.samples) < 6 else None)
    ctx.count('individual_axes:' + c['order'] + (':raises' if raised is not None else ''))
    parts = r.split('#')
    if parts[0] == 'error':
        if raised is None or type(raised).__name__ != parts[1]:
            dis.append(Disagreement('c20.model', 'model:axes:error', f'{what}: the Lean planner says {parts[1]} is raised before any fit, the real call '
                                    f'{"returned" if raised is None else "raised " + type(raised).__name__}', info, False))
        return
    steps = []
    for st in parts[1].split(';'):
        axis, coord, label, key, fits = st.split(':')
        steps.append((int(axis), coord, label, key, [int(t) for t in fits.split(',')]))
    try:
        with np.errstate(all='ignore'):
            want, wp = exec_axes_plan(steps, x, z, Y, method, kwmap)
        direct_err = None
    except Exception as ex:
        direct_err = ex
    if raised is not None or direct_err is not None:
        if raised is None or direct_err is None or type(raised) is not type(direct_err):
            dis.append(Disagreement('c20.axes', 'individual_axes:raises', f'{what}: the real call {"returned" if raised is None else "raised " + type(raised).__name__ + ": " + str(raised)[:80]}, '
                                    f'the planned 1-D fits {"returned" if direct_err is None else "raised " + type(direct_err).__name__ + ": " + str(direct_err)[:80]}', info, True))
        else:
            ctx.count('individual_axes:plan-and-real-both-raise:' + type(raised).__name__)
        return
    fails = []
    tol = 1e-9 * max(1.0, float(np.max(np.abs(want))))
    if np.shape(b) != Y.shape:
        fails.append(f'the baseline has shape {np.shape(b)}')
    elif not np.allclose(b, want, rtol=1e-9, atol=tol):
        fails.append(f'differs from applying the 1-D method along the axes in order by {float(np.max(np.abs(b - want))):.3g}')
    if list(p) != list(wp):
        fails.append(f'params has keys {list(p)}, the plan gives {list(wp)}')
    else:
        for key in wp:
            if key.startswith('baseline_'):
                if np.shape(p[key]) != Y.shape or not np.allclose(p[key], wp[key], rtol=1e-9, atol=tol):
                    fails.append(f'params[{key}] is not the partial baseline of that axis')
            else:
                if list(p[key]) != list(wp[key]) or any(len(p[key][k]) != len(wp[key][k]) for k in wp[key]):
                    fails.append(f'params[{key}] does not hold one entry per 1-D fit ({ {k: len(v) for k, v in p[key].items()} })')
                else:
                    for k in wp[key]:
                        if np.ndim(wp[key][k][0]) == 1 and not all(np.shape(u) == np.shape(v) and np.allclose(u, v, rtol=1e-9, atol=1e-12)
                                                                    for u, v in zip(p[key][k], wp[key][k])):
                            fails.append(f'params[{key}][{k}] is not in the order of the 1-D fits of the plan')
    for fl in fails:
        dis.append(Disagreement('c20.axes', f'individual_axes:{c["order"]}', f'{what}: {fl}', info, True))


def axesrun_compare(r, real):
    parts = r.split('#')
    if parts[0] == 'error':
        return None if isinstance(real, Exception) and type(real).__name__ == parts[1] else \
            f'the model says {parts[1]} is raised, the real call {"raised " + type(real).__name__ if isinstance(real, Exception) else "returned"}'
    if isinstance(real, Exception):
        return f'the real call raised {type(real).__name__}: {str(real)[:80]}, the model returns a baseline'
    b, p = real
    if not np.array_equal(parse_mat(parts[1]), b):
        return 'the baseline differs from the Lean semantics of the plan (exact comparison)'
    got = [(kv.split('=')[0], parse_mat(kv.split('=')[1])) for kv in parts[2].split('|')]
    keys = [k[len('baseline_'):] for k in p if k.startswith('baseline_')]
    if [k for k, _ in got] != keys:
        return f'partial baselines {keys}, the model gives {[k for k, _ in got]}'
    for k, v in got:
        if not np.array_equal(v, p['baseline_' + k]):
            return f'params[baseline_{k}] differs from the Lean semantics of the plan (exact comparison)'
    return None


def search(ctx, hints, lean_failed):
    sub = type(ctx)(ctx.prop, 'thorough', ctx.seed + 1)
    return [d for d in correspond(sub) if d.property_level]


def replay(ctx, data):
    from pybaselines.two_d import _whittaker_utils as wu
    r = data['replay']
    if r.get('kind') == 'dof':
        kw = {k: (float(v) if isinstance(v, str) else v) for k, v in r['kw'].items()}
        return dof_problem(r['host'], np.array(r['x']), np.array(r['z']), np.array(r['data']), r['lam'], r['d'], r['eig'], kw)[1]
    if r.get('kind') != 'solve':
        return None
    try:
        m, n = r['shape']
        Y, W = np.array(r['Y']), np.array(r['W'])
        dr, dc = r['d']
        kr, kc = r['eig']
        lamr, lamc = r['lam']
        v = wu.WhittakerSystem2D((m, n), (lamr, lamc), (dr, dc), (kr, kc)).solve(Y, W)
        span_err, gal = galerkin_check(Y, W, v, dr, dc, lamr, lamc, kr, kc)
        if span_err > 1e-8 or gal > 1e-8:
            return f'not the Galerkin solution (span {span_err:.2g}, residual {gal:.2g})'
    except Exception as e:
        return f'{type(e).__name__}: {e}'
    return None
