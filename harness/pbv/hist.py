"""Object-history fuzzer shared by C03 / C05 / C09 / C13 / C17.

A history is a short sequence of public calls on ONE long-lived fitter, written as plain JSON (so that it is its own replay):
the caller re-uses its objects the way real callers do — the same data BUFFER overwritten in place between calls, the same weights
array handed to several methods, a fitter created without x and later given data of another length, the same method called again
with exactly one argument changed (one axis of a pair in 2-D, the wrapped `method` of an optimizer), different methods that share
cached state.  Every call is then examined with the oracles the properties state:

* `fresh`   (C03, C09, C17): the call's outcome equals the outcome of the same call on a freshly constructed fitter with the same x
* `mutated` (C13): no caller object (data buffer, x, z, weights, keyword dictionaries) is changed by the call
* `oob`     (C05): with the kernels' Python source in place of the compiled code, no kernel indexes outside its arrays

Nothing here is specific to a method: the pools come from the registry (signatures), the alternatives from `methods.ALT_VALUES`."""
import copy
import warnings

import numpy as np

from . import methods as M
from . import cmp
from . import kernels as K

PAIRABLE = ('lam', 'poly_order', 'num_knots', 'spline_degree', 'diff_order', 'num_eigens', 'half_window', 'lam_1', 'max_half_window')
WRAPPED = {False: {'adaptive_minmax': ['modpoly', 'imodpoly'], 'collab_pls': ['asls', 'arpls', 'airpls'],
                   'custom_bc': ['asls', 'modpoly', 'mor', 'pspline_asls'], 'optimize_extended_range': ['asls', 'arpls', 'modpoly']},
           True: {'adaptive_minmax': ['modpoly', 'imodpoly'], 'collab_pls': ['asls', 'arpls'], 'individual_axes': ['asls', 'modpoly', 'mor']}}
INNER_KW = {'asls': {'lam': 1e3}, 'arpls': {'lam': 1e3}, 'airpls': {'lam': 1e3}, 'modpoly': {'poly_order': 2}, 'imodpoly': {'poly_order': 2},
            'mor': {'half_window': 3}, 'pspline_asls': {'lam': 1e1, 'num_knots': 8}}
SKIP = {'cwt_br'}          # minutes on small data
# one out-of-domain value per parameter name (the documented domains of property C15), used to make a call raise part-way
INVALID = {'max_cross': -1, 'lam': -1.0, 'p': 2.0, 'quantile': 2.0, 'eta': -1.0, 'num_knots': 1, 'spline_degree': -1, 'diff_order': 0, 'poly_order': -1,
           'half_window': -1, 'max_half_window': -1, 'lam_1': -1.0, 'num_eigens': 0}


def _jsonable(v):
    if isinstance(v, dict):
        return {k: _jsonable(x) for k, x in v.items()}
    if isinstance(v, (list, tuple)):
        return [_jsonable(x) for x in v]
    if isinstance(v, np.ndarray):
        return v.tolist()
    if isinstance(v, (np.integer,)):
        return int(v)
    if isinstance(v, (np.floating,)):
        return float(v)
    return v


def _kw_from_json(kw, two_d):
    out = {}
    for k, v in kw.items():
        if isinstance(v, list) and k != 'baseline_points':
            out[k] = tuple(v) if two_d or k in ('max_half_window',) else v
        elif k == 'baseline_points':
            out[k] = tuple(tuple(p) for p in v)
        elif isinstance(v, dict):
            out[k] = _kw_from_json(v, two_d)
        else:
            out[k] = v
    return out


def signal(x, z, seed, n=None):
    """finite noisy data on the given axes (x may be None: n points on [-1, 1])"""
    rng = np.random.default_rng(seed)
    if z is None:
        t = np.linspace(-1, 1, n) if x is None else (np.asarray(x, float) - np.min(x)) / max(np.ptp(x), 1e-300) * 2 - 1
        y = 4 + 1.5 * t + 2 * t ** 2 + 7 * np.exp(-0.5 * ((t - 0.2) / 0.08) ** 2) + 5 * np.exp(-0.5 * ((t + 0.5) / 0.05) ** 2)
        return np.round((y + rng.normal(0, 0.2, t.size)) * 256) / 256
    tx = (np.asarray(x, float) - np.min(x)) / np.ptp(x) * 2 - 1
    tz = (np.asarray(z, float) - np.min(z)) / np.ptp(z) * 2 - 1
    X, Z = np.meshgrid(tx, tz, indexing='ij')
    y = 3 + X + 0.5 * Z + X * Z + 8 * np.exp(-0.5 * (((X - 0.1) / 0.3) ** 2 + ((Z + 0.2) / 0.25) ** 2))
    return np.round((y + rng.normal(0, 0.15, y.shape)) * 256) / 256


def _variant(rng, name, e, two_d, base):
    """base kwargs, possibly with ONE parameter moved to an alternative value; pairs per axis in 2-D"""
    kw = dict(base)
    if rng.random() < 0.6:
        vs = M.single_variants(name, e, two_d, base=base)
        vs = [v for v in vs if v.get('max_iter', 1) != 0 or True]
        if vs:
            kw = dict(vs[int(rng.integers(0, len(vs)))])
    if two_d:
        for pn in PAIRABLE:
            if pn in e['params'] and rng.random() < 0.35:
                v = kw.get(pn, e['params'][pn])
                if isinstance(v, (list, tuple)):
                    v = v[0]
                if isinstance(v, bool) or not isinstance(v, (int, float)):
                    continue
                alts = [a for a in M.ALT_VALUES.get(pn, []) if isinstance(a, (int, float)) and a != v]
                if alts:
                    kw[pn] = [v, alts[int(rng.integers(0, len(alts)))]] if rng.random() < 0.5 else [alts[int(rng.integers(0, len(alts)))], v]
    if name in WRAPPED[two_d]:
        meth = WRAPPED[two_d][name][int(rng.integers(0, len(WRAPPED[two_d][name])))]
        kw['method'] = meth
        if 'method_kwargs' in e['params'] and name != 'adaptive_minmax':
            kw['method_kwargs'] = dict(INNER_KW.get(meth, {}))
        if name == 'optimize_extended_range':
            kw.update(side='both', min_value=2, max_value=4) if meth != 'modpoly' else kw.update(side='both', min_value=1, max_value=3, step=1)
            kw['method_kwargs'] = {k: v for k, v in kw.get('method_kwargs', {}).items() if k not in ('lam', 'poly_order')}
    return kw


def _priority_options(name, e, two_d, kw):
    out = []
    for pn, v in kw.items():
        if isinstance(v, list) and len(v) == 2 and all(isinstance(t, (int, float)) and not isinstance(t, bool) for t in v):
            out.append(('axis', pn))
        elif pn == 'method' and name in WRAPPED[two_d]:
            out.append(('method', pn))
    for pn in M.STR_VALUES:
        if name in M.STR_VALUES[pn] and pn in e['params']:
            out.append(('str', pn))
    if two_d:
        for pn in PAIRABLE:
            if pn in e['params'] and pn not in kw and isinstance(e['params'][pn], (int, float)) and not isinstance(e['params'][pn], bool) and M.ALT_VALUES.get(pn):
                out.append(('newpair', pn))
    return out


def _change_one(rng, name, e, two_d, kw, only=None):
    """the same call with exactly one argument changed (one axis of a pair; the wrapped method of an optimizer; one scalar)"""
    kw = copy.deepcopy(kw)
    opts = []
    for pn, v in kw.items():
        if isinstance(v, list) and len(v) == 2 and all(isinstance(t, (int, float)) and not isinstance(t, bool) for t in v):
            opts.append(('axis', pn))
        elif pn == 'method' and name in WRAPPED[two_d]:
            opts.append(('method', pn))
        elif isinstance(v, (int, float)) and not isinstance(v, bool) and (M.ALT_VALUES.get(pn) or M.derived_alts(pn, v)):
            opts.append(('scalar', pn))
        elif isinstance(v, str) and pn in M.STR_VALUES and name in M.STR_VALUES[pn]:
            opts.append(('str', pn))
    for pn in M.STR_VALUES:
        if name in M.STR_VALUES[pn] and pn in e['params'] and pn not in kw and isinstance(e['params'][pn], str):
            kw[pn] = e['params'][pn]
            opts.append(('str', pn))
    if two_d:
        for pn in PAIRABLE:
            if pn in e['params'] and pn not in kw and isinstance(e['params'][pn], (int, float)) and not isinstance(e['params'][pn], bool) and M.ALT_VALUES.get(pn):
                opts.append(('newpair', pn))
    if not opts:
        return kw
    pri = [o for o in opts if o[0] in ('axis', 'newpair', 'method', 'str')]
    if pri and rng.random() < 0.65:
        opts = pri
    kind, pn = opts[int(rng.integers(0, len(opts)))]
    if only is not None and only in opts + pri:
        kind, pn = only
    alts = [a for a in M.ALT_VALUES.get(pn, []) if isinstance(a, (int, float))]
    if kind == 'scalar' and not alts:
        alts = M.derived_alts(pn, kw[pn])
    if kind == 'str':
        c = [a for a in M.STR_VALUES[pn][name] if a != kw[pn]]
        if c:
            kw[pn] = c[int(rng.integers(0, len(c)))]
        return kw
    if kind == 'axis':
        ax = int(rng.integers(0, 2))
        c = [a for a in alts if a != kw[pn][ax]]
        if c:
            kw[pn][ax] = c[int(rng.integers(0, len(c)))]
    elif kind == 'newpair':
        v = e['params'][pn]
        c = [a for a in alts if a != v]
        if c:
            kw[pn] = [v, c[int(rng.integers(0, len(c)))]] if rng.random() < 0.5 else [c[int(rng.integers(0, len(c)))], v]
    elif kind == 'method':
        c = [m for m in WRAPPED[two_d][name] if m != kw['method']]
        if c:
            kw['method'] = c[int(rng.integers(0, len(c)))]
            if 'method_kwargs' in kw and name != 'adaptive_minmax':
                keep = {k: v for k, v in kw['method_kwargs'].items() if k not in ('lam', 'poly_order', 'half_window', 'num_knots')}
                kw['method_kwargs'] = dict(keep, **({} if name == 'optimize_extended_range' else INNER_KW.get(kw['method'], {})))
            if name == 'optimize_extended_range':
                kw.update(min_value=2, max_value=4) if kw['method'] != 'modpoly' else kw.update(min_value=1, max_value=3, step=1)
                if kw['method'] != 'modpoly':
                    kw.pop('step', None)
    else:
        c = [a for a in alts if a != kw[pn]]
        if c:
            kw[pn] = c[int(rng.integers(0, len(c)))]
    return kw


def gen_history(rng, two_d, pool=None, length=None):
    reg = M.registry(two_d)
    names = [n for n in sorted(reg) if n not in SKIP and (pool is None or n in pool)]
    if two_d:
        m, n = int(rng.integers(8, 12)), int(rng.integers(8, 12))
        x = np.round(np.sort(rng.uniform(-20, 30, m)) * 16) / 16 + np.arange(m) / 8
        z = np.round(np.sort(rng.uniform(0, 50, n)) * 16) / 16 + np.arange(n) / 8
        if rng.random() < 0.4:
            x = x[rng.permutation(m)]
        if rng.random() < 0.3:
            z = z[rng.permutation(n)]
        mode = ['xz', 'xz', 'xz', 'none'][int(rng.integers(0, 4))]
        spec = {'two_d': True, 'mode': mode, 'x': x.tolist(), 'z': z.tolist(), 'shape': [m, n]}
    else:
        n = int(rng.choice([32, 40, 47]))
        x = np.round(np.sort(rng.uniform(0, 100, n)) * 16) / 16 + np.arange(n) / 8
        if rng.random() < 0.4:
            x = x[rng.permutation(n)]
        mode = ['x', 'x', 'none'][int(rng.integers(0, 3))]
        spec = {'two_d': False, 'mode': mode, 'x': x.tolist(), 'n': n}
    steps = []
    L = int(rng.integers(3, 7)) if length is None else length
    prev = None
    for k in range(L):
        if prev is not None and rng.random() < 0.5:
            name = prev['method']
            e = reg[name]
            r = rng.random()
            kw = copy.deepcopy(prev['kwargs']) if r < 0.35 else _change_one(rng, name, e, two_d, prev['kwargs'])
        else:
            # methods that share cached state follow each other more often than chance: same module as the previous step
            cand = names
            if prev is not None and rng.random() < 0.5:
                same = [nm for nm in names if reg[nm]['module'] == reg[prev['method']]['module']]
                cand = same or names
            name = cand[int(rng.integers(0, len(cand)))]
            e = reg[name]
            base = M.filter_kwargs(e, M.call_kwargs(name, two_d))
            kw = _jsonable(_variant(rng, name, e, two_d, base))
        if 'max_iter' in e['params'] and 'max_iter' not in kw:
            kw['max_iter'] = int(rng.choice([2, 4, 8]))
        step = {'method': name, 'kwargs': _jsonable(kw), 'seed': int(rng.integers(0, 2 ** 31)),
                'data': ['buf', 'buf', 'new'][int(rng.integers(0, 3))],
                'weights': (['none', 'shared', 'shared', 'new'][int(rng.integers(0, 4))] if 'weights' in e['params'] and name not in WRAPPED[two_d] else 'none')}
        if mode == 'none' and not two_d and k > 0 and rng.random() < 0.25:
            step['data'] = 'short'
        steps.append(step)
        prev = step
    spec['steps'] = steps
    return spec


def systematic(rng, two_d, pool=None, what=('repeat',), max_pairs=None):
    """deterministic coverage next to the random histories:
    'repeat' — for EVERY method of the pool one history [m(kw), m(same kw, the buffer overwritten), m(one argument changed)] with the
               caller's buffer and weights array re-used, on a fitter created with sorted x (where nothing is copied on the way in);
    'pairs'  — every ordered pair (m1, m2) of methods of the same module that take weights: [m1(W), m2(W)] with the same weights object"""
    reg = M.registry(two_d)
    names = [n for n in sorted(reg) if n not in SKIP and (pool is None or n in pool)]
    specs = []

    def frame(unsorted=False):
        if two_d:
            m, n = 12, 11        # the default num_eigens (10, 10) must fit
            x = np.round(np.sort(rng.uniform(-20, 30, m)) * 16) / 16 + np.arange(m) / 8
            z = np.round(np.sort(rng.uniform(0, 50, n)) * 16) / 16 + np.arange(n) / 8
            if unsorted:
                x, z = x[rng.permutation(m)], z[rng.permutation(n)]
            return {'two_d': True, 'mode': 'xz', 'x': x.tolist(), 'z': z.tolist(), 'shape': [m, n]}
        n = 40
        x = np.round(np.sort(rng.uniform(0, 100, n)) * 16) / 16 + np.arange(n) / 8
        if unsorted:
            x = x[rng.permutation(n)]
        return {'two_d': False, 'mode': 'x', 'x': x.tolist(), 'n': n}

    def step(name, kw, w):
        e = reg[name]
        kw = dict(kw)
        if 'max_iter' in e['params'] and 'max_iter' not in kw:
            kw['max_iter'] = 4
        return {'method': name, 'kwargs': _jsonable(kw), 'seed': int(rng.integers(0, 2 ** 31)), 'data': 'buf',
                'weights': w if ('weights' in e['params'] and name not in WRAPPED[two_d]) else 'none'}
    if 'repeat' in what:
        for name in names:
            e = reg[name]
            kw = _jsonable(_variant(rng, name, e, two_d, M.filter_kwargs(e, M.call_kwargs(name, two_d))))
            w = ['shared', 'none'][int(rng.integers(0, 2))]
            steps = [step(name, kw, w), step(name, kw, w)]
            cur = kw
            # then one further call per argument of the kinds that select cached state: each axis-pair, the wrapped method, each
            # string-valued option — changed one at a time (at most four), and one change picked at random
            for only in _priority_options(name, e, two_d, kw)[:4] + [('compensate', None), None]:
                if only is not None and only[0] == 'str':
                    # a string-valued option visits every one of its values in turn (left -> right differs from both -> right)
                    for val in M.STR_VALUES[only[1]][name]:
                        if cur.get(only[1], e['params'].get(only[1])) != val and len(steps) < 9:
                            cur = dict(copy.deepcopy(cur), **{only[1]: val})
                            steps.append(step(name, cur, w))
                    continue
                if only is not None and only[0] == 'compensate':
                    # two integer arguments moved in opposite directions (+1 / -1): a cache key that folds several arguments into one
                    # number (a sum, a size) cannot tell such calls apart
                    ints = [pn for pn, d in e['params'].items() if isinstance(cur.get(pn, d), int) and not isinstance(cur.get(pn, d), bool)
                            and pn not in ('max_iter', 'max_iter_2') and pn not in M.NO_DERIVED]
                    if len(ints) < 2:
                        continue
                    i, j = (int(t) for t in rng.choice(len(ints), 2, replace=False))
                    a, b = ints[i], ints[j]
                    va, vb = cur.get(a, e['params'][a]), cur.get(b, e['params'][b])
                    if vb - 1 < 1:
                        a, b, va, vb = b, a, vb, va
                    if vb - 1 < 1:
                        continue
                    cur = dict(copy.deepcopy(cur), **{a: va + 1, b: vb - 1})
                    steps.append(step(name, cur, w))
                    continue
                prev_cur = cur
                cur = _change_one(rng, name, e, two_d, cur, only=only)
                # a call that RAISES after part of the new state may have been recorded: the changed arguments together with one
                # out-of-domain value of another parameter, then the valid call with the changed arguments
                changed = {k for k in cur if cur.get(k) != prev_cur.get(k)}
                bad = next(((pn, v) for pn, v in INVALID.items() if pn in e['params'] and pn not in changed), None)
                if bad is not None and len(steps) < 9:
                    steps.append(step(name, dict(copy.deepcopy(cur), **{bad[0]: bad[1]}), w))
                steps.append(step(name, cur, w))
            # optimizers sort for themselves (skip_sorting): their histories run on unsorted x; the others on either
            specs.append(dict(frame(unsorted=bool(e['cells'].get('skip_sorting')) or rng.random() < 0.35), steps=steps))
            if not two_d:
                # a fitter created WITHOUT x: its size is fixed by the first call; the same method is then handed shorter data
                short = step(name, kw, 'none')
                short['data'] = 'short'
                specs.append(dict(frame(), mode='none', steps=[step(name, kw, 'none'), short, step(name, kw, 'none')]))
    if 'pairs' in what:
        by_mod = {}
        for name in names:
            if 'weights' in reg[name]['params'] and name not in WRAPPED[two_d]:
                by_mod.setdefault(reg[name]['module'], []).append(name)
        pairs = [(a, b) for mod in sorted(by_mod) for a in by_mod[mod] for b in by_mod[mod] if a != b]
        if max_pairs is not None and len(pairs) > max_pairs:
            pairs = [pairs[i] for i in sorted(rng.choice(len(pairs), max_pairs, replace=False))]
        for a, b in pairs:
            ka = _jsonable(M.filter_kwargs(reg[a], M.call_kwargs(a, two_d)))
            kb = _jsonable(M.filter_kwargs(reg[b], M.call_kwargs(b, two_d)))
            specs.append(dict(frame(), steps=[step(a, ka, 'shared'), step(b, kb, 'shared')]))
    return specs


def _snap(obj):
    if isinstance(obj, np.ndarray):
        return ('arr', obj.shape, obj.dtype.str, obj.tobytes())
    if isinstance(obj, dict):
        return ('dict', tuple((k, _snap(v)) for k, v in obj.items()))
    if isinstance(obj, (list, tuple)):
        return ('seq', type(obj).__name__, tuple(_snap(v) for v in obj))
    return ('val', repr(obj))


def _call(fit, name, data, kw):
    try:
        with warnings.catch_warnings():
            warnings.simplefilter('ignore')
            with np.errstate(all='ignore'):
                b, p = getattr(fit, name)(data, **kw)
        return ('ok', b, p)
    except Exception as ex:      # noqa: BLE001
        return ('exc', type(ex).__name__, str(ex)[:160], ex)


def _differs(name, ra, rb, shape):
    """None or a description of how outcome A (re-used fitter) differs from outcome B (fresh fitter)"""
    if ra[0] != rb[0]:
        return f'{"returned" if ra[0] == "ok" else "raised " + ra[1]} on the re-used fitter, {"returned" if rb[0] == "ok" else "raised " + rb[1]} on a fresh one'
    if ra[0] == 'exc':
        return None if ra[1] == rb[1] else f'raised {ra[1]} on the re-used fitter, {rb[1]} on a fresh one'
    a, b = np.asarray(ra[1], dtype=float), np.asarray(rb[1], dtype=float)
    if a.shape != b.shape:
        return f'baseline shapes {a.shape} vs {b.shape}'
    fin = np.isfinite(b)
    if not np.array_equal(np.isfinite(a), fin):
        return 'baseline finite on one fitter only'
    scale = max(1.0, float(np.max(np.abs(b[fin]))) if fin.any() else 1.0)
    if not np.allclose(a[fin], b[fin], rtol=1e-6, atol=1e-6 * scale):
        return f'baseline differs by {float(np.max(np.abs(a[fin] - b[fin]))):.3g} (scale {scale:.3g})'
    pa, _ = cmp.split(ra[2], shape, name)
    pb, _ = cmp.split(rb[2], shape, name)
    for k in sorted(set(pa) | set(pb)):
        if k not in pa or k not in pb:
            return f'per-point parameter {k} on one fitter only'
        u, v = np.asarray(pa[k], dtype=float), np.asarray(pb[k], dtype=float)
        if u.shape != v.shape:
            return f'{k} shapes {u.shape} vs {v.shape}'
        f2 = np.isfinite(v)
        sc = max(1.0, float(np.max(np.abs(v[f2]))) if f2.any() else 1.0)
        if not np.array_equal(np.isfinite(u), f2) or not np.allclose(u[f2], v[f2], rtol=1e-6, atol=1e-6 * sc):
            return f'{k} differs by {float(np.nanmax(np.abs(u - v))):.3g}'
    ta, tb = ra[2].get('tol_history'), rb[2].get('tol_history')
    if ta is not None and tb is not None and np.shape(ta) != np.shape(tb):
        return f'tol_history has {np.shape(ta)} entries on the re-used fitter, {np.shape(tb)} on a fresh one'
    return None


def run(spec, want=('fresh', 'mutated'), py_source=False, names=None, fresh_via='fitter'):
    """Executes the history. Returns a list of findings (step index, kind, text)."""
    from pybaselines import Baseline, Baseline2D
    two_d = spec['two_d']
    x_in = np.array(spec['x'], dtype=float)
    z_in = np.array(spec['z'], dtype=float) if two_d else None
    shape0 = tuple(spec['shape']) if two_d else (spec['n'],)
    if spec['mode'] == 'none':
        shared = Baseline2D() if two_d else Baseline()
        x_eff = np.linspace(-1, 1, shape0[0])
        z_eff = np.linspace(-1, 1, shape0[1]) if two_d else None
        x_user = z_user = None
    else:
        x_user, z_user = x_in.copy(), (z_in.copy() if two_d else None)
        shared = Baseline2D(x_user, z_user) if two_d else Baseline(x_user)
        x_eff, z_eff = x_in, z_in
    buf = np.zeros(shape0)
    W = np.round(np.random.default_rng(spec['steps'][0]['seed'] + 5).uniform(0.2, 1.0, shape0) * 64) / 64
    findings = []
    last_seed = None
    ctxm = K.py_kernels() if py_source else None
    if ctxm is not None:
        ctxm.__enter__()
    try:
        for k, st in enumerate(spec['steps']):
            name = st['method']
            kw = _kw_from_json(copy.deepcopy(st['kwargs']), two_d)
            stack = name == 'collab_pls'
            seed = st['seed']
            if st['data'] == 'short' and not two_d:
                nn = max(12, shape0[0] - 9)
                data = signal(None, None, seed, nn)
            else:
                y = signal(x_eff if spec['mode'] != 'none' else None, z_eff if two_d else None, seed, shape0[0]) if not two_d else signal(x_eff, z_eff, seed)
                if st['data'] == 'buf':
                    buf[...] = y
                    data = buf
                else:
                    data = y.copy()
            call_data = np.array([data, 1.1 * data + 0.25]) if stack else data
            objs = {'data': call_data if stack else data}
            if st['weights'] == 'shared' and np.shape(data) == shape0:
                kw['weights'] = W
                objs['weights'] = W
            elif st['weights'] == 'new' and np.shape(data) == shape0:
                kw['weights'] = np.round(np.random.default_rng(seed + 9).uniform(0.2, 1.0, shape0) * 64) / 64
                objs['weights'] = kw['weights']
            for dk, dv in kw.items():
                if isinstance(dv, dict):
                    objs[dk] = dv
            if x_user is not None:
                objs['x'] = x_user
                if two_d:
                    objs['z'] = z_user
            kw_fresh = copy.deepcopy(kw)
            data_fresh = np.array(call_data, copy=True)
            before = {o: _snap(v) for o, v in objs.items()}
            ra = _call(shared, name, call_data, kw)
            if py_source and ra[0] == 'exc':
                hit = K.kernel_index_error(ra[3], names or set())
                if hit:
                    findings.append((k, 'oob', f'kernel {hit} indexes outside its array ({ra[2]})'))
            if 'mutated' in want:
                for o, v in objs.items():
                    if _snap(v) != before[o]:
                        findings.append((k, 'mutated', f'{name} modified the caller\'s {o}'))
            if 'fresh' in want:
                if fresh_via == 'function' and not two_d:
                    import importlib
                    fmod = importlib.import_module('pybaselines.' + M.registry(False)[name]['module'])

                    class _F:       # the module-level function with x_data, behind the call interface of a fitter
                        pass
                    fresh = _F()
                    setattr(fresh, name, lambda d, __f=getattr(fmod, name), **k2: __f(data=d, x_data=x_eff.copy(), **k2))
                else:
                    fresh = Baseline2D(x_eff.copy(), z_eff.copy()) if two_d else Baseline(x_eff.copy())
                rb = _call(fresh, name, data_fresh, kw_fresh)
                d = _differs(name, ra, rb, np.shape(data))
                if d:
                    findings.append((k, 'fresh', f'{name}({_jsonable(st["kwargs"])}): {d}'))
            last_seed = seed
    finally:
        if ctxm is not None:
            ctxm.__exit__(None, None, None)
    return findings


def shrink(spec, kind, **kwrun):
    """drop leading steps / trailing steps while a finding of `kind` remains (every candidate is re-run)"""
    best = spec
    f = [x for x in run(best, **kwrun) if x[1] == kind]
    if not f:
        return spec, None
    last = f[0][0]
    best = dict(spec, steps=spec['steps'][:last + 1])
    for j in range(1, len(best['steps'])):
        cand = dict(best, steps=best['steps'][j:])
        if cand['steps'] and any(x[1] == kind for x in run(cand, **kwrun)):
            best = cand
            break
    for j in range(1, len(best['steps'])):
        cand = dict(best, steps=best['steps'][j:])
        if cand['steps'] and any(x[1] == kind for x in run(cand, **kwrun)):
            best = cand
    f = [x for x in run(best, **kwrun) if x[1] == kind]
    return (best, f[0]) if f else (spec, None)


def describe(spec):
    return ' -> '.join(f'{s["method"]}({", ".join(f"{k}={v}" for k, v in s["kwargs"].items())}; data={s["data"]}, weights={s["weights"]})' for s in spec['steps'])


def campaign(ctx, rng, kind, count_1d, count_2d, pool1=None, pool2=None, filt=None, py_source=False, sys_what=('repeat',), max_pairs=None, fresh_via='fitter'):
    """runs histories and returns [(spec, finding)] of the wanted kind (shrunk). `filt(finding_text, step)` may restrict findings."""
    out = []
    names = set(K.kernel_table()) if py_source else None
    want = {'fresh': ('fresh',), 'mutated': ('mutated',), 'oob': ()}[kind]
    for two_d, cnt, pool in ((False, count_1d, pool1), (True, count_2d, pool2)):
        extra = systematic(rng, two_d, pool, what=sys_what, max_pairs=max_pairs) if sys_what and cnt else []
        for it in range(cnt + len(extra)):
            spec = gen_history(rng, two_d, pool) if it < cnt else extra[it - cnt]
            if it >= cnt:
                ctx.count('history:systematic')
            ctx.case(('history', two_d, spec['mode'], tuple((s['method'], repr(sorted(s['kwargs'].items(), key=str)), s['data'], s['weights']) for s in spec['steps'])), nontrivial=True)
            ctx.count('history:' + ('2d' if two_d else '1d') + ':' + spec['mode'])
            ctx.count('history:calls', len(spec['steps']))
            ctx.count('history:repeated-method-steps', sum(1 for a, b in zip(spec['steps'], spec['steps'][1:]) if a['method'] == b['method']))
            ctx.count('history:shared-weights-steps', sum(1 for s in spec['steps'] if s['weights'] == 'shared'))
            ctx.count('history:buffer-steps', sum(1 for s in spec['steps'] if s['data'] == 'buf'))
            try:
                f = [x for x in run(spec, want=want, py_source=py_source, names=names, fresh_via=fresh_via) if x[1] == kind]
            except Exception:      # noqa: BLE001
                import traceback
                traceback.print_exc()
                ctx.count('history:harness-error')
                continue
            if filt is not None:
                f = [x for x in f if filt(spec, x)]
            if f:
                s2, f2 = shrink(spec, kind, want=want, py_source=py_source, names=names, fresh_via=fresh_via)
                out.append((s2, f2 or f[0]))
    return out
