"""Deterministic thread scheduler (C04).  Real threads run one at a time; before every access (read or
write) to a field of the state reachable from the shared fitter object the running thread hands control
back to the scheduler, which chooses the next thread from a *plan*.  A plan therefore names one
interleaving of the calls at the granularity at which CPython can pre-empt between attribute accesses.

No repository change is needed: the fitter is an instance of a runtime subclass whose
`__getattribute__/__setattr__` report the accesses, and the cache helper classes are replaced by
reporting subclasses for the duration of a run."""
import contextlib
import os
import sys
import threading

import numpy as np

# fields of the fitter object and of the cache helpers that calls may read or write
FITTER_FIELDS = {'x', 'z', '_size', '_shape', '_Algorithm__size', '_Algorithm2D__shape', '_polynomial', '_spline_basis', '_validated_x', '_validated_z',
                 'x_domain', 'z_domain', '_sort_order', '_inverted_order', '_banded_solver', '_pentapy_solver', '_dtype', '_check_finite'}
HELPER_FIELDS = {'vandermonde', 'poly_order', 'pinv_stale', '_pseudo_inverse', 'max_cross'}

_cur = threading.local()


class Deadlock(Exception):
    pass


class Sched:
    def __init__(self, plan, record_only=False, only=None, focus=None):
        self.focus = set(tuple(f) for f in (focus or ()))     # (file name, function name): pre-emption before every LINE of these
        self.plan = list(plan)
        self.unmodelled = []
        self.only = only        # when given: pre-emption only before accesses to these fields (the others are just logged)
        self.cv = threading.Condition()
        self.turn = None
        self.alive = set()
        self.log = []
        self.used = []          # the thread actually chosen at every decision
        self.record_only = record_only

    # called by a worker thread before a shared access
    def point(self, kind, owner, name, oid=0, vid=0):
        tid = getattr(_cur, 'tid', None)
        if tid is None:
            return
        if self.only is not None and name not in self.only:
            self.log.append((tid, kind, owner, name, oid, vid))
            return
        if self.record_only:
            self.log.append((tid, kind, owner, name, oid, vid))
            return
        with self.cv:
            self.log.append((tid, kind, owner, name, oid, vid))
            self.turn = None
            self.cv.notify_all()
            while self.turn != tid:
                if not self.cv.wait(timeout=60):
                    raise Deadlock('scheduler timeout')

    # line-level pre-emption inside the focus functions (used to turn a detected in-place write into a concrete schedule)
    def _tracer(self, frame, event, arg):
        if event == 'call':
            co = frame.f_code
            if (os.path.basename(co.co_filename), co.co_name) in self.focus:
                return self._line_tracer
        return None

    def _line_tracer(self, frame, event, arg):
        if event == 'line':
            self.point('L', 'line', f'{os.path.basename(frame.f_code.co_filename)}:{frame.f_lineno}')
        return self._line_tracer

    def run(self, funcs):
        results = {}
        threads = {}

        def body(tid, f):
            _cur.tid = tid
            if self.focus:
                sys.settrace(self._tracer)
            with self.cv:
                while self.turn != tid:
                    if not self.cv.wait(timeout=60):
                        results[tid] = ('err', 'Deadlock', 'never scheduled')
                        return
            try:
                results[tid] = ('ok', f())
            except Exception as e:          # noqa: BLE001 -- the outcome of the call IS the observation
                results[tid] = ('err', type(e).__name__, str(e)[:300])
            finally:
                if self.focus:
                    sys.settrace(None)
                _cur.tid = None
                with self.cv:
                    self.alive.discard(tid)
                    self.turn = None
                    self.cv.notify_all()
        for tid, f in enumerate(funcs):
            self.alive.add(tid)
            t = threading.Thread(target=body, args=(tid, f), daemon=True)
            threads[tid] = t
            t.start()
        i = 0
        with self.cv:
            while self.alive:
                want = self.plan[i] if i < len(self.plan) else None
                i += 1
                if want is None or want not in self.alive:
                    want = self.used[-1] if (self.used and self.used[-1] in self.alive) else min(self.alive)
                self.used.append(want)
                self.turn = want
                self.cv.notify_all()
                while self.turn is not None:
                    if not self.cv.wait(timeout=120):
                        raise Deadlock('worker did not yield')
        for t in threads.values():
            t.join(timeout=10)
        return results


_ADOPTED = {}


def adopt(value, sched):
    """an object of a pybaselines class that is being published on the shared fitter becomes instrumented from that moment on:
    its class is swapped for a reporting subclass (every data attribute is a pre-emption point)"""
    cls = type(value)
    if getattr(cls, '_pbv_proxy', False) or not getattr(cls, '__module__', '').startswith('pybaselines') or not hasattr(value, '__dict__'):
        return
    key = (cls, id(sched))
    if key not in _ADOPTED:
        _ADOPTED.clear() if len(_ADOPTED) > 64 else None
        _ADOPTED[key] = _proxy_all(cls, sched, 'cached:' + cls.__name__)
    try:
        value.__class__ = _ADOPTED[key]
    except TypeError:
        pass


def _proxy(base, sched, fields, owner):
    class P(base):
        _pbv_proxy = True

        def __getattribute__(self, name):
            if name in fields:
                sched.point('R', owner, name, id(self))
            return base.__getattribute__(self, name)

        def __setattr__(self, name, value):
            if owner == 'self':
                adopt(value, sched)
            if name in fields:
                sched.point('W', owner, name, id(self), id(value))
            elif getattr(_cur, 'tid', None) is not None:
                sched.unmodelled.append((owner, name, id(self)))      # a write to a field the protocol models do not know
            base.__setattr__(self, name, value)
    P.__name__ = base.__name__
    P.__qualname__ = base.__qualname__
    return P


def _proxy_all(base, sched, owner):
    """every DATA attribute of the instances (whatever is stored in the instance dictionary) is a pre-emption point"""
    class P(base):
        _pbv_proxy = True

        def __getattribute__(self, name):
            if not name.startswith('__'):
                if name in object.__getattribute__(self, '__dict__'):
                    sched.point('R', owner, name, id(self))
            return base.__getattribute__(self, name)

        def __setattr__(self, name, value):
            sched.point('W', owner, name, id(self), id(value))
            base.__setattr__(self, name, value)
    P.__name__ = base.__name__
    P.__qualname__ = base.__qualname__
    return P


@contextlib.contextmanager
def instrumented(sched, two_d=False, extra=()):
    """yields the reporting fitter class; the helper classes are replaced while the context is open"""
    from pybaselines import Baseline, Baseline2D
    import pybaselines._algorithm_setup as S1
    import pybaselines.two_d._algorithm_setup as S2
    saved = [(S1, '_PolyHelper', S1._PolyHelper), (S2, '_PolyHelper2D', S2._PolyHelper2D), (S1, 'SplineBasis', S1.SplineBasis),
             (S2, 'SplineBasis2D', S2.SplineBasis2D)]
    # the cached spline basis is reachable from the shared fitter: all of its data attributes are pre-emption points
    S1.SplineBasis = _proxy_all(S1.SplineBasis, sched, 'basis')
    S2.SplineBasis2D = _proxy_all(S2.SplineBasis2D, sched, 'basis')
    S1._PolyHelper = _proxy(S1._PolyHelper, sched, HELPER_FIELDS | set(extra), 'poly')
    S2._PolyHelper2D = _proxy(S2._PolyHelper2D, sched, HELPER_FIELDS | set(extra), 'poly')
    try:
        yield _proxy(Baseline2D if two_d else Baseline, sched, FITTER_FIELDS | set(extra), 'self')
    finally:
        for mod, nm, val in saved:
            setattr(mod, nm, val)


def canon(result):
    """bit-exact canonical form of a call's outcome"""
    if result[0] == 'err':
        return ('err', result[1])
    b, p = result[1]
    items = [np.asarray(b).tobytes()]
    for k in sorted(p):
        v = p[k]
        try:
            items.append((k, np.asarray(v, dtype=float).tobytes()))
        except (TypeError, ValueError):
            items.append((k, repr(v)))
    return ('ok', tuple(items))
