"""C03 — a reused fitter object gives the same answers as a fresh one."""
import glob
import json
import os

import numpy as np

from .common import Disagreement, drive, ROOT

PROP_MODULE = 'PbVerif.Props.C03'
RULE = ('cases = operation histories (length 1..12 quick, ..40 thorough) on one Baseline/Baseline2D object built with unique x, '
        'duplicate x or no x, each followed by a probe compared with a fresh object; non-trivial = history has >= 2 cache-touching '
        'operations; distinct by the canonical op string')
ASSUMPTIONS = [
    'polyvander column-prefix law (proved for the row model) describes numpy.polynomial.polynomial.polyvander',
    'results of a probe on reused and fresh objects are compared to rounding (rtol 1e-9), bit equality is recorded when it holds',
    'np.linalg.pinv is deterministic for equal inputs',
]


def son(v):
    return 'N' if v is None else str(int(v))


class Real:
    """executes model-level ops on a real object and reports the observable state"""

    def __init__(self, two_d, given, rng):
        from pybaselines import Baseline, Baseline2D
        self.two_d = two_d
        self.rng = rng
        self.given = given
        if two_d:
            # size abstracts M*N with a fixed second dimension
            self.ncol = 5
            if given is None:
                self.obj = Baseline2D()
            else:
                m = given[0] // self.ncol
                x = np.linspace(0, 10, m)
                if not given[1]:
                    x[1] = x[0]
                self.obj = Baseline2D(x, np.linspace(-3, 4, self.ncol))
        else:
            if given is None:
                self.obj = Baseline()
            else:
                x = np.linspace(0, 10, given[0])
                if not given[1]:
                    x[1] = x[0]
                self.obj = Baseline(x)

    def data(self, length):
        if self.two_d:
            m = length // self.ncol
            xx = np.linspace(0, 1, m)[:, None]
            zz = np.linspace(0, 1, self.ncol)[None, :]
            return 3 + 2 * xx + zz + 4 * np.exp(-((xx - 0.5) / 0.1) ** 2) * np.exp(-((zz - 0.5) / 0.3) ** 2) + \
                0.01 * np.sin(37 * xx + 11 * zz)
        t = np.linspace(0, 1, length)
        return 3 + 2 * t + 4 * np.exp(-((t - 0.5) / 0.05) ** 2) + 0.01 * np.sin(37 * t)

    def do(self, op):
        o = self.obj
        if op[0] == 's':
            _, v, isb = op
            val = bool(v) if isb else v
            try:
                o.banded_solver = val
                return 'solverset', None
            except ValueError:
                return 'badsolver', None
        _, length, uq, kind = op[:4]
        args = op[4:]
        y = self.data(length)
        w = None
        try:
            if kind == 'plain':
                if uq:
                    res = o.rubberband(y)
                elif self.two_d:
                    res = o.mor(y, half_window=(2, 1))
                else:
                    res = o.asls(y, lam=1e3)
                out = 'ok:none'
            elif kind == 'fail':
                res = None
                if self.two_d:
                    o.asls(y, lam=-1.0)
                else:
                    (o.loess if uq else o.asls)(y, **({'fraction': -1.0} if uq else {'lam': -1.0}))
                out = 'ok:none'
            elif kind == 'poly':
                k, weighted, pinv = args
                if weighted:
                    w = np.linspace(0.5, 1.0, length)
                if uq:
                    res = o.loess(y, poly_order=k, fraction=0.6, weights=w)
                elif pinv:
                    res = [o.poly, o.modpoly, o.imodpoly][int(self.rng.integers(0, 3))](y, poly_order=k, weights=w)
                else:
                    res = o.quant_reg(y, poly_order=k, weights=w, max_iter=3)
                p = o._polynomial
                out = f'ok:poly:{p.vandermonde.shape[1]}:' + \
                    (son(p._pseudo_inverse.shape[0]) if (pinv and not weighted and not uq) else 'N')
            elif kind == 'poly2':
                a, b, mc, weighted, pinv = args
                if weighted:
                    w = np.linspace(0.5, 1.0, y.size).reshape(y.shape)
                if pinv:
                    res = [o.poly, o.modpoly][int(self.rng.integers(0, 2))](y, poly_order=(a, b), max_cross=mc, weights=w)
                else:
                    res = o.quant_reg(y, poly_order=(a, b), max_cross=mc, weights=w, max_iter=3)
                p = o._polynomial
                key = f'{int(p.poly_order[0])},{int(p.poly_order[1])},{son(p.max_cross)}'
                out = f'ok:poly2:{key}:' + (key if (pinv and not weighted) else 'N')
            elif kind == 'spline':
                kn, dg, fa = args
                if self.two_d:
                    kw = dict(num_knots=(kn // 100, kn % 100), spline_degree=(dg // 10, dg % 10))
                    if fa:
                        kw['diff_order'] = 9
                    res = o.pspline_asls(y, lam=1e2, **kw)
                    sb = o._spline_basis
                    out = f'ok:spline:{int(sb.num_knots[0]) * 100 + int(sb.num_knots[1])},{int(sb.spline_degree[0]) * 10 + int(sb.spline_degree[1])}'
                else:
                    kw = dict(num_knots=kn, spline_degree=dg)
                    if fa:
                        kw['diff_order'] = kn + dg + 3
                    res = (o.pspline_asls if not uq else o.corner_cutting)(y, **(dict(lam=1e2, **kw) if not uq else {}))
                    sb = o._spline_basis
                    out = f'ok:spline:{sb.num_knots},{sb.spline_degree}'
            else:
                raise RuntimeError(kind)
            return out, res
        except ValueError as e:
            msg = str(e)
            if 'length mismatch' in msg or 'expected' in msg and 'got' in msg:
                return 'len', None
            if 'x-values must be unique' in msg:
                return 'nonuniq', None
            return 'failed', None

    def state(self):
        o = self.obj
        p = o._polynomial
        size = None if o._size is None else int(o._size)
        if self.two_d or p is None or not hasattr(p, 'max_cross'):
            p2s = 'N'
        if p is None:
            ps, p2s = 'N', 'N'
        elif self.two_d:
            ps = 'N'
            fresh = self._fresh_v2(p.poly_order, p.max_cross)
            vok = np.array_equal(fresh, p.vandermonde)
            pok = p.pinv_stale or (p._pseudo_inverse is not None and np.allclose(p._pseudo_inverse, np.linalg.pinv(fresh), rtol=1e-8, atol=1e-10))
            p2s = (f'{int(p.poly_order[0])},{int(p.poly_order[1])},{son(p.max_cross)},{int(p.pinv_stale)},'
                   f'{"N" if p._pseudo_inverse is None else "S"},{int(vok)},{int(bool(pok))}')
        else:
            p2s = 'N'
            from numpy.polynomial import polynomial as P, polyutils as pu
            fresh = P.polyvander(pu.mapdomain(o.x, o.x_domain, np.array([-1., 1.])), p.vandermonde.shape[1] - 1)
            pok = p.pinv_stale or (p._pseudo_inverse is not None and p._pseudo_inverse.shape[0] == p.vandermonde.shape[1]
                                   and np.allclose(p._pseudo_inverse, np.linalg.pinv(fresh), rtol=1e-8, atol=1e-10))
            vok = np.array_equal(fresh, p.vandermonde)
            ps = (f'{p.poly_order},{p.vandermonde.shape[1] if vok else -1},{int(p.pinv_stale)},'
                  f'{son(None if p._pseudo_inverse is None else p._pseudo_inverse.shape[0])},{int(bool(pok))}')
        sb = o._spline_basis
        if sb is None:
            sp = 'N'
        elif self.two_d:
            sp = f'{int(sb.num_knots[0]) * 100 + int(sb.num_knots[1])},{int(sb.spline_degree[0]) * 10 + int(sb.spline_degree[1])}'
        else:
            sp = f'{sb.num_knots},{sb.spline_degree}'
        pent = o._pentapy_solver if hasattr(o, '_pentapy_solver') else (o._banded_solver if o._banded_solver < 3 else 1)
        return f'{son(size)}/{int(o._validated_x)}/{ps}/{p2s}/{sp}/{o._banded_solver}/{pent}'

    def _fresh_v2(self, orders, mc):
        from pybaselines.two_d._algorithm_setup import _PolyHelper2D
        o = self.obj
        return _PolyHelper2D(o.x, o.z, o.x_domain, o.z_domain, orders, mc).vandermonde


def op_str(op):
    if op[0] == 's':
        return f's:{op[1]}:{int(op[2])}'
    _, length, uq, kind = op[:4]
    a = op[4:]
    if kind == 'poly':
        tail = f'poly:{a[0]}:{int(a[1])}:{int(a[2])}'
    elif kind == 'poly2':
        tail = f'poly2:{a[0]}:{a[1]}:{son(a[2])}:{int(a[3])}:{int(a[4])}'
    elif kind == 'spline':
        tail = f'spline:{a[0]}:{a[1]}:{int(a[2])}'
    else:
        tail = kind
    return f'c:{length}:{int(uq)}:{tail}'


def random_op(rng, two_d, size, allow_uq=True):
    r = rng.random()
    length = size if rng.random() < 0.9 else size + (5 if two_d else 1)
    if r < 0.12:
        v = int(rng.choice([0, 1, 2, 3, 4, 5]))
        return ('s', v, bool(rng.random() < 0.15) and v in (0, 1))
    if two_d:
        if r < 0.6:
            a, b = [(1, 1), (2, 3), (3, 2), (1, 5), (2, 1), (0, 2), (3, 1), (1, 3)][int(rng.integers(0, 8))]
            mc = [None, None, 0, 1, 2][int(rng.integers(0, 5))]
            return ('c', length, False, 'poly2', a, b, mc, bool(rng.random() < 0.3), bool(rng.random() < 0.8))
        if r < 0.8:
            kn = [(4, 3), (5, 3), (4, 4)][int(rng.integers(0, 3))]
            dg = [(2, 2), (3, 2), (1, 3)][int(rng.integers(0, 3))]
            return ('c', length, False, 'spline', kn[0] * 100 + kn[1], dg[0] * 10 + dg[1], bool(rng.random() < 0.15))
        return ('c', length, False, 'plain' if rng.random() < 0.7 else 'fail')
    if r < 0.55:
        uq = allow_uq and rng.random() < 0.15
        pinv = (not uq) and rng.random() < 0.8
        return ('c', length, uq, 'poly', int(rng.integers(0 if not uq else 1, 7 if not uq else 3)), bool(rng.random() < 0.3), pinv)
    if r < 0.75:
        kn, dg = int(rng.integers(2, 12)), int(rng.integers(0, 4))
        # default diff_order = 2 must be < number of basis functions, else the call raises after caching the basis
        return ('c', length, False, 'spline', kn, dg, bool(rng.random() < 0.15) or kn + dg - 1 <= 2)
    uq = allow_uq and rng.random() < 0.3
    return ('c', length, uq, 'plain' if rng.random() < 0.75 else 'fail')


def probe_compare(real, probe, history):
    """the property itself: the probe on the reused object equals the probe on a fresh object"""
    from pybaselines import Baseline, Baseline2D
    o = real.obj
    if o.x is None:
        return None
    if real.two_d:
        fresh = Real.__new__(Real)
        fresh.two_d, fresh.rng, fresh.ncol, fresh.given = True, np.random.default_rng(0), real.ncol, real.given
        fresh.obj = Baseline2D(o.x, o.z)
    else:
        fresh = Real.__new__(Real)
        fresh.two_d, fresh.rng, fresh.given = False, np.random.default_rng(0), real.given
        fresh.obj = Baseline(o.x)
    real.rng = np.random.default_rng(0)
    out_r, res_r = real.do(probe)
    out_f, res_f = fresh.do(probe)
    if out_r != out_f:
        return f'probe {op_str(probe)}: reused -> {out_r}, fresh -> {out_f}'
    if res_r is not None and res_f is not None:
        br, bf = np.asarray(res_r[0]), np.asarray(res_f[0])
        scale = max(1.0, float(np.max(np.abs(bf))))
        if br.shape != bf.shape or not np.allclose(br, bf, rtol=1e-8, atol=1e-8 * scale):
            return (f'probe {op_str(probe)}: baseline of the reused object differs from a fresh object by '
                    f'{float(np.max(np.abs(br - bf))):.3g}')
    return None


def one_history(ctx, rng, two_d, given, ops, probe):
    real = Real(two_d, given, rng)
    outs = []
    for op in ops:
        out, _ = real.do(op)
        outs.append(out + '|' + real.state())
    gs = 'N' if given is None else f'{given[0]},{int(given[1])}'
    line = f'c03.hist {int(two_d)} {gs} ' + (';'.join(op_str(o) for o in ops) if ops else '-')
    fail = probe_compare(real, probe, ops)
    return line, ';'.join(outs) if outs else '-', fail


def gen_history(ctx, rng):
    two_d = rng.random() < 0.35
    size = int(rng.choice([20, 25, 30])) if two_d else int(rng.choice([12, 20, 33]))
    g = rng.random()
    given = None if g < 0.2 else (size, bool(g < 0.85))
    L = int(rng.integers(1, 13 if not ctx.thorough else 41))
    ops = [random_op(rng, two_d, size) for _ in range(L)]
    probe = random_op(rng, two_d, size)
    while probe[0] == 's' or probe[1] != size or probe[3] == 'fail':
        probe = random_op(rng, two_d, size)
    return two_d, given, ops, probe


def correspond(ctx):
    rng = ctx.np_rng()
    dis = []
    for f in sorted(glob.glob(os.path.join(ROOT, 'corpus', 'C03_*.json'))):
        d = json.load(open(f))
        r = replay(ctx, d)
        ctx.case(('corpus', os.path.basename(f)))
        if r:
            dis.append(Disagreement('c03.corpus', d['signature'], f'corpus {os.path.basename(f)}: {r}', d['replay'], True))
    lines, reals, metas = [], [], []
    # directed histories first (orders with equal term counts, max_cross changes, order up/down, weighted/unweighted)
    directed = [
        (True, (25, True), [('c', 25, False, 'poly2', 2, 3, None, False, True)], ('c', 25, False, 'poly2', 3, 2, None, False, True)),
        (True, (25, True), [('c', 25, False, 'poly2', 1, 5, None, True, True)], ('c', 25, False, 'poly2', 2, 3, None, False, True)),
        (True, (25, True), [('c', 25, False, 'poly2', 2, 2, None, False, True)], ('c', 25, False, 'poly2', 2, 2, 1, False, True)),
        (True, (25, True), [('c', 25, False, 'poly2', 2, 2, 1, False, True)], ('c', 25, False, 'poly2', 2, 2, 0, False, True)),
        (False, (20, True), [('c', 20, False, 'poly', 6, False, True), ('c', 20, False, 'poly', 3, False, True)],
         ('c', 20, False, 'poly', 3, False, True)),
        (False, (20, True), [('c', 20, False, 'poly', 2, False, True), ('c', 20, False, 'poly', 5, True, True)],
         ('c', 20, False, 'poly', 5, False, True)),
        (False, (20, True), [('c', 20, False, 'poly', 4, False, False), ('c', 20, False, 'poly', 4, False, True),
                             ('c', 20, False, 'poly', 2, False, False)], ('c', 20, False, 'poly', 2, False, True)),
        (False, None, [('c', 21, False, 'plain')], ('c', 21, True, 'poly', 2, False, False)),
        (False, (20, True), [('c', 20, False, 'spline', 5, 3, False), ('c', 20, False, 'spline', 3, 5, False)],
         ('c', 20, False, 'spline', 5, 3, False)),
        # duplicate x: a call that raised 'x-values must be unique' must not change what later unique-x calls do
        (False, (20, False), [('c', 20, True, 'plain')], ('c', 20, True, 'plain')),
        (False, (20, False), [('c', 20, True, 'poly', 2, False, False), ('c', 20, False, 'plain')], ('c', 20, True, 'plain')),
        (False, (33, False), [('c', 33, True, 'plain'), ('c', 33, False, 'poly', 1, False, True)], ('c', 33, True, 'poly', 1, False, False)),
        (False, (20, False), [('c', 20, True, 'fail')], ('c', 20, True, 'plain')),
    ]
    cases = directed + [gen_history(ctx, rng) for _ in range(400 if ctx.thorough else 90)]
    for two_d, given, ops, probe in cases:
        try:
            line, real_out, fail = one_history(ctx, rng, two_d, given, ops, probe)
        except Exception as e:
            import traceback
            traceback.print_exc()
            dis.append(Disagreement('c03.harness', 'harness', f'harness error {type(e).__name__}: {e}', {'ops': [op_str(o) for o in ops]}))
            continue
        canon = line
        touching = sum(1 for o in ops if o[0] == 'c' and o[3] in ('poly', 'poly2', 'spline'))
        ctx.case(canon, nontrivial=touching >= 2,
                 sample={'object': '2-D' if two_d else '1-D', 'x': given, 'history': [op_str(o) for o in ops], 'probe': op_str(probe)}
                 if 3 <= len(ops) <= 5 else None)
        ctx.count('dim:' + ('2d' if two_d else '1d'))
        ctx.count('x:' + ('lazy' if given is None else ('unique' if given[1] else 'duplicate')))
        for o in ops:
            ctx.count('op:' + (o[0] if o[0] == 's' else o[3]))
        rep = {'two_d': two_d, 'given': given, 'ops': [list(o) for o in ops], 'probe': list(probe)}
        if fail:
            dis.append(Disagreement('c03.fresh', 'reuse:' + _sig(ops, probe), fail + ' after history ' + str([op_str(o) for o in ops]),
                                    rep, True))
        lines.append(line)
        reals.append(real_out)
        metas.append(rep)
    res = drive(lines)
    ctx.traces += len(lines)
    for ln, r, e, rep in zip(lines, res, reals, metas):
        if r != e:
            rs, es = r.split(';'), e.split(';')
            k = next((i for i in range(min(len(rs), len(es))) if rs[i] != es[i]), 0)
            dis.append(Disagreement('c03.state', 'state:' + _sig([tuple(o) for o in rep['ops']][:k + 1], None),
                                    f'after op {k} ({ln.split(" ")[3].split(";")[k]}) model says {rs[k] if k < len(rs) else "?"} '
                                    f'but the object shows {es[k] if k < len(es) else "?"}', dict(rep, first_diff=k), False))
    # object-history fuzzer (hist.py): ANY public methods in sequence on one long-lived fitter, the caller re-using its buffers, one
    # argument (or one axis of a pair) changed between two calls of the same method: every call must give what a fresh fitter gives
    from . import hist
    for spec, f in hist.campaign(ctx, rng, 'fresh', 60 if ctx.thorough else 25, 20 if ctx.thorough else 8):
        dis.append(Disagreement('c03.fuzz', f'fuzz:{"2d" if spec["two_d"] else "1d"}:{spec["steps"][f[0]]["method"] if f[0] < len(spec["steps"]) else "?"}',
                                f'history on one {"Baseline2D" if spec["two_d"] else "Baseline"} (created {"without x" if spec["mode"] == "none" else "with x"}): '
                                f'{hist.describe(spec)[:700]} — call {f[0] + 1}: {f[2]}', {'kind': 'fuzz', 'spec': spec}, True))
    return dis


def _sig(ops, probe):
    kinds = sorted({(o[3] if o[0] == 'c' else 's') for o in ops} | ({probe[3]} if probe else set()))
    return '+'.join(kinds)


def search(ctx, hints, lean_failed):
    rng = ctx.np_rng()
    found = []
    # replay the disagreeing histories with probes of every cache-touching kind, then fresh random ones
    pool = []
    for h in hints:
        rep = h.replay
        if isinstance(rep, dict) and 'ops' in rep:
            ops = [tuple(o) for o in rep['ops']]
            k = rep.get('first_diff', len(ops) - 1)
            size = next((o[1] for o in ops if o[0] == 'c'), 20)
            for cut in (k + 1, len(ops)):
                for o in ops[:cut][::-1]:
                    if o[0] == 'c' and o[3] in ('poly', 'poly2', 'spline'):
                        probe = ('c', size, False) + tuple(o[3:])
                        pool.append((rep['two_d'], tuple(rep['given']) if rep['given'] else None, ops[:cut], probe))
                        if o[3] in ('poly', 'poly2'):
                            pool.append((rep['two_d'], tuple(rep['given']) if rep['given'] else None, ops[:cut],
                                         probe[:-2] + (False, True)))
    pool += [gen_history(ctx, rng) for _ in range(300)]
    for two_d, given, ops, probe in pool:
        try:
            _, _, fail = one_history(ctx, rng, two_d, given, ops, probe)
        except Exception:
            continue
        ctx.case(('search', str(ops), str(probe)))
        if fail:
            found.append(Disagreement('c03.fresh', 'reuse:' + _sig(ops, probe), fail + ' after history ' + str([op_str(o) for o in ops]),
                                      {'two_d': two_d, 'given': given, 'ops': [list(o) for o in ops], 'probe': list(probe)}, True))
            if len(found) >= 3:
                break
    return found


def replay(ctx, data):
    r = data['replay']
    if r.get('kind') == 'fuzz':
        from . import hist
        f = [x for x in hist.run(r['spec'], want=('fresh',)) if x[1] == 'fresh']
        return f'call {f[0][0] + 1}: {f[0][2]}' if f else None
    rng = np.random.default_rng(0)
    given = tuple(r['given']) if r['given'] else None
    ops = [tuple(o) for o in r['ops']]
    _, _, fail = one_history(ctx, rng, r['two_d'], given, ops, tuple(r['probe']))
    return fail
