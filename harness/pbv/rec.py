"""Recording arrays: log every scalar index used on a (1-D or 2-D) array by Python-source kernels."""
import numpy as np


class Rec(np.ndarray):
    """ndarray subclass logging scalar/tuple-of-scalar indices (reads 'r', writes 'w') of the ROOT array.
    Slices produce plain ndarrays (their element accesses are not logged)."""

    def __new__(cls, arr, name, log):
        obj = np.array(arr).view(cls)
        obj._nm = name
        obj._log = log
        return obj

    def __array_finalize__(self, obj):
        self._nm = getattr(obj, '_nm', None)
        self._log = getattr(obj, '_log', None)

    @staticmethod
    def _scalar(idx):
        if isinstance(idx, (int, np.integer)):
            return (int(idx),)
        if isinstance(idx, tuple) and all(isinstance(i, (int, np.integer)) for i in idx):
            return tuple(int(i) for i in idx)
        return None

    def __getitem__(self, idx):
        s = self._scalar(idx)
        if s is not None and self._log is not None:
            self._log.append(('r', self._nm, s))
            return np.ndarray.__getitem__(self, idx)
        out = np.ndarray.__getitem__(self, idx)
        return np.asarray(out) if isinstance(out, np.ndarray) else out

    def __setitem__(self, idx, val):
        s = self._scalar(idx)
        if s is not None and self._log is not None:
            self._log.append(('w', self._nm, s))
        np.ndarray.__setitem__(self, idx, val)
