"""Flatten parameter dictionaries and classify per-point entries."""
import numpy as np

PERPOINT = {'weights', 'mask', 'alpha', 'signal', 'average_weights', 'constrained_weights',
            'baseline_rows', 'baseline_columns'}


def flatten(params, prefix=''):
    """dict path -> leaf; lists/tuples of arrays or dicts are expanded as key[i]"""
    out = {}
    for k, v in params.items():
        path = prefix + str(k)
        if isinstance(v, dict):
            out.update(flatten(v, path + '.'))
        elif isinstance(v, (list, tuple)) and v and all(isinstance(e, (np.ndarray, dict, list)) for e in v):
            for i, e in enumerate(v):
                if isinstance(e, dict):
                    out.update(flatten(e, f'{path}[{i}].'))
                else:
                    out.update(flatten({f'{path}[{i}]': e}))
        else:
            out[path] = v
    return out


def leaf_name(path):
    name = path.split('.')[-1]
    return name.split('[')[0]


def is_perpoint(path, v, shape):
    """a per-point entry: named like one and with trailing dims equal to the data shape
    (loess `coef`: one row of coefficients per point)"""
    if not isinstance(v, np.ndarray) or v.size == 0:
        return False
    nd = len(shape)
    nm = leaf_name(path)
    if nm == 'coef' and nd == 1 and v.ndim == 2 and v.shape[0] == shape[0] and '.' not in path:
        return True
    return nm in PERPOINT and v.ndim >= nd and tuple(v.shape[v.ndim - nd:]) == tuple(shape)


def split(params, shape, method=None):
    flat = flatten(params)
    pp = {k: (v.T if leaf_name(k) == 'coef' else v) for k, v in flat.items() if is_perpoint(k, v, shape)}
    if method == 'custom_bc':
        # the wrapped method runs on the truncated, sorted (x_fit, y_fit): its parameters follow x_fit, not the data
        pp = {k: v for k, v in pp.items() if not k.startswith('method_params.')}
    other = {k: v for k, v in flat.items() if k not in pp}
    return pp, other


def same_value(a, b, tol=1e-9):
    try:
        a1 = np.asarray(a, dtype=float)
        b1 = np.asarray(b, dtype=float)
    except (TypeError, ValueError):
        return repr(a) == repr(b)
    if a1.shape != b1.shape:
        return False
    scale = max(1.0, float(np.nanmax(np.abs(b1))) if b1.size else 1.0)
    return bool(np.allclose(a1, b1, rtol=tol, atol=tol * scale, equal_nan=True))
