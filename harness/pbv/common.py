"""Shared machinery: Lean driver, proof build + audit, evidence, known findings, replay files."""
import hashlib
import json
import contextlib
import os
import random
import re
import subprocess
import sys
import time
from fractions import Fraction

ROOT = os.environ.get('PBV_ROOT') or os.path.dirname(os.path.dirname(os.path.dirname(os.path.abspath(__file__))))
LEAN = os.path.join(ROOT, 'lean')
DRIVER = os.path.join(LEAN, '.lake', 'build', 'bin', 'pbdriver')
REPO = os.environ.get('PBV_REPO', '/repo')
ALLOWED_AXIOMS = {'propext', 'Classical.choice', 'Quot.sound'}
FORBIDDEN = re.compile(r'\b(sorry|admit|native_decide|bv_decide|implemented_by)\b|^\s*axiom\s|\bunsafe\s|maxHeartbeats\s+0\b')


# ----------------------------------------------------------------------------- numbers
def q(x):
    """Exact rational text of a Python int/float/Fraction (every finite double is a rational)."""
    if isinstance(x, Fraction):
        f = x
    elif isinstance(x, int):
        return str(x)
    else:
        f = Fraction(float(x))
    return str(f.numerator) if f.denominator == 1 else f'{f.numerator}/{f.denominator}'


def qs(xs):
    xs = list(xs)
    return ','.join(q(x) for x in xs) if xs else '-'


def ints(xs):
    xs = list(xs)
    return ','.join(str(int(x)) for x in xs) if xs else '-'


def parse_q(s):
    return Fraction(s)


def parse_qs(s):
    return [] if s in ('-', '') else [Fraction(t) for t in s.split(',')]


def parse_ints(s):
    return [] if s in ('-', '') else [int(t) for t in s.split(',')]


# ----------------------------------------------------------------------------- driver
class DriverError(Exception):
    pass


def drive(lines, timeout=600):
    """Pipe protocol lines to the compiled Lean model driver; one output line per input line."""
    lines = list(lines)
    if not lines:
        return []
    if not os.path.exists(DRIVER):
        raise DriverError('driver not built')
    data = '\n'.join(lines) + '\n'
    p = subprocess.run([DRIVER], input=data, capture_output=True, text=True, timeout=timeout)
    out = p.stdout.split('\n')
    if out and out[-1] == '':
        out.pop()
    if p.returncode != 0 or len(out) != len(lines):
        raise DriverError(f'driver rc={p.returncode} out={len(out)} in={len(lines)} err={p.stderr[-500:]}')
    return out


# ----------------------------------------------------------------------------- lean build and audit
def _strip_comments(src):
    # remove /- ... -/ (nested) and -- line comments
    out = []
    i, depth, n = 0, 0, len(src)
    while i < n:
        if src.startswith('/-', i):
            depth += 1
            i += 2
        elif depth and src.startswith('-/', i):
            depth -= 1
            i += 2
        elif depth:
            if src[i] == '\n':
                out.append('\n')
            i += 1
        elif src.startswith('--', i):
            while i < n and src[i] != '\n':
                i += 1
        else:
            out.append(src[i])
            i += 1
    return ''.join(out)


def lean_module_files(mods):
    return [os.path.join(LEAN, *m.split('.')) + '.lean' for m in mods]


def parse_theorems(path):
    """(namespace-qualified theorem names, number of `example`s) of a Lean file."""
    src = _strip_comments(open(path).read())
    ns = []
    names, examples = [], 0
    for line in src.split('\n'):
        m = re.match(r'\s*namespace\s+(\S+)', line)
        if m:
            ns.append(m.group(1))
            continue
        m = re.match(r'\s*end\s+(\S+)', line)
        if m and ns and ns[-1] == m.group(1):
            ns.pop()
            continue
        m = re.match(r'\s*(?:@\[[^\]]*\]\s*)?(?:private\s+|protected\s+)?(theorem|lemma)\s+(\S+)', line)
        if m:
            names.append('.'.join(ns + [m.group(2)]))
        if re.match(r'\s*example\b', line):
            examples += 1
    return names, examples


def import_closure(mod):
    """files of all PbVerif.* modules transitively imported by `mod` (including itself)"""
    seen, todo, out = set(), [mod], []
    while todo:
        m = todo.pop()
        if m in seen:
            continue
        seen.add(m)
        path = lean_module_files([m])[0]
        if not os.path.exists(path):
            continue
        out.append(path)
        for ln in _strip_comments(open(path).read()).split('\n'):
            mm = re.match(r'\s*(?:public\s+)?import\s+(PbVerif\.\S+)', ln)
            if mm:
                todo.append(mm.group(1))
    return out


class LeanResult:
    def __init__(self):
        self.ok = True
        self.obligations = 0
        self.discharged = 0
        self.theorems = []
        self.failed = []        # names / stages that do not check
        self.axioms = {}
        self.log = ''
        self.wall = 0.0
        self.checker_cmd = ''


@contextlib.contextmanager
def build_lock():
    """exclusive lock on the lake project while tables are regenerated and the project is built"""
    import fcntl
    fh = open(os.path.join(LEAN, '.pbv_build.lock'), 'w')
    try:
        fcntl.flock(fh, fcntl.LOCK_EX)
        yield
    finally:
        fcntl.flock(fh, fcntl.LOCK_UN)
        fh.close()


def _decl_at(path, line):
    """'(name)' of the theorem / definition enclosing a line of a Lean file of the project ('' when not found)"""
    try:
        src = open(path if os.path.isabs(path) else os.path.join(LEAN, path)).read().split('\n')
        for i in range(min(int(line), len(src)) - 1, -1, -1):
            m = re.match(r'\s*(?:@\[[^\]]*\]\s*)?(?:private\s+|protected\s+|noncomputable\s+)*(theorem|lemma|example|def|instance|abbrev)\b\s*(\S*)', src[i])
            if m:
                return f'({m.group(2) if m.group(1) != "example" and m.group(2) else "example@" + str(i + 1)})'
    except (OSError, ValueError):
        pass
    return ''


def lean_check(prop_mod, extra_mods=(), thorough=False, timeout=1500):
    """Build the property's theorem file (kernel re-checks everything it depends on that changed),
    re-elaborate the property file itself, audit sources and axioms."""
    t0 = time.time()
    res = LeanResult()
    mods = [prop_mod] + list(extra_mods)
    prop_file = lean_module_files([prop_mod])[0]
    res.checker_cmd = f'cd lean && lake build {prop_mod} pbdriver && lake env lean <axiom audit of every theorem in {prop_mod}>'
    if not os.path.exists(prop_file):
        res.ok = False
        res.failed.append(f'{prop_mod}:missing')
        return res
    names, examples = parse_theorems(prop_file)
    res.theorems = names
    res.obligations = len(names) + examples
    env = dict(os.environ)
    try:
        p = subprocess.run(['lake', 'build', prop_mod, 'pbdriver'], cwd=LEAN, capture_output=True, text=True,
                           timeout=timeout, env=env)
    except subprocess.TimeoutExpired:
        res.ok = False
        res.failed.append(f'{prop_mod}:build-timeout')
        return res
    res.log = (p.stdout + p.stderr)[-6000:]
    if p.returncode != 0:
        res.ok = False
        bad = set(re.findall(r'error: (\S+\.lean):(\d+)', p.stdout + p.stderr))
        res.failed.append(f'{prop_mod}:build-failed ' + ' '.join(f'{os.path.basename(f)}:{l}{_decl_at(f, l)}' for f, l in sorted(bad)[:6]))
        # which theorems of the property file are affected? try to elaborate the file for messages
        res.wall = time.time() - t0
        return res
    # source audit over every source file in the import closure of the property file
    for path in import_closure(prop_mod):
        src = _strip_comments(open(path).read())
        for ln in src.split('\n'):
            if FORBIDDEN.search(ln):
                res.ok = False
                res.failed.append(f'audit:{os.path.basename(path)}:{ln.strip()[:60]}')
    # axiom audit: one generated file printing the axioms of every theorem of the property file
    audit = os.path.join(LEAN, f'_audit_{prop_mod.split(".")[-1]}.lean')
    with open(audit, 'w') as fh:
        fh.write(f'import {prop_mod}\n')
        for nm in names:
            fh.write(f'#print axioms {nm}\n')
    try:
        p = subprocess.run(['lake', 'env', 'lean', audit], cwd=LEAN, capture_output=True, text=True, timeout=timeout)
    finally:
        try:
            os.remove(audit)
        except OSError:
            pass
    out = p.stdout + p.stderr
    if p.returncode != 0:
        res.ok = False
        res.failed.append(f'{prop_mod}:axiom-audit-failed {out[-300:]}')
    for m in re.finditer(r"'([^']+)' depends on axioms: \[([^\]]*)\]", out):
        res.axioms[m.group(1)] = [a.strip() for a in m.group(2).replace('\n', ' ').split(',') if a.strip()]
    for m in re.finditer(r"'([^']+)' does not depend on any axioms", out):
        res.axioms[m.group(1)] = []
    good = 0
    for nm in names:
        ax = res.axioms.get(nm)
        if ax is None:
            # name resolution may print a shorter/longer name; match by suffix
            cand = [k for k in res.axioms if k.endswith(nm) or nm.endswith(k)]
            ax = res.axioms[cand[0]] if cand else None
        if ax is None:
            res.ok = False
            res.failed.append(f'{nm}:no-axiom-report')
        elif not set(ax) <= ALLOWED_AXIOMS:
            res.ok = False
            res.failed.append(f'{nm}:axioms {ax}')
        else:
            good += 1
    res.discharged = good + examples if res.ok else good
    if thorough and res.ok:
        try:
            p = subprocess.run(['lake', 'env', 'leanchecker', prop_mod], cwd=LEAN, capture_output=True, text=True,
                               timeout=timeout)
            res.checker_cmd += f' && lake env leanchecker {prop_mod}'
            if p.returncode != 0:
                res.ok = False
                res.failed.append(f'{prop_mod}:leanchecker ' + (p.stdout + p.stderr)[-300:])
        except subprocess.TimeoutExpired:
            res.failed.append(f'{prop_mod}:leanchecker-timeout(skipped)')
    res.wall = time.time() - t0
    return res


# ----------------------------------------------------------------------------- results
class Disagreement:
    """A model/implementation disagreement or a direct property failure on the real code."""

    def __init__(self, stage, signature, detail, replay, property_level=False):
        self.stage = stage                  # which correspondence stage / theorem
        self.signature = signature          # stable id used for known-findings matching
        self.detail = detail                # human readable
        self.replay = replay                # json-able dict to re-execute
        self.property_level = property_level  # True: the real code violates the property on this input


class Ctx:
    def __init__(self, prop, tier, seed):
        self.prop = prop
        self.tier = tier
        self.seed = seed
        self.rng = random.Random(f'{prop}-{seed}')
        self.t0 = time.time()
        self.evaluations = 0
        self.nontrivial = set()
        self.samples = []
        self.hist = {}
        self.traces = 0
        self.notes = []

    @property
    def thorough(self):
        return self.tier == 'thorough'

    def np_rng(self):
        import numpy as np
        return np.random.default_rng(self.rng.getrandbits(63))

    def count(self, key, n=1):
        self.hist[key] = self.hist.get(key, 0) + n

    def case(self, canon, nontrivial=True, sample=None):
        self.evaluations += 1
        if nontrivial:
            self.nontrivial.add(hashlib.sha1(repr(canon).encode()).hexdigest()[:16])
        if sample is not None and len(self.samples) < 6:
            self.samples.append(sample)


def load_findings():
    path = os.path.join(ROOT, 'known_findings.json')
    if not os.path.exists(path):
        return {'known': [], 'fixed': []}
    return json.load(open(path))


def write_replay(prop, d):
    os.makedirs(os.path.join(ROOT, 'replays'), exist_ok=True)
    body = json.dumps(d, indent=1, sort_keys=True, default=str)
    h = hashlib.sha1(body.encode()).hexdigest()[:10]
    path = os.path.join(ROOT, 'replays', f'{prop}_{h}.json')
    with open(path, 'w') as fh:
        fh.write(body)
    return path


def write_evidence(ctx, lean, assumptions, violations, rule, extra=None):
    os.makedirs(os.path.join(ROOT, 'evidence'), exist_ok=True)
    tb = ['Lean 4.33.0 kernel', 'axioms: ' + ', '.join(sorted({a for v in lean.axioms.values() for a in v}) or ['none'])]
    tb += assumptions
    cov = {
        'obligations': max(lean.obligations, 1),
        'discharged': lean.discharged,
        'checker_cmd': lean.checker_cmd or 'lake build',
        'trusted_base': tb,
        'theorems': lean.theorems,
        'unchecked': lean.failed,
        'evaluations': ctx.evaluations,
        'distinct_nontrivial': len(ctx.nontrivial),
        'rule': rule,
        'samples': ctx.samples or ['(none generated)'],
        'traces_validated_against_impl': ctx.traces,
        'input_distribution': dict(sorted(ctx.hist.items())),
        'notes': ctx.notes,
    }
    if extra:
        cov.update(extra)
    ev = {
        'property_id': ctx.prop,
        'tier': ctx.tier,
        'seed': ctx.seed,
        'level': 'proof',
        'coverage': cov,
        'assumptions': assumptions,
        'wall_s': round(time.time() - ctx.t0, 2),
        'violations': violations,
    }
    with open(os.path.join(ROOT, 'evidence', f'{ctx.prop}.json'), 'w') as fh:
        json.dump(ev, fh, indent=1, default=str)


def log(*a):
    print(*a, flush=True)
