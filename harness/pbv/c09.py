"""C09 — each reweighting step follows the documented rule and the stop rule is honest."""
import glob
import json
import os
import struct

import numpy as np

from . import methods as M
from . import traj
from . import looptbl
from .common import Disagreement, drive, ROOT

PROP_MODULE = 'PbVerif.Props.C09'
GEN_TABLES = ('WeightExprs', 'Loops')      # a rule of _weighting.py / a loop that leaves the translated fragment is reported
RULE = ('cases = (rule, residual vector kind in {mixed, all positive, all negative, ties at zero, < 2 negatives}, size 3..2000, '
        'magnitude 1e-100..1e100, scheme parameters, iteration 1..200) compared with the Lean Float instance of the rule, plus direct '
        'checks of finiteness / range / monotonicity on the real output; hosts: trajectory replay of (max_iter, tol) grids through the '
        'Lean loop skeleton on noisy and on noise-free data (documented early exit) and the pairing weights = rule(returned baseline) at '
        'exhaustion; the loops as translated from the source (Gen/Loops): every row with an early-exit flag replayed on the noise-free sets, '
        'a sample of the others on noisy data, against the real call observed by LoopSpy; non-trivial = at least two negative residuals; distinct by canonical tuple; source expressions: every weight '
        'expression translated from the text of _weighting.py on this run (Gen/WeightExprs) is evaluated by the driver (c09.wexpr) on the '
        'same residual vectors, with the step statistics computed by the real helpers, and must reproduce the real function to a few ulp')
ASSUMPTIONS = [
    'libm exp / scipy expit / erf: the Lean Float instance uses the C library exp; agreement is demanded to 1e-9 absolute on weights in [0, 1]',
    'step statistics (mean, ddof-1 std, sum of the negative residuals) are computed by naive Float summation in the model (numpy uses pairwise summation)',
    'asls/psalsa/derpsalsa are antitone only for p <= 1 - p (proved necessary); the quantile weight is positive and bounded, not confined to [0, 1] (documented formula)',
    'brpls monotonicity is not proved (no erf in Mathlib); its range is proved for any erf value in [-1, 1]',
    'Route A (gen_<rule>_eq_model, src_*): the translator harness/pbv/translate_weights.py reads the final weight expression of ten rules '
    '(brpls excepted) from the source text on every run; it is trusted only as far as c09.wexpr shows the translated expression computes what '
    'the real function computes; the early-exit guard, _safe_std and the reductions (mean, sum, max over the negative residuals) are named '
    'inputs of the expression, not part of it',
]


def bits(x):
    return str(struct.unpack('<Q', struct.pack('<d', float(x)))[0])


def bl(a):
    a = np.asarray(a, dtype=float).ravel()
    return ','.join(bits(v) for v in a) if a.size else '-'


def dec(s):
    return np.array([struct.unpack('<d', struct.pack('<Q', int(t)))[0] for t in s.split(',')]) if s != '-' else np.array([])


def residuals(rng, n, kind, scale):
    y = rng.normal(0, 1, n) * scale
    b = rng.normal(0, 0.5, n) * scale
    if kind == 'all_positive':
        b = y - np.abs(rng.normal(0, 1, n)) * scale - scale * 1e-3
    elif kind == 'all_negative':
        b = y + np.abs(rng.normal(0, 1, n)) * scale + scale * 1e-3
    elif kind == 'one_negative':
        b = y - np.abs(rng.normal(0, 1, n)) * scale - scale * 1e-3
        b[int(rng.integers(0, n))] += 5 * scale
    elif kind == 'ties_zero':
        idx = rng.random(n) < 0.3
        b[idx] = y[idx]
    return y, b


def antitone(r, w, tol=1e-12):
    o = np.argsort(r, kind='mergesort')
    ws = np.asarray(w)[o]
    return bool(np.all(np.diff(ws) <= tol * (1 + np.abs(ws[:-1]))))


def rule_level(ctx, rng, dis):
    from pybaselines import _weighting as W
    from pybaselines.utils import _MIN_FLOAT as MINF
    logmax = np.log(np.finfo(float).max)
    Mclip = logmax - np.spacing(logmax)
    kinds = ['mixed', 'all_positive', 'all_negative', 'one_negative', 'ties_zero']
    lines, meta = [], []
    reps = 60 if ctx.thorough else 14
    for trial in range(reps):
        for kind in kinds:
            n = int(rng.choice([3, 4, 7, 20, 101] + ([2000] if ctx.thorough else [500])))
            scale = 10.0 ** int(rng.integers(-100, 101)) if rng.random() < 0.4 else 10.0 ** int(rng.integers(-3, 4))
            y, b = residuals(rng, n, kind, scale)
            r = y - b
            it = int(rng.integers(1, 201))
            p = float(rng.choice([0.001, 0.01, 0.1, 0.5]))
            k = float(rng.choice([0.5, 2.0, 10.0])) * scale
            coef = float(rng.choice([0.5, 2.0]))
            q = float(rng.choice([0.05, 0.5, 0.9]))
            eps = (np.abs(b).max() * 1e-6) ** 2
            pw = np.round(rng.uniform(0, 1, n) * 16) / 16
            with np.errstate(all='ignore'):
                cases = [
                    ('asls', f'c09.asls {bits(p)} {bl(r)}', (W._asls(y, b, p), False), dict(p=p)),
                    ('arpls', f'c09.arpls {bl(r)}', W._arpls(y, b), {}),
                    ('drpls', f'c09.drpls {it} {bl(r)}', W._drpls(y, b, it), dict(iteration=it)),
                    ('lsrpls', f'c09.lsrpls {it} {bl(r)}', W._lsrpls(y, b, it), dict(iteration=it)),
                    ('iarpls', f'c09.iarpls {it} {bl(r)}', W._iarpls(y, b, it), dict(iteration=it)),
                    ('aspls', f'c09.aspls {bits(coef)} {bl(r)}', (lambda o: (o[0], o[2]))(W._aspls(y, b, coef)), dict(asymmetric_coef=coef)),
                    ('airpls', f'c09.airpls {it} 1 {bits(Mclip)} {bl(r)}', (lambda o: (o[0], o[2]))(W._airpls(y, b, it, True)), dict(iteration=it)),
                    ('airpls_raw', f'c09.airpls {it} 0 {bits(Mclip)} {bl(r)}', (lambda o: (o[0], o[2]))(W._airpls(y, b, it, False)), dict(iteration=it)),
                    ('psalsa', f'c09.psalsa {bits(p)} {bits(k)} {bl(r)}', (W._psalsa(y, b, p, k, n), False), dict(p=p, k=k)),
                    ('derpsalsa', f'c09.derpsalsa {bits(p)} {bits(k)} {bl(pw)} {bl(r)}', (W._derpsalsa(y, b, p, k, n, pw), False), dict(p=p, k=k)),
                    ('quantile', f'c09.quantile {bits(q)} {bits(max(eps, MINF))} {bl(r)}', (W._quantile(y, b, q), False), dict(quantile=q)),
                ]
            for nm, ln, (w, ex), prm in cases:
                lines.append(ln)
                meta.append((nm, kind, n, scale, prm, np.asarray(w, dtype=float), bool(ex), r, pw if nm == 'derpsalsa' else None, y, b))
                ctx.case((nm, kind, n, scale, tuple(sorted(prm.items())), trial), nontrivial=int(np.sum(r < 0)) >= 2,
                         sample={'rule': nm, 'residuals': kind, 'N': n, 'scale': scale, **prm} if len(ctx.samples) < 4 and kind == 'mixed' else None)
                ctx.count('rule:' + nm)
                ctx.count('residuals:' + kind)
    outs = drive(lines, timeout=1200)
    ctx.traces += len(lines)
    for ln, o, (nm, kind, n, scale, prm, w, ex, r, pw, y, b) in zip(lines, outs, meta):
        e, ws = o.split('|')
        wm = dec(ws)
        rep = {'rule': nm, 'kind': kind, 'y': y.tolist(), 'baseline': b.tolist(), 'params': prm}
        # --- direct properties of the real output (the statement itself)
        probs = []
        if not ex:
            if not np.all(np.isfinite(w)):
                probs.append('non-finite weights')
            elif nm not in ('airpls_raw', 'quantile') and (np.any(w < 0) or np.any(w > 1)):
                probs.append(f'weights outside [0, 1] (min {w.min():.3g}, max {w.max():.3g})')
            elif nm == 'quantile' and np.any(w <= 0):
                probs.append('quantile weights not positive')
            else:
                mono_ok = True
                if nm in ('asls', 'psalsa') and prm['p'] > 0.5:
                    mono_ok = True
                elif nm == 'derpsalsa':
                    # antitone for points sharing the same partial weight
                    for v in np.unique(pw):
                        sel = pw == v
                        if sel.sum() > 1 and prm['p'] <= 0.5 and not antitone(r[sel], w[sel]):
                            mono_ok = False
                elif nm == 'quantile':
                    mono_ok = True
                else:
                    mono_ok = antitone(r, w)
                if not mono_ok:
                    probs.append('weights increase as the residual increases')
        for pr in probs:
            dis.append(Disagreement('c09.rule', f'rule:{nm}:property', f'_{nm.replace("_raw", "")} ({kind} residuals, N={n}, scale={scale:g}, {prm}): {pr}', rep, True))
        # --- agreement with the independent evaluation of the documented formula (Lean Float instance)
        if (e == '1') != ex:
            dis.append(Disagreement('c09.rule', f'rule:{nm}:exit', f'_{nm.replace("_raw", "")} ({kind}, N={n}): early-exit flag {ex}, documented rule gives {e == "1"} '
                                    f'({int(np.sum(r < 0))} negative residuals)', rep, True))
            continue
        if wm.shape != w.shape:
            dis.append(Disagreement('c09.rule', f'rule:{nm}:shape', f'_{nm}: shape {w.shape} vs model {wm.shape}', rep, True))
            continue
        with np.errstate(all='ignore'):
            if nm in ('airpls_raw', 'quantile'):
                ok = np.allclose(w, wm, rtol=1e-8, atol=0, equal_nan=True)
            else:
                ok = np.allclose(w, wm, rtol=0, atol=1e-9, equal_nan=True)
            zero_ok = np.array_equal(w == 0, wm == 0) or nm not in ('airpls', 'airpls_raw')
        if not ok or not zero_ok:
            worst = float(np.nanmax(np.abs(w - wm))) if w.size else 0.0
            dis.append(Disagreement('c09.rule', f'rule:{nm}:formula', f'_{nm.replace("_raw", "")} ({kind} residuals, N={n}, scale={scale:g}, {prm}): weights differ '
                                    f'from the documented formula by {worst:.3g}', rep, True))
    # brpls with erf as an oracle column (moderate magnitudes; clipping branches inactive)
    from scipy.special import erf
    lines, meta = [], []
    for trial in range(20 if ctx.thorough else 6):
        n = int(rng.choice([5, 20, 101]))
        y, b = residuals(rng, n, 'mixed', 1.0)
        beta = float(rng.choice([0.1, 0.5, 0.7]))
        r = y - b
        neg, pos = r[r < 0], r[r > 0]
        if neg.size < 2 or pos.size < 2:
            continue
        w, ex = W._brpls(y, b, beta)
        mean = pos.mean()
        sigma = np.sqrt(neg.dot(neg) / neg.size)
        u = r / (sigma * np.sqrt(2)) - sigma / (mean * np.sqrt(2))
        mult = beta * np.sqrt(0.5 * np.pi) / max(1 - beta, np.finfo(float).tiny) * (sigma / mean)
        if np.abs(u).max() > 20:
            continue
        lines.append(f'c09.brpls {bits(mult)} {bl(u)} {bl(erf(u))}')
        meta.append((w, r, beta))
        ctx.case(('brpls', n, beta, trial), nontrivial=True)
        ctx.count('rule:brpls')
    for ln, o, (w, r, beta) in zip(lines, drive(lines), meta):
        wm = dec(o)
        if np.any(w < 0) or np.any(w > 1) or not np.all(np.isfinite(w)) or not antitone(r, w, 1e-9):
            dis.append(Disagreement('c09.rule', 'rule:brpls:property', f'_brpls (beta={beta}): weights not finite / in [0,1] / antitone',
                                    {'rule': 'brpls', 'beta': beta}, True))
        if not np.allclose(w, wm, rtol=0, atol=1e-9):
            dis.append(Disagreement('c09.rule', 'rule:brpls:formula', f'_brpls (beta={beta}): weights differ from the documented formula by '
                                    f'{float(np.max(np.abs(w - wm))):.3g}', {'rule': 'brpls', 'beta': beta}, True))


def wexpr_level(ctx, rng, dis):
    """the tie of the TRANSLATOR (Route A): the expression parsed from the source text of each rule, evaluated by the driver in Float
    at the statistics computed by the real helpers, must reproduce what the real function returns on the same residuals.  The
    translated expression performs the source's operations in the source's order, so the agreement demanded is a few ulp (libm exp /
    expit / pow differences only), far tighter than the effect of any edited constant."""
    from pybaselines import _weighting as W
    from pybaselines.utils import _MIN_FLOAT as MINF
    from . import translate_weights as TW
    try:
        res = TW.translate_source(open(TW.source_path()).read())
    except OSError:
        return
    logmax = np.log(np.finfo(float).max)
    Mclip = logmax - np.spacing(logmax)
    # boundary-heavy: exactly two negative residuals (the guard's edge), two EQUAL negatives (std = 0 -> _MIN_FLOAT), ties at zero
    kinds = ['mixed', 'all_negative', 'ties_zero', 'two_negative', 'equal_negatives', 'all_positive']
    lines, meta = [], []
    reps = 40 if ctx.thorough else 8
    for trial in range(reps):
        for kind in kinds:
            n = int(rng.choice([3, 4, 7, 20, 101] + ([2000] if ctx.thorough else [300])))
            scale = 10.0 ** int(rng.integers(-100, 101)) if rng.random() < 0.4 else 10.0 ** int(rng.integers(-3, 4))
            if kind in ('two_negative', 'equal_negatives'):
                y, b = residuals(rng, n, 'all_positive', scale)
                idx = rng.choice(n, 2, replace=False)
                if kind == 'two_negative':
                    b[idx] = y[idx] + (np.abs(rng.normal(0, 1, 2)) + 1e-3) * scale
                else:
                    y[idx] = 0.0
                    b[idx] = float(rng.choice([0.5, 1.0, 3.0])) * scale
            else:
                y, b = residuals(rng, n, kind, scale)
            r = y - b
            neg = r[r < 0]
            it = int(rng.choice([1, 2, 3, 10, 49, 50, 51, 99, 100, 101, 200]))
            p = float(rng.choice([0.001, 0.01, 0.1, 0.5]))
            k = float(rng.choice([0.5, 2.0, 10.0])) * scale
            coef = float(rng.choice([0.5, 2.0]))
            q = float(rng.choice([0.05, 0.5, 0.9]))
            eps = float(rng.choice([0.0, (np.abs(b).max() * 1e-6) ** 2]))
            pw = np.round(rng.uniform(0, 1, n) * 16) / 16
            with np.errstate(all='ignore'):
                raw = W._airpls(y, b, it, False)
                # the named inputs of the translated expressions: arguments, machine constants, and the step statistics computed by
                # the real helpers on the negative residuals (the expression takes them as inputs, exactly as the hand model does)
                scal = {'p': p, 'k': k, 'asymmetric_coef': coef, 'quantile': q, 'eps': eps, 'minFloat': MINF, 'clipMax': Mclip}
                if neg.size >= 2:
                    scal.update(std=W._safe_std(neg, ddof=1), meanNeg=np.mean(neg), sumNeg=neg.sum(), maxNegW=raw[0][r < 0].max())
                real = {
                    'asls': lambda: (W._asls(y, b, p), False),
                    'airpls': lambda: (raw[0], raw[2]),
                    'airplsNorm': lambda: (lambda o: (o[0], o[2]))(W._airpls(y, b, it, True)),
                    'arpls': lambda: W._arpls(y, b),
                    'drpls': lambda: W._drpls(y, b, it),
                    'iarpls': lambda: W._iarpls(y, b, it),
                    'aspls': lambda: (lambda o: (o[0], o[2]))(W._aspls(y, b, coef)),
                    'psalsa': lambda: (W._psalsa(y, b, p, k, n), False),
                    'derpsalsa': lambda: (W._derpsalsa(y, b, p, k, n, pw), False),
                    'lsrpls': lambda: W._lsrpls(y, b, it),
                    'quantile': lambda: (W._quantile(y, b, q, eps), False),
                }
                for nm, fn in real.items():
                    e = res.get(nm, (None,))[0]
                    if e is None:
                        continue            # reported through GEN_TABLES
                    w, ex = fn()
                    if ex:
                        ctx.count('wexpr:early-exit(not an expression case)')
                        continue
                    vs, ns = TW.variables(e)
                    missing = [v for v in vs if v not in scal and v != 'partial_weights'] + [v for v in ns if v != 'iteration']
                    if missing:
                        dis.append(Disagreement('c09.wexpr', f'wexpr:{nm}:inputs', f'the expression translated from _{nm} reads inputs the harness '
                                                f'cannot supply: {missing}', {'rule': nm}, False))
                        continue
                    sc = ';'.join(f'{v}={bits(scal[v])}' for v in sorted(vs) if v != 'partial_weights') or '-'
                    nn = ';'.join(f'{v}={it}' for v in sorted(ns)) or '-'
                    pv = f'partial_weights={bl(pw)}' if 'partial_weights' in vs else '-'
                    lines.append(f'c09.wexpr {nm} {sc} {nn} {pv} {bl(r)}')
                    prm = dict(iteration=it, p=p, k=k, asymmetric_coef=coef, quantile=q, eps=eps)
                    meta.append((nm, kind, n, scale, prm, np.asarray(w, dtype=float), y, b))
                    ctx.case(('wexpr', nm, kind, n, scale, it, p, k, coef, q, eps, trial), nontrivial=True,
                             sample={'source expression': nm, 'residuals': kind, 'N': n, 'scale': scale, 'iteration': it}
                             if kind == 'mixed' and nm == 'drpls' and trial == 0 else None)
                    ctx.count('wexpr:' + nm)
    outs = drive(lines, timeout=1200)
    ctx.traces += len(lines)
    worst = {}
    for ln, o, (nm, kind, n, scale, prm, w, y, b) in zip(lines, outs, meta):
        rep = {'rule': nm, 'kind': kind, 'y': y.tolist(), 'baseline': b.tolist(), 'params': prm, 'line': ln if n <= 20 else None}
        if o == 'bad-op':
            dis.append(Disagreement('c09.wexpr', f'wexpr:{nm}:bad-op', f'driver refused c09.wexpr {nm} (an input of the translated expression was '
                                    f'not supplied, or the rule is not in Gen.Src.table)', rep, False))
            continue
        wm = dec(o)
        with np.errstate(all='ignore'):
            # weights in [0, 1]: absolute; airpls raw / quantile (unbounded): relative.  Both sides perform the same operations in the same
            # order; what differs is libm (exp, pow) against numpy / scipy (exp, expit, integer power), a few ulp of the ARGUMENT's image
            if nm in ('airpls', 'quantile'):
                err = np.abs(w - wm) / np.maximum(np.abs(w), np.finfo(float).tiny)
            else:
                err = np.abs(w - wm)
            err = np.where((w == wm) | (np.isnan(w) & np.isnan(wm)), 0.0, err)
        e = float(np.max(err)) if err.size else 0.0
        worst[nm] = max(worst.get(nm, 0.0), e)
        tol = 1e-12 if nm in ('airpls', 'airplsNorm') else 1e-13
        if wm.shape != w.shape or not (e <= tol):
            dis.append(Disagreement('c09.wexpr', f'wexpr:{nm}:value', f'the expression translated from the source of _{nm.replace("Norm", "")} '
                                    f'({kind} residuals, N={n}, scale={scale:g}, {prm}) differs from what the function returns by {e:.3g} '
                                    f'(tolerance {tol:g})', rep, False))
    ctx.notes.append('wexpr worst deviation per rule: ' + ', '.join(f'{k} {v:.2g}' for k, v in sorted(worst.items())))


NO_RULE_PER_STEP = {'mixture_model'}      # its iterations are expectation-maximisation steps, not rule calls


def noise_free_sets(two_d):
    if two_d:
        X, Z = np.meshgrid(np.linspace(0, 1, 14), np.linspace(0, 1, 11), indexing='ij')
        return {'gauss': 9 * np.exp(-(((X - 0.5) / 0.15) ** 2 + ((Z - 0.5) / 0.15) ** 2)),
                'sharp': 3 + X + 20 * np.exp(-(((X - 0.5) / 0.05) ** 2 + ((Z - 0.5) / 0.05) ** 2)),
                'plane': 3 + X + 2 * Z}
    t = np.linspace(0, 1, 60)
    return {'gauss': 9 * np.exp(-((t - 0.5) / 0.1) ** 2), 'sharp': 3 + t + 20 * np.exp(-((t - 0.5) / 0.02) ** 2), 'line': 3 + 2 * t}


def host_level(ctx, rng, dis):
    for two_d in (False, True):
        its = traj.iterative_methods(two_d)
        dim = '2d' if two_d else '1d'
        for name, e in its.items():
            if two_d:
                x, z, y = M.make_data2d(rng, 14, 11)
            else:
                x, y = M.make_data(rng, 60)
                z = None
            # (1) full (max_iter, tol) grid replay on noisy data
            if ctx.thorough or rng.random() < 0.5:
                for kind, detail, meta in traj.replay_method(ctx, two_d, name, e, x, z, y, K=8, count=name not in NO_RULE_PER_STEP):
                    if kind == 'raises':
                        ctx.count('host:raised')
                        continue
                    dis.append(Disagreement('c09.stop', f'{dim}:{name}:stop', detail + ' [noisy data]', dict(meta, method=name, two_d=two_d, data='noisy'), True))
                ctx.case(('replay', two_d, name, 'noisy'), nontrivial=True,
                         sample={'host': ('2-D ' if two_d else '') + name, 'data': 'noisy', 'max_iter_of_stream': 8} if len(ctx.samples) < 5 else None)
                ctx.count('host:noisy')
            # (2) hunt for the documented early exit on noise-free data sets and smoothing strengths; one run each,
            #     the full grid only where the early exit actually happens
            if name in NO_RULE_PER_STEP:
                continue
            hit = False
            for dn, yy in noise_free_sets(two_d).items():
                for lam in (None, 0.1, 100.0):
                    if lam is not None and 'lam' not in e['params']:
                        continue
                    extra = {} if lam is None else {'lam': lam}
                    K = 60
                    ci = traj.count_invariant(two_d, name, e, x, z, yy, K, 0, extra)
                    ctx.case(('early-hunt', two_d, name, dn, lam), nontrivial=True)
                    ctx.count('host:noise_free')
                    if ci:
                        dis.append(Disagreement('c09.stop', f'{dim}:{name}:stop', f'{("2d." if two_d else "") + name}(max_iter={K}, tol=0, {extra}) on noise-free '
                                                f'"{dn}" data: {ci}', {'method': name, 'two_d': two_d, 'data': dn, 'extra': extra, 'max_iter': K}, True))
                    if not hit:
                        try:
                            b, p = traj.run_method(two_d, name, e, x, z, yy, K, 0, extra)
                            th = np.asarray(p.get('tol_history', []))
                            code = traj.load_golden().get(('2d.' if two_d else '') + name)
                            if th.ndim == 1 and code and len(th) < traj.budget_of(code, K):
                                hit = True
                                ctx.count('host:early-exit-reached')
                                for kind, detail, meta in traj.replay_method(ctx, two_d, name, e, x, z, yy, K=K, extra=extra, count=True):
                                    if kind != 'raises':
                                        dis.append(Disagreement('c09.stop', f'{dim}:{name}:stop', detail + f' [noise-free {dn} data, {extra}]',
                                                                dict(meta, method=name, two_d=two_d, data=dn, extra=extra), True))
                        except Exception:
                            pass
    # pairing at exhaustion: returned weights = rule(returned baseline)  (asls / psalsa hosts: rules without iteration index)
    from pybaselines import Baseline, Baseline2D
    lines, meta = [], []
    for two_d, names in ((False, ['asls', 'pspline_asls', 'psalsa', 'pspline_psalsa']), (True, ['asls', 'pspline_asls', 'psalsa'])):
        for name in names:
            if two_d:
                x, z, y = M.make_data2d(rng, 14, 11)
                fit = Baseline2D(x, z)
                kw = {'num_knots': (6, 5)} if 'pspline' in name else {}
            else:
                x, y = M.make_data(rng, 60)
                fit = Baseline(x)
                kw = {'num_knots': 12} if 'pspline' in name else {}
            p = 0.05
            mi = int(rng.integers(0, 4))
            try:
                b, prm = getattr(fit, name)(y, p=p, max_iter=mi, tol=0, **kw)
            except Exception:
                continue
            r = (y - b).ravel()
            if 'psalsa' in name:
                k = prm.get('k', None)
                k = np.std(y) / 10 if k is None else k
                lines.append(f'c09.psalsa {bits(p)} {bits(k)} {bl(r)}')
            else:
                lines.append(f'c09.asls {bits(p)} {bl(r)}')
            meta.append((two_d, name, mi, np.asarray(prm['weights'], float).ravel()))
            ctx.case(('pairing', two_d, name, mi), nontrivial=True)
    for ln, o, (two_d, name, mi, w) in zip(lines, drive(lines), meta):
        wm = dec(o.split('|')[1])
        if not np.allclose(w, wm, rtol=0, atol=1e-9):
            dis.append(Disagreement('c09.pairing', f'{"2d" if two_d else "1d"}:{name}:pairing', f'{name} (max_iter={mi}, tol=0, budget exhausted): the returned '
                                    f'weights are not the rule applied to the returned baseline', {'method': name, 'two_d': two_d, 'max_iter': mi}, True))


def table_level(ctx, rng, dis):
    """the stop rule of each loop AS TRANSLATED from the source (Gen/Loops, theorem `loops_stop_first`): every row with an early-exit
    flag is replayed on the noise-free data sets that provoke the exit, a sample of the others on noisy data (C01 replays them all)"""
    dis += looptbl.table_check(ctx, traj.load_golden_file())
    for key, func, kind, r in looptbl.rows():
        if kind != 'single':
            continue
        two_d = key.startswith('2d.')
        if any(ev[0] == 'brk' and ev[1] == 'flag' for ev in r['body']):
            x, z, _ = looptbl._data(rng, two_d)
            for dn, yy in noise_free_sets(two_d).items():
                dis += looptbl.replay_single(ctx, key, func, r, rng, K=40, data=(x, z, yy), note=f' [noise-free {dn} data]')
        elif ctx.thorough or rng.random() < 0.35:
            dis += looptbl.replay_single(ctx, key, func, r, rng, K=8)


def correspond(ctx):
    rng = ctx.np_rng()
    dis = []
    for f in sorted(glob.glob(os.path.join(ROOT, 'corpus', 'C09_*.json'))):
        d = json.load(open(f))
        r = replay(ctx, d)
        ctx.case(('corpus', os.path.basename(f)))
        if r:
            dis.append(Disagreement('c09.corpus', d['signature'], f'corpus {os.path.basename(f)}: {r}', d['replay'], True))
    rule_level(ctx, rng, dis)
    wexpr_level(ctx, rng, dis)
    host_level(ctx, rng, dis)
    # object-history fuzzer (hist.py) over the reweighting hosts: on a long-lived fitter whose caller re-uses its data buffer, the weights
    # a call returns must be the ones an independent evaluation (the same call on a fresh fitter) gives
    from . import hist, methods as M9
    pool1 = [n for n, e in M9.registry(False).items() if 'weights' in e['params'] and e['module'] in ('whittaker', 'spline', 'morphological')]
    pool2 = [n for n, e in M9.registry(True).items() if 'weights' in e['params'] and e['module'] in ('whittaker', 'spline')]
    for spec, f in hist.campaign(ctx, ctx.np_rng(), 'fresh', 50 if ctx.thorough else 18, 16 if ctx.thorough else 5, pool1=pool1, pool2=pool2):
        dis.append(Disagreement('c09.fuzz', f'fuzz:{spec["steps"][-1]["method"]}',
                                f'history on one fitter: {hist.describe(spec)[:700]} — call {f[0] + 1}: {f[2]} (the weights / baseline are not what an independent '
                                f'evaluation of the documented rule on a fresh fitter gives)', {'kind': 'fuzz', 'spec': spec}, True))
    table_level(ctx, rng, dis)
    return dis


def search(ctx, hints, lean_failed):
    sub = type(ctx)(ctx.prop, 'thorough', ctx.seed + 1)
    return [d for d in correspond(sub) if d.property_level]


def replay(ctx, data):
    r = data.get('replay', {})
    if r.get('kind') == 'fuzz':
        from . import hist
        f = [x for x in hist.run(r['spec'], want=('fresh',)) if x[1] == 'fresh']
        return f'call {f[0][0] + 1}: {f[0][2]}' if f else None
    if r.get('kind') == 'looptbl':
        return looptbl.replay(ctx, data['replay'])
    return None
