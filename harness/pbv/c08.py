"""C08 — polynomial baselines are least-squares polynomials with usable coefficients."""
import glob
import json
import os
from fractions import Fraction

import numpy as np

from .common import Disagreement, drive, q, qs, parse_qs, ROOT

PROP_MODULE = 'PbVerif.Props.C08'
RULE = ('2-D max_cross columns: the real _PolyHelper2D Vandermonde matrix (fresh helper and one re-used through _setup_polynomial) for ALL order pairs '
        '(a, b) <= 4 x max_cross in {None, 0 .. max(a, b) + 1} on an exact dyadic grid and a random grid: zero pattern of the columns == the '
        'kept-column flags of the Lean transcription of the loop (exact), kept columns == x^i z^j with (i, j) = divmod(column, b + 1), one row '
        'times an integer vector == polyval2d of the masked coefficient matrix (Lean); the allowed set used below is the Lean definition; '
        '2-D max_cross: for every 2-D polynomial method, order pairs (equal and UNEQUAL, 0..4) x every max_cross from 0 to beyond the larger '
        'order and None, against the documented monomial set {x^i z^j : i = 0 or j = 0 or max(i, j) <= max_cross} written down '
        'independently of the code: returned coefficients of excluded monomials are zero, the baseline lies in the span of the allowed '
        'monomials (independent projection), and for poly the residual is W-orthogonal to every allowed monomial in exact rationals; '
        'cases = (method, dimension, x domain (offset/scale over many decades, negative, unsorted), poly_order / order pairs / max_cross, '
        'weights, cost function); coefficient-transform entries vs the exact model, coefficients evaluated exactly in rationals on the '
        'user x against the returned baseline with a rounding budget derived from sum|c_j||x|^j, exact weighted normal-equation residual '
        'for poly; non-trivial = order >= 1 and domain != [-1, 1]; distinct by canonical tuple')
ASSUMPTIONS = [
    'the mapped variable t = mapdomain(x) is taken as numpy computes it (for |x| >> range it is affine in x only to eps*|x|/range)',
    'np.linalg.pinv / lstsq (SVD) is a black box: its result is certified by the exact normal-equation residual only on explored inputs',
    'rounding budget for coefficient evaluation: 256*(k+1)^2*eps*sum|c_j||x|^j (derived from the operation count of T@c)',
    'normal-equation residual threshold 1e-7 relative to sum w|t|^j|r| (measured < 1e-10 on the unchanged tree; a wrong fit gives > 1e-3)',
]
EPS = np.finfo(float).eps
DOMAINS = [(-1.0, 1.0), (0.0, 1.0), (10.0, 14.0), (1e12, 1e12 + 3.0), (-5e-9, 3e-9), (-7.0, -2.0), (0.0, 1024.0), (-3.0, 3.0),
           (2.5e5, 7.5e5), (1e-3, 2e-3)]


def xs_for(rng, dom, n, kind):
    a, b = dom
    if kind == 'uniform':
        x = np.linspace(a, b, n)
    elif kind == 'random':
        x = np.sort(rng.uniform(a, b, n))
        x[0], x[-1] = a, b
    else:
        x = np.linspace(a, b, n)[rng.permutation(n)]
    return x


def y_for(rng, x):
    t = (x - x.min()) / (x.max() - x.min())
    return 4 + 3 * t - 2 * t ** 2 + 6 * np.exp(-((t - 0.55) / 0.07) ** 2) + rng.normal(0, 0.05, len(x))


METHODS_1D = [('poly', {}), ('modpoly', {}), ('imodpoly', {}), ('penalized_poly', {'cost_function': 'asymmetric_truncated_quadratic'}),
              ('penalized_poly', {'cost_function': 'symmetric_huber'}), ('penalized_poly', {'cost_function': 'asymmetric_indec'}),
              ('penalized_poly', {'cost_function': 'symmetric_truncated_quadratic'}), ('penalized_poly', {'cost_function': 'asymmetric_huber'}),
              ('quant_reg', {}), ('goldindec', {}), ('dietrich', {})]
METHODS_2D = [('poly', {}), ('modpoly', {}), ('imodpoly', {}), ('penalized_poly', {}), ('quant_reg', {})]


# ---------------------------------------------------------------------------------------------------------------------------------
# max_cross.  Documentation (every 2-D polynomial method): "The maximum degree for the cross terms.  For example, if max_cross is 1,
# then x z**2, x**2 z, and x**2 z**2 would all be set to 0.  Default is None, which does not limit the cross terms."  Hence, for
# poly_order = (ox, oz), the fitted polynomial may contain exactly the monomials below (pure powers of x or z are never cross terms).
def allowed_monomials(ox, oz, max_cross):
    return [(i, j) for i in range(ox + 1) for j in range(oz + 1) if max_cross is None or i == 0 or j == 0 or max(i, j) <= max_cross]


UNEQUAL_PAIRS = [(1, 3), (4, 2), (2, 3), (3, 1), (1, 2), (2, 4), (0, 3), (4, 1), (3, 4), (2, 1), (1, 4), (3, 0), (4, 3), (3, 2), (2, 0), (0, 1),
                 (4, 0), (0, 4), (1, 0), (0, 2)]
EQUAL_PAIRS = [(2, 2), (3, 3), (1, 1), (4, 4), (0, 0)]


def mc_str(mc):
    return 'none' if mc is None else str(int(mc))


_ALLOWED = {}


def lean_allowed(ox, oz, mc):
    """the documented monomial set as DEFINED IN LEAN (`Poly2d.allowed`, driver op c08.allowed; the theorems of Props/C08 -
    maxCross_kept_iff, allowed_downward_closed, convertCoef2d_preserves_exclusion - are about this definition): the oracle of the
    excluded-coefficient, span and normal-equation checks below"""
    key = (int(ox), int(oz), None if mc is None else int(mc))
    if key not in _ALLOWED:
        keys = [key]
        if key[0] <= 4 and key[1] <= 4 and (key[2] is None or key[2] <= 6):
            keys = [(a, b, m) for a in range(5) for b in range(5) for m in [None] + list(range(7))]
        for k, r in zip(keys, drive([f'c08.allowed {a} {b} {mc_str(m)}' for (a, b, m) in keys])):
            rows = r.split(';')
            if len(rows) != k[0] + 1 or any(len(row) != k[1] + 1 or set(row) - set('01') for row in rows):
                raise ValueError(f'c08.allowed {k}: malformed answer {r!r}')
            _ALLOWED[k] = [(i, j) for i, row in enumerate(rows) for j, ch in enumerate(row) if ch == '1']
    return list(_ALLOWED[key])


def real_vandermonde(a, b, mc, x, z, fitter=None):
    """the REAL `_PolyHelper2D.vandermonde` for orders (a, b) and max_cross mc: fresh helper when fitter is None, otherwise through
    `fitter._setup_polynomial` (the helper of the fitter is then re-used: `recalc_vandermonde`)"""
    from pybaselines.two_d._algorithm_setup import _PolyHelper2D
    if fitter is None:
        return _PolyHelper2D(x, z, np.array([x.min(), x.max()]), np.array([z.min(), z.max()]), np.array([a, b]), mc).vandermonde
    fitter._setup_polynomial(np.zeros((len(x), len(z))), poly_order=(a, b), calc_vander=True, max_cross=mc)
    return fitter._polynomial.vandermonde


def keptcols_problem(a, b, mc, x, z, bits, V):
    """column by column: the zero pattern of the real matrix against the model's kept-column bitmap (exact), and every kept column
    against the monomial x^i z^j, (i, j) = divmod(column, b + 1), computed here; text of the first difference or None"""
    N = (a + 1) * (b + 1)
    if V.shape != (len(x) * len(z), N):
        return f'the Vandermonde matrix has shape {V.shape}, expected {(len(x) * len(z), N)}'
    if len(bits) != N or set(bits) - set('01'):
        return f'model bitmap {bits!r} does not have {N} flags'
    tx = np.polynomial.polyutils.mapdomain(x, np.array([x.min(), x.max()]), np.array([-1., 1.]))
    tz = np.polynomial.polyutils.mapdomain(z, np.array([z.min(), z.max()]), np.array([-1., 1.]))
    for k in range(N):
        i, j = divmod(k, b + 1)
        zero = not np.any(V[:, k])
        if bits[k] == '0' and not zero:
            return f'column {k} (x^{i} z^{j}) is zeroed in the model but not in the real matrix'
        if bits[k] == '1':
            if zero:
                return f'column {k} (x^{i} z^{j}) is kept in the model but is all zero in the real matrix'
            ref = np.outer(tx ** i, tz ** j).ravel()
            if not np.allclose(V[:, k], ref, rtol=1e-12, atol=0):
                return f'column {k} of the real matrix is not the monomial x^{i} z^{j} (column order)'
    return None


def max_cross_columns(ctx, rng, dis):
    """driver ops c08.keptcols / c08.maskedrow against the real `_PolyHelper2D`: all order pairs (a, b) <= 4 x max_cross in
    {None, 0 .. max(a, b) + 1}; fresh helpers and one fitter whose helper is re-used over the whole (shuffled) sequence"""
    from pybaselines import Baseline2D
    combos = [(a, b, mc) for a in range(5) for b in range(5) for mc in [None] + list(range(max(a, b) + 2))]
    # the Lean definition of the allowed set against the documentation's set written in Python above
    for (a, b, mc) in combos:
        if sorted(lean_allowed(a, b, mc)) != sorted(allowed_monomials(a, b, mc)):
            dis.append(Disagreement('c08.model', 'model:allowed', f'Lean `allowed` for orders {(a, b)}, max_cross {mc} is {sorted(lean_allowed(a, b, mc))}, '
                                    f'the documented set is {sorted(allowed_monomials(a, b, mc))}', {'a': a, 'b': b, 'mc': mc}, False))
    bits = dict(zip(combos, drive([f'c08.keptcols {a} {b} {mc_str(mc)}' for (a, b, mc) in combos])))
    ctx.traces += len(combos)
    # exact grid: mapped abscissae are dyadic (-1, -1/2, 0, 1/2, 1) so that every entry of the matrix is exact in binary64
    xe, ze = np.linspace(-1, 1, 5), np.linspace(2, 6, 5)      # both map to -1, -1/2, 0, 1/2, 1 exactly
    dx, dz = DOMAINS[int(rng.integers(0, len(DOMAINS)))], DOMAINS[int(rng.integers(0, len(DOMAINS)))]
    xg, zg = np.sort(rng.uniform(*dx, 6)), np.sort(rng.uniform(*dz, 5))
    reused = {'exact': Baseline2D(xe, ze), 'generic': Baseline2D(xg, zg)}
    order = [combos[i] for i in rng.permutation(len(combos))]
    lines, checks = [], []
    prev = None
    for (a, b, mc) in order:
        for grid, (x, z) in (('exact', (xe, ze)), ('generic', (xg, zg))):
            for how in ('fresh', 'reused'):
                meta = {'check': 'keptcols', 'a': a, 'b': b, 'mc': mc, 'x': x.tolist(), 'z': z.tolist(), 'two_d': True, 'how': how,
                        'prev': list(prev) if prev is not None and how == 'reused' else None}
                try:
                    V = real_vandermonde(a, b, mc, x, z, reused[grid] if how == 'reused' else None)
                except Exception as ex:
                    ctx.count('raises-keptcols:' + type(ex).__name__)
                    continue
                ctx.case(('keptcols', a, b, mc, grid, how, dx, dz), nontrivial=(a > 0 and b > 0))
                ctx.count('keptcols:' + how)
                t = keptcols_problem(a, b, mc, x, z, bits[(a, b, mc)], V)
                if t:
                    dis.append(Disagreement('c08.keptcols', f'keptcols:{how}', f'_PolyHelper2D (orders {(a, b)}, max_cross {mc}, {how} helper, {grid} grid): {t}; '
                                            f'model flags {bits[(a, b, mc)]}', meta, True))
                    continue
                if how == 'fresh' and V.shape[0]:
                    # one row of the real matrix times an integer coefficient vector: model row, model product, and polyval2d of
                    # the masked coefficient matrix (vander_masked_apply)
                    r = int(rng.integers(0, V.shape[0]))
                    p_, q_ = divmod(r, len(z))
                    tx = np.polynomial.polyutils.mapdomain(x, np.array([x.min(), x.max()]), np.array([-1., 1.]))
                    tz = np.polynomial.polyutils.mapdomain(z, np.array([z.min(), z.max()]), np.array([-1., 1.]))
                    coef = rng.integers(-9, 10, V.shape[1]).astype(float)
                    lines.append(f'c08.maskedrow {a} {b} {mc_str(mc)} {q(tx[p_])} {q(tz[q_])} {qs(coef)}')
                    checks.append((dict(meta, row=r, coef=coef.tolist()), grid, V[r].copy(), float(V[r] @ coef), float(np.abs(V[r]) @ np.abs(coef))))
        prev = (a, b, mc)
    res = drive(lines)
    ctx.traces += len(lines)
    for ln, r, (meta, grid, row, prod, mag) in zip(lines, res, checks):
        mrow, mdot, mval = r.split(' ')
        mrow = [float(v) for v in parse_qs(mrow)]
        exact = grid == 'exact'
        label = f'_PolyHelper2D (orders {(meta["a"], meta["b"])}, max_cross {meta["mc"]}), row {meta["row"]}'
        if Fraction(mdot) != Fraction(mval):
            dis.append(Disagreement('c08.model', 'model:maskedrow', f'{ln}: model product {mdot} differs from polyval2d of the masked coefficients {mval}', meta, False))
        elif len(mrow) != len(row) or not (np.array_equal(row, mrow) if exact else np.allclose(row, mrow, rtol=1e-12, atol=0)):
            dis.append(Disagreement('c08.keptcols', 'maskedrow:row', f'{label}: the real row {row.tolist()} differs from the model row {mrow}', meta, True))
        elif (prod != float(Fraction(mdot))) if exact else (abs(prod - float(Fraction(mdot))) > 1e-12 * mag):
            dis.append(Disagreement('c08.keptcols', 'maskedrow:dot', f'{label}: row @ coef = {prod!r}, polyval2d of the masked coefficient matrix at the mapped point = '
                                    f'{float(Fraction(mdot))!r}', meta, True))
        ctx.count('maskedrow:' + grid)


def max_cross_problems(name, kw, x, z, Y, only=None, stats=None):
    """the 2-D polynomial method `name` called (fresh fitter) with kw = {poly_order: (ox, oz), max_cross, weights, ...}: list of
    (check, text) for every clause of the documented max_cross semantics that fails"""
    from pybaselines import Baseline2D
    ox, oz = kw['poly_order']
    mc = kw.get('max_cross')
    with np.errstate(all='ignore'):
        b, p = getattr(Baseline2D(x, z), name)(Y, **dict(kw, return_coef=True))
    out = []
    stats = {} if stats is None else stats
    if not np.all(np.isfinite(b)):
        return out
    allowed = lean_allowed(ox, oz, mc)       # the Lean definition is the oracle (compared with allowed_monomials in max_cross_columns)
    excluded = [(i, j) for i in range(ox + 1) for j in range(oz + 1) if (i, j) not in allowed]
    coef = np.asarray(p['coef'], dtype=float)
    label = f'2-D {name}(poly_order={(ox, oz)}, max_cross={mc})'
    # (1) coefficients of excluded monomials are zero.  The excluded set is closed under raising either exponent, and the change of
    # variables back to the user's x, z (t = off + scl x: x^a receives C(i, a) off^(i-a) scl^a from t^i) is triangular, so this holds
    # for the returned (user-domain) coefficients as for the mapped ones.  pinv / lstsq leave rounding noise instead of exact zeros,
    # and the change of variables multiplies it by powers of the offset: each excluded coefficient is measured against the size a
    # mapped coefficient of the order of the baseline would give AT ITS POSITION, sum_ij |Tx[a, i]| |Tz[b, j]| max|baseline|
    # (far from the origin the user-domain coefficients are huge and cancel; a comparison with the largest term would not be relative
    # to the quantity compared).
    if coef.shape == (ox + 1, oz + 1) and (only in (None, 'maxcross-coef')):
        from math import comb

        def transform_abs(lo, hi, order):
            off, scl = np.polynomial.polyutils.mapparms(np.array([lo, hi], dtype=float), np.array([-1., 1.]))
            with np.errstate(all='ignore'):
                return np.array([[abs(comb(i, a_) * float(off) ** (i - a_) * float(scl) ** a_) if i >= a_ else 0.0 for i in range(order + 1)]
                                 for a_ in range(order + 1)])
        S = transform_abs(float(x.min()), float(x.max()), ox).sum(axis=1)[:, None] * transform_abs(float(z.min()), float(z.max()), oz).sum(axis=1)[None, :] \
            * max(float(np.max(np.abs(b))), 1e-300)
        if np.all(np.isfinite(S)) and np.all(S > 0):
            ratio = np.abs(coef) / S
            if excluded:
                stats['coef'] = max(stats.get('coef', 0.0), max(float(ratio[i, j]) for (i, j) in excluded))
            for (i, j) in excluded:
                if ratio[i, j] > 1e-9:
                    out.append(('maxcross-coef', f'{label}: the coefficient of the excluded cross term x^{i} z^{j} is {coef[i, j]!r} ({ratio[i, j]:.3g} of '
                                                 f'the size a mapped coefficient of the order of the baseline has at this position) instead of 0'))
                    break
    # (2) the baseline lies in the span of the allowed monomials: projection computed here, on numpy's own mapped abscissae
    tx = np.polynomial.polyutils.mapdomain(x, np.array([x.min(), x.max()]), np.array([-1., 1.]))
    tz = np.polynomial.polyutils.mapdomain(z, np.array([z.min(), z.max()]), np.array([-1., 1.]))
    V = np.stack([np.outer(tx ** i, tz ** j).ravel() for (i, j) in allowed], axis=1)
    if only in (None, 'maxcross-space'):
        sol = np.linalg.lstsq(V, b.ravel(), rcond=None)[0]
        miss = float(np.max(np.abs(V @ sol - b.ravel())))
        bs = max(float(np.max(np.abs(b))), 1e-300)
        stats['space'] = max(stats.get('space', 0.0), miss / bs)
        if miss > 1e-9 * bs:
            out.append(('maxcross-space', f'{label}: the baseline is not a combination of the {len(allowed)} allowed monomials (distance {miss / bs:.3g} '
                                          f'of max|baseline| from their span)'))
    # (3) poly: least squares over exactly that space - the residual is W-orthogonal to every allowed monomial (exact rationals)
    if name == 'poly' and only in (None, 'maxcross-normal'):
        w = np.ones(Y.shape) if kw.get('weights') is None else np.asarray(kw['weights'], dtype=float)
        fx = [[Fraction(float(v)) ** i for v in tx] for i in range(ox + 1)]
        fz = [[Fraction(float(v)) ** j for v in tz] for j in range(oz + 1)]
        R = [[Fraction(float(Y[a, c])) - Fraction(float(b[a, c])) for c in range(len(z))] for a in range(len(x))]
        W = [[Fraction(float(w[a, c])) for c in range(len(z))] for a in range(len(x))]
        worst = 0.0
        for (i, j) in allowed:
            num = sum(W[a][c] * R[a][c] * fx[i][a] * fz[j][c] for a in range(len(x)) for c in range(len(z)))
            den = sum(W[a][c] * abs(R[a][c]) * abs(fx[i][a] * fz[j][c]) for a in range(len(x)) for c in range(len(z)))
            # a residual at rounding level (interpolation, exactly polynomial data) is measured against the data scale (Appendix C)
            floor = sum(W[a][c] * abs(Fraction(float(Y[a, c]))) * abs(fx[i][a] * fz[j][c]) for a in range(len(x)) for c in range(len(z)))
            dd = float(den) + 1e-3 * float(floor)
            if dd > 0:
                worst = max(worst, abs(float(num)) / dd)
        stats['normal'] = max(stats.get('normal', 0.0), worst)
        if worst > 1e-7:
            out.append(('maxcross-normal', f'{label}: the residual is not W-orthogonal to the allowed monomials (exact relative normal-equation '
                                           f'residual {worst:.3g}) - not the least-squares polynomial of the documented space'))
    return out


def correspond(ctx):
    from pybaselines import Baseline, Baseline2D, utils
    rng = ctx.np_rng()
    dis = []
    for f in sorted(glob.glob(os.path.join(ROOT, 'corpus', 'C08_*.json'))):
        d = json.load(open(f))
        r = replay(ctx, d)
        ctx.case(('corpus', os.path.basename(f)))
        if r:
            dis.append(Disagreement('c08.corpus', d['signature'], f'corpus {os.path.basename(f)}: {r}', d['replay'], True))
    lines, checks = [], []
    # (a) transformation matrix vs the exact model (fed with numpy's own offset/scale, and mapparms vs model)
    for dom in DOMAINS:
        off, scl = np.polynomial.polyutils.mapparms(np.array([-1., 1.]), np.array(dom))
        lines.append(f'c08.mapparms -1 1 {q(dom[0])} {q(dom[1])}')
        checks.append(('mapparms', dom, (off, scl)))
        for n in (1, 2, 4, 9):
            T = utils._poly_transform_matrix(n, np.array(dom))
            lines.append(f'c08.transform {n} {q(off)} {q(scl)}')
            checks.append(('transform', (dom, n), T))
            ctx.case(('transform', dom, n), nontrivial=n > 1 and dom != (-1.0, 1.0))
    # (b) methods: coefficients evaluated exactly on the user's x reproduce the baseline; poly solves the normal equations
    doms = DOMAINS if ctx.thorough else [DOMAINS[i] for i in sorted(rng.choice(len(DOMAINS), 6, replace=False))]
    strat = {}
    for dom in doms:
        for (name, extra) in METHODS_1D:
            for order in ((0, 1, 2, 3, 5, 8) if ctx.thorough else (int(rng.choice([0, 1])), int(rng.choice([2, 3])), int(rng.choice([5, 8])))):
                n = int(rng.choice([order + 2, 25, 60]))
                # stratified, not random: every method meets every (x kind, user weights or not) combination in turn
                k = strat[name] = strat.get(name, ctx.seed) + 1
                kind = ['uniform', 'random', 'unsorted'][k % 3]
                if name == 'dietrich':
                    kind = 'uniform' if kind == 'random' and n < 10 else kind
                    n = max(n, 30)
                x = xs_for(rng, dom, n, kind)
                y = y_for(rng, x)
                wts = None
                if name not in ('dietrich',) and (k // 3) % 2 == 0:
                    wts = np.round(rng.uniform(0.05, 1, n) * 64) / 64
                    if rng.random() < 0.3:
                        wts[rng.random(n) < 0.2] = 0
                kw = dict(extra, poly_order=order, return_coef=True)
                if wts is not None:
                    kw['weights'] = wts
                meta = {'method': name, 'kw': {kk: (v.tolist() if isinstance(v, np.ndarray) else v) for kk, v in kw.items()},
                        'x': x.tolist(), 'y': y.tolist(), 'two_d': False}
                try:
                    with np.errstate(all='ignore'):
                        b, p = getattr(Baseline(x), name)(y, **kw)
                except Exception as e:
                    ctx.count('raises:' + type(e).__name__)
                    continue
                canon = (name, tuple(sorted((k, str(v)) for k, v in extra.items())), dom, order, n, kind, wts is not None)
                ctx.case(canon, nontrivial=order >= 1 and dom != (-1.0, 1.0),
                         sample={'method': name, **extra, 'domain': dom, 'poly_order': order, 'N': n, 'x': kind, 'weights': wts is not None}
                         if len(ctx.samples) < 6 and order >= 2 else None)
                ctx.count('method:' + name)
                ctx.count('domain:%g..%g' % dom)
                if not np.all(np.isfinite(b)) or 'coef' not in p:
                    continue
                coef = np.asarray(p['coef'], dtype=float)
                if coef.shape != (order + 1,):
                    dis.append(Disagreement('c08.coef', f'coef:shape:{name}', f'{name}: coef has shape {coef.shape} for poly_order {order}', meta, True))
                    continue
                lines.append(f'c08.evalb {qs(coef)} {qs(x)}')
                checks.append(('evalb', meta, (b, order)))
                if name == 'poly':
                    w = np.ones(n) if wts is None else wts
                    # the mapped variable exactly as the code computes it (float mapdomain of the user's x)
                    tmap = np.polynomial.polyutils.mapdomain(x, np.polynomial.polyutils.getdomain(x), np.array([-1., 1.]))
                    lines.append(f'c08.normalt {order} {qs(tmap)} {qs(w)} {qs(y - b)}')
                    floor = [float(np.sum(w * np.abs(tmap) ** j * np.abs(y))) for j in range(order + 1)]
                    checks.append(('normal', meta, (order, floor)))
    # (b') every other keyword of every polynomial method moved, one at a time, to its alternative values (iteration limits 0/1/5,
    # tolerances, thresholds, cost functions, ...): the returned coefficients must still reproduce the returned baseline
    from . import methods as M
    reg1 = M.registry(False)
    for name in sorted({m for m, _ in METHODS_1D}):
        e = reg1[name]
        order = int(rng.choice([1, 2, 3]))
        svs = M.single_variants(name, e, False, base={'poly_order': order, 'return_coef': True})
        if not ctx.thorough and len(svs) > 14:
            svs = [svs[i] for i in sorted(rng.choice(len(svs), 14, replace=False))]
        for kw in svs:
            if not kw.get('return_coef', False):
                continue
            dom = doms[int(rng.integers(0, len(doms)))]
            n = 40
            x = xs_for(rng, dom, n, 'uniform' if name == 'dietrich' else ['uniform', 'random', 'unsorted'][int(rng.integers(0, 3))])
            y = y_for(rng, x)
            order = kw['poly_order']
            meta = {'method': name, 'kw': dict(kw), 'x': x.tolist(), 'y': y.tolist(), 'two_d': False}
            try:
                with np.errstate(all='ignore'):
                    b, p = getattr(Baseline(x), name)(y, **kw)
            except Exception as ex:
                ctx.count('raises:' + type(ex).__name__)
                continue
            moved = sorted(k for k in kw if k not in ('return_coef',) and kw[k] != e['params'].get(k))
            ctx.case(('variant', name, tuple((k, str(kw[k])) for k in moved), dom), nontrivial=True)
            ctx.count('variant:' + name)
            if not np.all(np.isfinite(b)) or 'coef' not in p:
                ctx.count('variant-no-coef:' + name)
                continue
            coef = np.asarray(p['coef'], dtype=float)
            if coef.shape != (order + 1,):
                dis.append(Disagreement('c08.coef', f'coef:shape:{name}', f'{name} {moved}: coef has shape {coef.shape} for poly_order {order}', meta, True))
                continue
            lines.append(f'c08.evalb {qs(coef)} {qs(x)}')
            checks.append(('evalb', meta, (b, order)))
    # loess coefficients: one row per point
    for idom, dom in enumerate(doms[:3]):
        n = 30
        # per-point coefficient rows must follow the CALLER's x order: uniform, random and unsorted x in turn
        x = xs_for(rng, dom, n, ['unsorted', 'uniform', 'random'][(idom + ctx.seed) % 3])
        y = y_for(rng, x)
        for order in (1, 2):
            # both memory strategies, with and without skipped points (delta), several robust iterations
            for cm, delta_frac, mi in ((True, 0.0, 10), (False, 0.0, 3), (True, 0.12, 3), (False, 0.12, 3), (False, 0.3, 1)):
                lkw = dict(poly_order=order, fraction=0.5, return_coef=True, delta=float(delta_frac * (x.max() - x.min())), conserve_memory=cm, max_iter=mi)
                try:
                    b, p = Baseline(x).loess(y, **lkw)
                except Exception:
                    continue
                ctx.case(('loess-coef', dom, order, cm, delta_frac, mi), nontrivial=True)
                ctx.count('loess-coef')
                coef = np.asarray(p['coef'])
                fitted = np.flatnonzero(np.any(coef != 0, axis=1))
                for i in (fitted[::max(1, len(fitted) // 5)] if len(fitted) else []):
                    lines.append(f'c08.evalb {qs(coef[i])} {q(x[i])}')
                    checks.append(('evalb', {'method': 'loess', 'x': [float(x[i])], 'two_d': False, 'kw': {k: v for k, v in lkw.items() if k != 'return_coef'},
                                             'point': int(i), 'y': []}, (b[i:i + 1], order)))
    # 2-D (one fitter object per method is reused over the order / max_cross combinations, as a user would)
    for (name, extra) in METHODS_2D:
        dx, dz = DOMAINS[int(rng.integers(0, len(DOMAINS)))], DOMAINS[int(rng.integers(0, len(DOMAINS)))]
        m, n = 9, 8
        x, z = np.linspace(*dx, m), np.linspace(*dz, n)
        if rng.random() < 0.3:
            x = x[rng.permutation(m)]
        fitter2d = Baseline2D(x, z)
        combos = [(1, 1, None), (2, 3, None), (3, 2, None), (3, 2, 1), (3, 2, 0), (0, 2, None), (2, 2, 0), (2, 2, None), (2, 2, 1)]
        if not ctx.thorough:
            combos = [combos[i] for i in sorted(rng.choice(len(combos), 5, replace=False))] + [(2, 2, None), (2, 2, 1)]
        for (ox, oz, mc) in combos:
            tx, tz = np.meshgrid(np.linspace(0, 1, m), np.linspace(0, 1, n), indexing='ij')
            Y = 3 + 2 * tx - tz + tx * tz + 5 * np.exp(-((tx - 0.5) / 0.2) ** 2 - ((tz - 0.4) / 0.2) ** 2) + rng.normal(0, 0.03, (m, n))
            kw = dict(extra, poly_order=(ox, oz), max_cross=mc, return_coef=True)
            wts = None
            if rng.random() < 0.4:
                wts = np.round(rng.uniform(0.05, 1, (m, n)) * 64) / 64
                kw['weights'] = wts
            meta = {'method': name, 'kw': {k: (v.tolist() if isinstance(v, np.ndarray) else v) for k, v in kw.items()},
                    'x': x.tolist(), 'z': z.tolist(), 'y': Y.tolist(), 'two_d': True}
            try:
                with np.errstate(all='ignore'):
                    b, p = getattr(fitter2d, name)(Y, **kw)
            except Exception as e:
                ctx.count('raises2d:' + type(e).__name__)
                continue
            ctx.case(('2d', name, ox, oz, mc, dx, dz, m, n, wts is not None), nontrivial=True,
                     sample={'method': '2-D ' + name, 'poly_order': [ox, oz], 'max_cross': mc, 'x_domain': dx, 'z_domain': dz} if name == 'poly' else None)
            ctx.count('method2d:' + name)
            coef = np.asarray(p['coef'], dtype=float)
            if coef.shape != (ox + 1, oz + 1) or not np.all(np.isfinite(b)):
                continue
            lines.append(f'c08.evalb2 {";".join(qs(r) for r in coef)} {qs(x)} {qs(z)}')
            checks.append(('evalb2', meta, (b, ox, oz)))
            if mc is not None:
                # cross terms above max_cross must be absent from the fitted polynomial (in the mapped domain)
                pass
            if name == 'poly':
                # weighted normal equations in floating point on the mapped [-1, 1]^2 basis
                txm = np.polynomial.polyutils.mapdomain(x, np.array([x.min(), x.max()]), np.array([-1., 1.]))
                tzm = np.polynomial.polyutils.mapdomain(z, np.array([z.min(), z.max()]), np.array([-1., 1.]))
                V = np.polynomial.polynomial.polyvander2d(*np.meshgrid(txm, tzm, indexing='ij'), [ox, oz]).reshape(m * n, -1)
                keep = [k for k, (i, j) in enumerate((i, j) for i in range(ox + 1) for j in range(oz + 1))
                        if mc is None or i == 0 or j == 0 or (i <= mc and j <= mc)]
                V = V[:, keep]
                w = np.ones(m * n) if wts is None else wts.ravel()
                r = (Y - b).ravel()
                num = np.abs(V.T @ (w * r))
                den = np.abs(V).T @ (w * np.abs(r)) + 1e-300
                if np.max(num / den) > 1e-7:
                    dis.append(Disagreement('c08.normal', 'normal:2d', f'2-D poly (order {(ox, oz)}, max_cross {mc}): residual is not W-orthogonal to '
                                            f'the allowed polynomial terms (relative {float(np.max(num / den)):.3g}) - not the least-squares polynomial',
                                            dict(meta, check='normal2d'), True))
    # 2-D max_cross semantics: unequal and equal order pairs x every max_cross from 0 to beyond the larger order and None
    mc_stats = {}
    for im, (name, extra) in enumerate(METHODS_2D):
        if ctx.thorough:
            pairs = UNEQUAL_PAIRS + EQUAL_PAIRS
        else:
            k0 = (5 * (ctx.seed + im)) % len(UNEQUAL_PAIRS)
            pairs = [UNEQUAL_PAIRS[(k0 + t) % len(UNEQUAL_PAIRS)] for t in range(5)] + [EQUAL_PAIRS[(ctx.seed + im) % len(EQUAL_PAIRS)]]
        for (ox, oz) in pairs:
            dx, dz = DOMAINS[int(rng.integers(0, len(DOMAINS)))], DOMAINS[int(rng.integers(0, len(DOMAINS)))]
            m, n = 9, 8
            x, z = np.linspace(*dx, m), np.linspace(*dz, n)
            if rng.random() < 0.3:
                x = x[rng.permutation(m)]
            tx, tz = np.meshgrid(np.linspace(0, 1, m), np.linspace(0, 1, n), indexing='ij')
            Y = 3 + 2 * tx - tz + tx * tz + 2 * tx ** 2 * tz - 3 * tx * tz ** 3 + 5 * np.exp(-((tx - 0.5) / 0.2) ** 2 - ((tz - 0.4) / 0.2) ** 2) \
                + rng.normal(0, 0.03, (m, n))
            for mc in [None] + list(range(0, max(ox, oz) + 2)):
                kw = dict(extra, poly_order=(ox, oz), max_cross=mc)
                if rng.random() < 0.4:
                    wts = np.round(rng.uniform(0.05, 1, (m, n)) * 64) / 64
                    if rng.random() < 0.3:
                        wts[rng.random((m, n)) < 0.1] = 0
                    kw['weights'] = wts
                if name in ('modpoly', 'imodpoly', 'penalized_poly', 'quant_reg'):
                    kw['max_iter'] = int(rng.choice([3, 20]))
                meta = {'method': name, 'kw': {k: (v.tolist() if isinstance(v, np.ndarray) else (list(v) if isinstance(v, tuple) else v)) for k, v in kw.items()},
                        'x': x.tolist(), 'z': z.tolist(), 'y': Y.tolist(), 'two_d': True}
                try:
                    probs = max_cross_problems(name, kw, x, z, Y, stats=mc_stats)
                except Exception as ex:
                    ctx.count('raises-maxcross:' + type(ex).__name__)
                    continue
                region = ('none' if mc is None else 'below-both' if mc < min(ox, oz) else 'between-the-orders' if mc < max(ox, oz) else 'at-or-above-both')
                ctx.case(('maxcross', name, ox, oz, mc, dx, dz, 'weights' in kw), nontrivial=True,
                         sample={'method': '2-D ' + name, 'poly_order': [ox, oz], 'max_cross': mc, 'allowed monomials': len(allowed_monomials(ox, oz, mc)),
                                 'of': (ox + 1) * (oz + 1)} if region == 'between-the-orders' and name == 'poly' and len(ctx.samples) < 6 else None)
                ctx.count('maxcross:' + name)
                ctx.count('maxcross-orders:' + ('unequal' if ox != oz else 'equal'))
                ctx.count('maxcross-region:' + region)
                for chk, text in probs:
                    dis.append(Disagreement('c08.maxcross', f'{chk}:{name}', text, dict(meta, check=chk), True))
    ctx.notes.append('max_cross, measured: largest excluded coefficient / natural size of its position = %.3g (limit 1e-9); largest distance of a baseline from '
                     'the allowed span / max|baseline| = %.3g (limit 1e-9); largest exact normal-equation residual of 2-D poly = %.3g (limit 1e-7)'
                     % (mc_stats.get('coef', 0.0), mc_stats.get('space', 0.0), mc_stats.get('normal', 0.0)))
    reg2 = M.registry(True)
    for name in sorted({m for m, _ in METHODS_2D}):
        e = reg2[name]
        svs = M.single_variants(name, e, True, base={'poly_order': (2, 1), 'return_coef': True})
        if not ctx.thorough and len(svs) > 8:
            svs = [svs[i] for i in sorted(rng.choice(len(svs), 8, replace=False))]
        for kw in svs:
            if not kw.get('return_coef', False):
                continue
            dx, dz = DOMAINS[int(rng.integers(0, len(DOMAINS)))], DOMAINS[int(rng.integers(0, len(DOMAINS)))]
            m, n = 9, 8
            x, z = np.linspace(*dx, m), np.linspace(*dz, n)
            tx, tz = np.meshgrid(np.linspace(0, 1, m), np.linspace(0, 1, n), indexing='ij')
            Y = 3 + 2 * tx - tz + tx * tz + 5 * np.exp(-((tx - 0.5) / 0.2) ** 2 - ((tz - 0.4) / 0.2) ** 2) + rng.normal(0, 0.03, (m, n))
            po = kw['poly_order']
            ox, oz = (po, po) if isinstance(po, int) else po
            meta = {'method': name, 'kw': {k: (list(v) if isinstance(v, tuple) else v) for k, v in kw.items()},
                    'x': x.tolist(), 'z': z.tolist(), 'y': Y.tolist(), 'two_d': True}
            try:
                with np.errstate(all='ignore'):
                    b, p = getattr(Baseline2D(x, z), name)(Y, **kw)
            except Exception as ex:
                ctx.count('raises2d:' + type(ex).__name__)
                continue
            moved = sorted(k for k in kw if k not in ('return_coef',) and kw[k] != e['params'].get(k))
            ctx.case(('variant2d', name, tuple((k, str(kw[k])) for k in moved), dx, dz), nontrivial=True)
            ctx.count('variant2d:' + name)
            if not np.all(np.isfinite(b)) or 'coef' not in p:
                continue
            coef = np.asarray(p['coef'], dtype=float)
            if coef.shape != (ox + 1, oz + 1):
                dis.append(Disagreement('c08.coef', f'coef2d:shape:{name}', f'2-D {name} {moved}: coef has shape {coef.shape} for poly_order {po}', meta, True))
                continue
            lines.append(f'c08.evalb2 {";".join(qs(r) for r in coef)} {qs(x)} {qs(z)}')
            checks.append(('evalb2', meta, (b, ox, oz)))
    # 2-D max_cross, column level: the model's kept-column flags against the real Vandermonde matrix (own random stream)
    max_cross_columns(ctx, ctx.np_rng(), dis)
    res = drive(lines, timeout=1200)
    ctx.traces += len(lines)
    worst = 0.0
    for ln, r, (kind, meta, real) in zip(lines, res, checks):
        if kind == 'mapparms':
            o, s = r.split(' ')
            off, scl = real
            if not (np.isclose(float(Fraction(o)), off, rtol=8 * EPS, atol=8 * EPS * abs(float(Fraction(s)))) and np.isclose(float(Fraction(s)), scl, rtol=8 * EPS)):
                dis.append(Disagreement('c08.model', 'model:mapparms', f'mapparms for domain {meta}: model {float(Fraction(o))}, {float(Fraction(s))} vs numpy {off}, {scl}',
                                        {'domain': list(meta)}, False))
        elif kind == 'transform':
            dom, n = meta
            M = np.array([[float(v) for v in parse_qs(row)] for row in r.split(';')])
            if M.shape != real.shape or not np.allclose(real, M, rtol=64 * EPS * (n + 2), atol=0):
                # property-level: does the real matrix reproduce evaluations?
                c = np.arange(1, n + 1, dtype=float)
                xq = np.linspace(dom[0], dom[1], 5)
                tq = np.polynomial.polyutils.mapdomain(xq, np.array(dom), np.array([-1., 1.]))
                lhs = np.polynomial.polynomial.polyval(xq, real @ c)
                rhs = np.polynomial.polynomial.polyval(tq, c)
                bad = not np.allclose(lhs, rhs, rtol=1e-6, atol=1e-6 * np.abs(rhs).max()) and abs(dom[0]) < 1e6
                dis.append(Disagreement('c08.transform', f'transform:n={n}', f'_poly_transform_matrix({n}, {dom}) differs from the exact model'
                                        + (' and does not reproduce polynomial evaluations' if bad else ''),
                                        {'domain': list(dom), 'n': n, 'check': 'transform'}, property_level=bad))
        elif kind == 'evalb':
            b, order = real
            vals = [tuple(Fraction(t) for t in item.split(',')) for item in r.split(';')]
            budget = 256 * (order + 1) ** 2 * EPS
            for i, (v, bound) in enumerate(vals):
                err = abs(float(v) - float(b[i])) if abs(v) < 1e300 else float('inf')
                lim = budget * float(bound) + 64 * EPS * abs(float(b[i]))
                worst = max(worst, err / lim if lim > 0 else 0)
                if err > lim:
                    dis.append(Disagreement('c08.coef', f'coef:{meta["method"]}', f'{meta["method"]} (order {order}): evaluating the returned '
                                            f'coefficients exactly at x={meta["x"][i] if i < len(meta["x"]) else "?"} gives {float(v):.10g} but the baseline is '
                                            f'{float(b[i]):.10g} (allowed rounding {lim:.3g})', dict(meta, check='coef'), True))
                    break
        elif kind == 'evalb2':
            b, ox, oz = real
            budget = 256 * ((ox + 1) * (oz + 1)) ** 2 * EPS
            rows = r.split(';')
            done = False
            for i, row in enumerate(rows):
                for j, item in enumerate(row.split(',')):
                    v, bound = (Fraction(t) for t in item.split(':'))
                    err = abs(float(v) - float(b[i, j]))
                    lim = budget * float(bound) + 64 * EPS * abs(float(b[i, j]))
                    if err > lim:
                        dis.append(Disagreement('c08.coef', f'coef2d:{meta["method"]}', f'2-D {meta["method"]} (orders {(ox, oz)}): coefficients evaluated at '
                                                f'(x[{i}], z[{j}]) give {float(v):.10g}, baseline {float(b[i, j]):.10g} (allowed {lim:.3g})',
                                                dict(meta, check='coef2d'), True))
                        done = True
                        break
                if done:
                    break
        elif kind == 'normal':
            order, floor = real
            rel = 0.0
            for jj, item in enumerate(r.split(';')):
                num, den = (Fraction(t) for t in item.split(','))
                # a residual at rounding level (interpolation, exactly polynomial data) is measured against the data scale
                dd = float(den) + 1e-3 * floor[jj]
                if dd > 0:
                    rel = max(rel, abs(float(num)) / dd)
            ctx.hist['normal_rel_max'] = max(ctx.hist.get('normal_rel_max', 0), rel)
            if rel > 1e-7:
                dis.append(Disagreement('c08.normal', 'normal:1d', f'poly (order {order}): the residual is not W-orthogonal to the polynomials of '
                                        f'degree <= {order} (relative normal-equation residual {rel:.3g}) - not the least-squares polynomial',
                                        dict(meta, check='normal'), True))
    ctx.notes.append(f'worst coefficient-evaluation error / budget = {worst:.3g}')
    return dis


def search(ctx, hints, lean_failed):
    sub = type(ctx)(ctx.prop, 'thorough', ctx.seed + 1)
    return [d for d in correspond(sub) if d.property_level]


def replay(ctx, data):
    from pybaselines import Baseline, Baseline2D
    r = data['replay']
    try:
        if r.get('check') == 'keptcols':
            x, z = np.array(r['x']), np.array(r['z'])
            mc = r['mc']
            bits = drive([f'c08.keptcols {r["a"]} {r["b"]} {mc_str(mc)}'])[0]
            fitter = None
            if r.get('how') == 'reused':
                fitter = Baseline2D(x, z)
                if r.get('prev'):
                    real_vandermonde(*r['prev'], x, z, fitter)
            return keptcols_problem(r['a'], r['b'], mc, x, z, bits, real_vandermonde(r['a'], r['b'], mc, x, z, fitter))
        kw = dict(r['kw'])
        if 'weights' in kw and kw['weights'] is not None:
            kw['weights'] = np.array(kw['weights'])
        if r.get('two_d'):
            kw['poly_order'] = kw['poly_order'] if isinstance(kw['poly_order'], int) else tuple(kw['poly_order'])
            x, z, Y = np.array(r['x']), np.array(r['z']), np.array(r['y'])
            if str(r.get('check', '')).startswith('maxcross'):
                kw.pop('return_coef', None)
                probs = max_cross_problems(r['method'], kw, x, z, Y, only=r['check'])
                return probs[0][1] if probs else None
            b, p = getattr(Baseline2D(x, z), r['method'])(Y, **kw)
            coef = p['coef']
            tot = 0.0
            for i in range(len(x)):
                for j in range(len(z)):
                    v = sum(Fraction(float(coef[a, c])) * Fraction(float(x[i])) ** a * Fraction(float(z[j])) ** c
                            for a in range(coef.shape[0]) for c in range(coef.shape[1]))
                    bound = sum(abs(coef[a, c]) * abs(x[i]) ** a * abs(z[j]) ** c for a in range(coef.shape[0]) for c in range(coef.shape[1]))
                    lim = 256 * coef.size ** 2 * EPS * bound + 64 * EPS * abs(b[i, j])
                    if abs(float(v) - b[i, j]) > lim:
                        return f'coefficients do not reproduce the baseline at ({i},{j})'
            if r.get('check') == 'normal2d':
                return None
            return None
        x, y = np.array(r['x']), np.array(r['y'])
        if r['method'] == 'loess' or not len(y):
            return None
        b, p = getattr(Baseline(x), r['method'])(y, **kw)
        coef = p['coef']
        k = len(coef) - 1
        for i in range(len(x)):
            v = sum(Fraction(float(coef[j])) * Fraction(float(x[i])) ** j for j in range(k + 1))
            bound = sum(abs(coef[j]) * abs(x[i]) ** j for j in range(k + 1))
            if abs(float(v) - b[i]) > 256 * (k + 1) ** 2 * EPS * bound + 64 * EPS * abs(b[i]):
                return f'coefficients do not reproduce the baseline at x[{i}]'
        if r.get('check') == 'normal':
            w = np.ones(len(x)) if kw.get('weights') is None else kw['weights']
            t = np.polynomial.polyutils.mapdomain(x, np.array([x.min(), x.max()]), np.array([-1., 1.]))
            V = np.polynomial.polynomial.polyvander(t, k)
            rr = y - b
            num = np.abs(V.T @ (w * rr))
            den = np.abs(V).T @ (w * np.abs(rr)) + 1e-300
            if np.max(num / den) > 1e-7:
                return 'residual not W-orthogonal to the polynomial space'
    except Exception as e:
        return f'{type(e).__name__}: {e}'
    return None
