"""C12 — the spline design matrix is the B-spline basis; its normal equations are exact."""
import glob
import json
import os
from fractions import Fraction

import numpy as np

from . import methods as MM
from .common import Disagreement, drive, q, qs, parse_qs, ROOT

PROP_MODULE = 'PbVerif.Props.C12'
RULE = ('cases = (x kind, x-axis magnitude kind (methods.X_MAGNITUDES: scales 1e-30 ... 1e30, huge offsets with a narrow range, negative '
        'ranges; every comparison is relative to the scale of the compared quantity), N, num_knots, degree, weight pattern) and (1-D / 2-D fitter reused over a history of (num_knots, degree) requests, half of the steps keeping the number of basis functions); three-way comparison real basis / exact-rational model on the real '
        'knots / scipy BSpline; non-trivial = degree >= 1 or points on knots; distinct by canonical tuple')
ASSUMPTIONS = [
    'floating-point de Boor recursion differs from the exact rational one by at most 64*eps*(degree+1) per entry',
    'scipy.interpolate.BSpline.design_matrix is the reference evaluator (third witness)',
    'np.linspace produces the equally spaced knots (compared with the exact knot model to 8 ulp of the range)',
]
EPS = np.finfo(float).eps
# increasing affine maps t -> a*t + b of the exact model self-check (scales over 60 decades, huge offsets)
AFFINE_MAPS = [(Fraction(1, 10 ** 30), Fraction(0)), (Fraction(1), Fraction(1700000000)), (Fraction(10 ** 30), Fraction(-7, 3)),
               (Fraction(3, 7), Fraction(-10 ** 12)), (Fraction(1, 2 ** 40), Fraction(10 ** 9))]


def x_of(rng, n, kind, lo=-3.0, hi=7.0):
    if kind == 'uniform':
        x = np.linspace(lo, hi, n)
    elif kind == 'random':
        x = np.sort(rng.uniform(lo, hi, n))
    elif kind == 'clustered':
        x = np.sort(np.concatenate([rng.normal(1.0, 0.01, n - n // 3), rng.uniform(lo, hi, n // 3)]))
    elif kind == 'repeats':
        x = np.sort(rng.choice(np.linspace(lo, hi, max(2, n // 3)), n))
    elif kind == 'dyadic':
        x = np.sort(rng.integers(0, 65, n) / 8.0)
    else:
        x = np.linspace(lo, hi, n)
    if len(np.unique(x)) < 2:
        x = np.linspace(lo, hi, n)
    return x


def dense_from_model(line_out, deg, nb, n):
    M = [[Fraction(0)] * nb for _ in range(n)]
    lefts = []
    for i, row in enumerate(line_out.split(';')):
        l, v = row.split(':')
        l = int(l)
        lefts.append(l)
        for j, val in enumerate(parse_qs(v)):
            M[i][l - deg + j] = val
    return M, lefts


# ---------------------------------------------------------------------------------------------------------------------------------
# the design matrix a spline METHOD uses: one fitter object serves a history of spline calls with different (num_knots, degree); after
# every call the basis the method was given (and the public tck it returns) must be the B-spline basis of the REQUESTED knots and degree
def fitter_histories(ctx, rng):
    out = []
    for _ in range(40 if ctx.thorough else 12):
        two_d = rng.random() < 0.3
        L = int(rng.integers(2, 5))
        hist = []
        nk, deg = int(rng.integers(4, 14)), int(rng.integers(1, 5))
        for _ in range(L):
            hist.append((nk, deg))
            r = rng.random()
            if r < 0.45:        # same number of basis functions, different pair
                nd = int(rng.integers(1, 5))
                nk, deg = max(2, nk + deg - nd), nd
            elif r < 0.6:       # identical request (the cache must be reused)
                pass
            elif r < 0.8:
                nk = int(rng.integers(4, 14))
            else:
                deg = int(rng.integers(1, 5))
        out.append((two_d, hist))
    return out


def fitter_history_fail(two_d, hist, x, z=None, alike=False):
    """returns the description of the first failing step, or None"""
    import warnings
    from pybaselines import Baseline, Baseline2D, _spline_utils as su
    from scipy.interpolate import BSpline
    with warnings.catch_warnings():
        warnings.simplefilter('ignore')
        if not two_d:
            fit = Baseline(x)
            y = 3 + np.sin(np.linspace(0, 3, len(x)))
            for step, (nk, deg) in enumerate(hist):
                _, _, ps = fit._setup_spline(y, None, deg, nk, True, 1, 1.0)
                knots = su._spline_knots(fit.x, nk, deg, True)
                ref = BSpline.design_matrix(fit.x, knots, deg).toarray()
                B = ps.basis.basis.toarray()
                tol = 64 * EPS * (deg + 1) * 8
                if B.shape != ref.shape or not np.allclose(B, ref, rtol=0, atol=tol):
                    return f'step {step} (num_knots={nk}, degree={deg}): the basis handed to the method is not the B-spline basis of the request'
                if np.any((B != 0).sum(axis=1) > deg + 1):
                    return f'step {step} (num_knots={nk}, degree={deg}): a row has more than degree+1 non-zeros'
                kw = dict(lam=10.0, num_knots=nk, spline_degree=deg, max_iter=2, diff_order=1)
                b, _ = fit.pspline_asls(y, **kw)
                b2, _ = Baseline(x).pspline_asls(y, **kw)
                if not np.allclose(b, b2, rtol=1e-9, atol=1e-9):
                    return (f'step {step} (num_knots={nk}, degree={deg}): pspline_asls on the reused fitter differs from a fresh fitter by '
                            f'{float(np.max(np.abs(b - b2))):.3g}')
            return None
        fit = Baseline2D(x, z)
        Y = 3 + np.add.outer(np.sin(np.linspace(0, 3, len(x))), np.linspace(0, 1, len(z)))
        for step, (nk, deg) in enumerate(hist):
            nk2, deg2 = ((nk, nk), (deg, deg)) if alike else ((nk, max(2, nk - 1)), (deg, max(1, (deg + 1) % 5)))
            _, _, ps = fit._setup_spline(Y, None, deg2, nk2, True, 1, 1.0)
            for ax, (xx, Bax) in enumerate(((fit.x, ps.basis.basis_r), (fit.z, ps.basis.basis_c))):
                knots = su._spline_knots(xx, nk2[ax], deg2[ax], True)
                ref = BSpline.design_matrix(xx, knots, deg2[ax]).toarray()
                B = Bax.toarray()
                if B.shape != ref.shape or not np.allclose(B, ref, rtol=0, atol=64 * EPS * (deg2[ax] + 1) * 8):
                    return f'step {step} (num_knots={nk2}, degree={deg2}): axis {ax} basis is not the B-spline basis of the request'
        return None


def correspond(ctx):
    from pybaselines import _spline_utils as su
    from scipy.interpolate import BSpline
    rng = ctx.np_rng()
    dis = []
    for f in sorted(glob.glob(os.path.join(ROOT, 'corpus', 'C12_*.json'))):
        d = json.load(open(f))
        r = replay(ctx, d)
        ctx.case(('corpus', os.path.basename(f)))
        if r:
            dis.append(Disagreement('c12.corpus', d['signature'], f'corpus {os.path.basename(f)}: {r}', d['replay'], True))
    kinds = ['uniform', 'random', 'clustered', 'repeats', 'dyadic']
    mags = MM.x_magnitude_cycle(ctx.seed, MM.X_MAGNITUDE_UNUSUAL)
    combos = []
    for deg in range(0, 7):
        for nk in ([2, 3, 5, 10] + ([40, 200] if ctx.thorough else [25])):
            for _ in range(2 if ctx.thorough else 1):
                n = int(rng.choice([2, 3, 5, 12, 40] + ([300] if ctx.thorough else [])))
                kind = kinds[int(rng.integers(0, len(kinds)))]
                combos.append((deg, nk, n, kind, '1'))
                # the same kind of case on an axis of another magnitude (round-robin: every magnitude kind is used in every run)
                combos.append((deg, nk, int(rng.choice([3, 5, 12, 40])), kinds[int(rng.integers(0, len(kinds)))], next(mags)))
    lines, metas = [], []
    for deg, nk, n, kind, mag in combos:
        x = x_of(rng, n, kind)
        if mag != '1':
            x = MM.x_magnitude(x, mag)[0]
            if len(np.unique(x)) < 2:
                continue
        ctx.count('x-magnitude:' + mag)
        try:
            knots = su._spline_knots(x, nk, deg, True)
        except Exception as e:
            dis.append(Disagreement('c12.raises', 'raises:knots', f'_spline_knots raised {e}', {'deg': deg, 'nk': nk}, True))
            continue
        # add points exactly on inner knots and on both ends
        extra = [knots[deg], knots[len(knots) - deg - 1]] + list(knots[deg + 1:deg + 3])
        x = np.sort(np.concatenate([x, [e for e in extra if x.min() <= e <= x.max()]]))
        if rng.random() < 0.3:
            x = x[rng.permutation(len(x))]   # the kernels must not rely on increasing x
        nb = len(knots) - deg - 1
        meta = {'deg': deg, 'num_knots': nk, 'kind': kind, 'x_magnitude': mag, 'x': x.tolist()}
        try:
            basis = su.SplineBasis(x, nk, deg)
            if not np.array_equal(basis.knots, knots):
                knots = basis.knots
            B = basis.basis.toarray()
        except Exception as e:
            dis.append(Disagreement('c12.raises', 'raises:basis', f'SplineBasis raised {type(e).__name__}: {e}', meta, True))
            continue
        ctx.case(('basis', deg, nk, kind, tuple(x.tolist())), nontrivial=deg >= 1,
                 sample={'degree': deg, 'num_knots': nk, 'N': len(x), 'x': kind, 'x_magnitude': mag} if len(x) <= 8 else None)
        ctx.count('degree:%d' % deg)
        ctx.count('x:' + kind)
        tol = 64 * EPS * (deg + 1)
        # direct properties of the real matrix
        fails = []
        if B.shape != (len(x), nb):
            fails.append(f'shape {B.shape} != {(len(x), nb)}')
        else:
            if np.any(B < -tol):
                fails.append('negative entry')
            if not np.allclose(B.sum(axis=1), 1.0, rtol=0, atol=tol * 4):
                fails.append(f'row sums differ from 1 by {float(np.max(np.abs(B.sum(axis=1) - 1))):.3g}')
            for i in range(len(x)):
                nz = np.flatnonzero(B[i])
                if len(nz) and (nz[-1] - nz[0] > deg):
                    fails.append('more than degree+1 consecutive non-zeros in a row')
                    break
            ref = BSpline.design_matrix(x, knots, deg).toarray()
            if not np.allclose(B, ref, rtol=0, atol=tol * 8):
                fails.append(f'differs from scipy BSpline by {float(np.max(np.abs(B - ref))):.3g}')
        for fl in fails:
            dis.append(Disagreement('c12.basis', f'basis:deg={deg}', f'design matrix (degree {deg}, {nk} knots, {kind} x on the axis {mag}): {fl}',
                                    dict(meta, check='basis'), True))
        # other construction paths
        for nm, fn in (('slow', su._slow_design_matrix),):
            try:
                B2 = fn(x, knots, deg).toarray()
                if B2.shape != B.shape or not np.allclose(B2, B, rtol=0, atol=tol * 8):
                    dis.append(Disagreement('c12.paths', f'path:{nm}', f'{nm} construction path differs from the compiled one '
                                            f'(degree {deg}, {nk} knots)', dict(meta, check='paths'), True))
            except Exception as e:
                dis.append(Disagreement('c12.paths', f'path:{nm}:raises', f'{nm} path raised {e}', dict(meta, check='paths'), True))
        lines.append(f'c12.basis {deg} {qs(knots)} {qs(x)}')
        metas.append(('basis', meta, B, knots))
        # knots model
        lines.append(f'c12.knots {q(x.min())} {q(x.max())} {nk} {deg}')
        metas.append(('knots', meta, knots, None))
        # the basis built from x alone (knots from its extremes) and, exactly in Q, from an increasing affine image a*x + b of x: the two
        # model outputs must be identical (theorem basis_magnitude_free), the first must be the real basis
        if len(x) <= 45:
            fa, fb = AFFINE_MAPS[len(lines) % len(AFFINE_MAPS)]
            xq = [Fraction(float(v)) for v in x]
            lines.append(f'c12.xbasis {nk} {deg} {qs(x)}')
            metas.append(('xbasis', meta, B, knots))
            lines.append('c12.xbasis %d %d %s' % (nk, deg, qs([fa * v + fb for v in xq])))
            metas.append(('xbasis_aff', dict(meta, a=str(fa), b=str(fb)), B, knots))
            ctx.count('affine-self-check')
        # normal equations
        y = rng.normal(0, 1, len(x))
        for wkind in ('random', 'zeros', 'gap', 'tiny', 'huge'):
            w = rng.uniform(0, 1, len(x))
            if wkind == 'zeros':
                w[rng.random(len(x)) < 0.5] = 0
            elif wkind == 'gap':
                w[len(x) // 3: 2 * len(x) // 3] = 0
            elif wkind == 'tiny':
                w = w * 2.0 ** -int(rng.integers(55, 90))      # a pure rescaling of the problem
            elif wkind == 'huge':
                w = w * 2.0 ** int(rng.integers(30, 60))
            ctx.count('weights:' + wkind)
            try:
                ps = su.PSpline(basis, 1.0, 1 if nb > 1 else 1) if nb > 1 else None
            except Exception:
                ps = None
            got = []
            if ps is not None:
                for use_numba in (True, False):
                    cap = {}
                    orig = ps.solve

                    def fake(lhs, rhs, **kw):
                        cap['lhs'], cap['rhs'] = np.array(lhs), np.array(rhs)
                        return np.zeros(nb)
                    ps.solve = fake
                    old = ps._use_numba
                    ps._use_numba = use_numba and old
                    try:
                        ps.solve_pspline(y, w, penalty=np.zeros_like(ps.penalty))
                    except Exception as e:
                        if np.any(w != 0):
                            dis.append(Disagreement('c12.btb', 'btb:raises', f"assembling B'WB raised {type(e).__name__}: {e} "
                                                    f'({"compiled" if use_numba else "fallback"} path)',
                                                    dict(meta, check='btb', y=y.tolist(), w=w.tolist()), True))
                        else:
                            ctx.notes.append('all-zero weights: fallback path raises (singular system, ordinary exception)')
                        cap = None
                    finally:
                        ps.solve = orig
                        ps._use_numba = old
                    got.append(cap)
                got = [g for g in got if g]
                full = B.T @ (w[:, None] * B)
                want = np.zeros((got[0]['lhs'].shape[0] if got else deg + 1, nb))
                for r in range(min(deg + 1, want.shape[0])):
                    want[r, :nb - r] = np.diagonal(full, -r)
                for which, cap in zip(('compiled', 'fallback'), got):
                    lhs = cap['lhs']
                    lhs_low = lhs if ps.lower else lhs[len(lhs) // 2:]
                    sc = float(np.abs(full).max())      # relative: rescaling the weights rescales the products
                    if lhs_low.shape[1] != nb or not np.allclose(lhs_low[:deg + 1], want[:deg + 1][:lhs_low.shape[0]], rtol=0, atol=1e-11 * sc * len(x)) \
                            or not np.allclose(cap['rhs'], B.T @ (w * y), rtol=0, atol=1e-11 * float(np.max(B.T @ (w * np.abs(y)))) * len(x)):
                        dis.append(Disagreement('c12.btb', f'btb:{which}', f"banded B'WB/B'Wy ({which} path, degree {deg}, {nk} knots, "
                                                f"{wkind} weights) differ from the explicit products",
                                                dict(meta, check='btb', y=y.tolist(), w=w.tolist()), True))
            lines.append(f'c12.btb {deg} {qs(knots)} {qs(x)} {qs(y)} {qs(w)}')
            metas.append(('btb', meta, (B, y, w), knots))
    for two_d, hist in fitter_histories(ctx, rng):
        n = int(rng.choice([30, 45]))
        x = x_of(rng, n, ['uniform', 'random'][int(rng.integers(0, 2))])
        hmag = '1'
        if rng.random() < 0.5:
            hmag = next(mags)
            x = MM.x_magnitude(x, hmag)[0]
        ctx.count('fitter-history:x-magnitude:' + hmag)
        x = np.unique(x)
        if rng.random() < 0.25:
            x = x[::-1].copy()
        z = np.linspace(-1, 2, 24) if two_d else None
        alike = bool(two_d and rng.random() < 0.5)
        if alike:
            # both axes with the same length, range, knot count and degree (the same knot vector), different point positions
            x = np.sort(x)
            z = x.min() + (x.max() - x.min()) * np.linspace(0, 1, len(x)) ** 2
            ctx.count('fitter-history:2d-axes-alike')
        try:
            f = fitter_history_fail(two_d, hist, x, z, alike)
        except Exception as e:
            f = f'{type(e).__name__}: {e}'
        ctx.case(('fitter-history', two_d, tuple(hist), len(x)), nontrivial=True,
                 sample={'reused fitter': '2-D' if two_d else '1-D', 'history (num_knots, degree)': hist} if len(hist) >= 3 else None)
        ctx.count('fitter-history:%s' % ('2d' if two_d else '1d'))
        if any(a != b and a[0] + a[1] == b[0] + b[1] for a, b in zip(hist, hist[1:])):
            ctx.count('fitter-history:same-number-of-bases')
        if f:
            dis.append(Disagreement('c12.fitter', 'fitter:history', f'{"Baseline2D" if two_d else "Baseline"} reused over {hist}: {f}',
                                    {'check': 'fitter', 'two_d': bool(two_d), 'history': [list(h) for h in hist], 'x': x.tolist(),
                                     'z': None if z is None else z.tolist(), 'alike': alike, 'deg': 0, 'num_knots': 0}, True))
    res = drive(lines, timeout=1200)
    ctx.traces += len(lines)
    last_xbasis = None
    for ln, r, (kind, meta, real, knots) in zip(lines, res, metas):
        deg = meta['deg']
        tol = 64 * EPS * (deg + 1)
        if kind == 'basis':
            nb = len(knots) - deg - 1
            M, lefts = dense_from_model(r, deg, nb, real.shape[0])
            Mf = np.array([[float(v) for v in row] for row in M])
            if real.shape != Mf.shape or not np.allclose(real, Mf, rtol=0, atol=tol * 8):
                dis.append(Disagreement('c12.model', f'model:basis:deg={deg}', f'design matrix differs from the exact de Boor model by '
                                        f'{float(np.max(np.abs(real - Mf))) if real.shape == Mf.shape else "shape"} (degree {deg})',
                                        dict(meta, check='basis'), False))
        elif kind == 'knots':
            mk = np.array([float(v) for v in parse_qs(r)])
            # relative to the magnitude of the knots themselves (an absolute floor would make the comparison vacuous on a 1e-30 axis
            # and impossible on 1.7e9 + [0, 1e3])
            rngx = float(np.max(np.abs(real)))
            if len(mk) != len(real) or not np.allclose(mk, real, rtol=0, atol=16 * EPS * rngx * (len(real))):
                dis.append(Disagreement('c12.model', 'model:knots', f'knot vector differs from the equally spaced model', dict(meta, check='knots'),
                                        property_level=True))
        elif kind == 'xbasis':
            ks, rows = r.split('|')
            last_xbasis = rows
            mk = np.array([float(v) for v in parse_qs(ks)])
            delta = 16 * EPS * float(np.max(np.abs(knots))) * len(knots)     # the tolerance of the knots comparison above
            if len(mk) != len(knots) or not np.allclose(mk, knots, rtol=0, atol=delta):
                dis.append(Disagreement('c12.model', 'model:xknots', 'knots of the model built from min(x), max(x) differ from _spline_knots(x)',
                                        dict(meta, check='knots'), True))
            elif deg >= 1:
                # the model evaluates on the EXACT knots, the code on the rounded ones (distance <= delta): a basis function of degree p on
                # knots of spacing dx has slope <= 2p/dx, in x and in each of the p+2 knots it depends on
                nb = len(knots) - deg - 1
                dx = float(knots[deg + 1] - knots[deg])
                M, lefts = dense_from_model(rows, deg, nb, real.shape[0])
                Mf = np.array([[float(v) for v in row] for row in M])
                if real.shape != Mf.shape or not np.allclose(real, Mf, rtol=0, atol=tol * 8 + 2 * deg * (deg + 3) * delta / dx):
                    dis.append(Disagreement('c12.model', f'model:xbasis:deg={deg}', 'basis built from x differs from the exact model (knots from the '
                                            'extremes of x, de Boor on them)', dict(meta, check='basis'), False))
        elif kind == 'xbasis_aff':
            ks, rows = r.split('|')
            if rows != last_xbasis:
                dis.append(Disagreement('c12.model', 'model:affine', f'MODEL self-check: the exact basis of a*x+b (a={meta["a"]}, b={meta["b"]}) differs from '
                                        'the exact basis of x (theorem basis_magnitude_free violated?)', dict(meta, check='basis'), False))
        elif kind == 'btb':
            ab_s, rhs_s, speceq = r.split('|')
            if speceq != '1':
                dis.append(Disagreement('c12.model', 'model:btb-spec', 'model accumulation differs from its own specification (theorem btb_eq violated?)',
                                        dict(meta, check='btb'), False))
    return dis


def search(ctx, hints, lean_failed):
    sub = type(ctx)(ctx.prop, ctx.tier, ctx.seed + 1)
    return [d for d in correspond(sub) if d.property_level]


def replay(ctx, data):
    from pybaselines import _spline_utils as su
    from scipy.interpolate import BSpline
    r = data['replay']
    x = np.array(r['x'])
    deg, nk = r['deg'], r['num_knots']
    if r.get('check') == 'fitter':
        try:
            return fitter_history_fail(r['two_d'], [tuple(h) for h in r['history']], x, None if r.get('z') is None else np.array(r['z']), bool(r.get('alike')))
        except Exception as e:
            return f'{type(e).__name__}: {e}'
    try:
        basis = su.SplineBasis(x, nk, deg)
        B = basis.basis.toarray()
        ref = BSpline.design_matrix(x, basis.knots, deg).toarray()
        tol = 64 * EPS * (deg + 1) * 8
        if B.shape != ref.shape or not np.allclose(B, ref, rtol=0, atol=tol):
            return 'design matrix differs from scipy reference'
        if r.get('check') == 'paths':
            if not np.allclose(su._slow_design_matrix(x, basis.knots, deg).toarray(), B, rtol=0, atol=tol):
                return 'slow path differs'
        if r.get('check') == 'btb':
            y, w = np.array(r['y']), np.array(r['w'])
            nb = B.shape[1]
            ab = np.zeros((deg + 1, nb), order='F')
            rhs = np.zeros(nb)
            su._numba_btb_bty(x, basis.knots, deg, y, w, ab, rhs, basis.basis.tocsr().data)
            full = B.T @ (w[:, None] * B)
            for rr in range(deg + 1):
                if not np.allclose(ab[rr, :nb - rr], np.diagonal(full, -rr), rtol=0, atol=1e-10 * max(1, np.abs(full).max()) * len(x)):
                    return "banded B'WB differs from the explicit product"
            if not np.allclose(rhs, B.T @ (w * y), rtol=0, atol=1e-10 * len(x)):
                return "B'Wy differs"
    except Exception as e:
        return f'{type(e).__name__}: {e}'
    return None
