"""C13 — calls never modify the caller's arrays or dictionaries."""
import copy
import glob
import json
import os

import numpy as np

from . import methods as M
from .common import Disagreement, drive, ROOT

PROP_MODULE = 'PbVerif.Props.C13'
GEN_TABLES = ('Inplace',)
RULE = ('cases = (method, dimension, argument object, layout in {contiguous, strided view, read-only, list, column}, x sorted/unsorted, '
        'returning or raising call); every caller object is snapshotted (bytes of arrays incl. the backing store of views, deep copy of '
        'dicts) and compared after the call; aliasing between caller arrays and what the numerical core receives is observed with '
        'np.shares_memory and diffed with the Lean aliasing model; non-trivial = an optional array/dict argument is passed or the '
        'layout is not a plain contiguous array; distinct by canonical tuple')
ASSUMPTIONS = [
    'the AST scan (translate.gen_inplace) lists the in-place writes of the registered method bodies; helpers outside them are covered dynamically only',
    'np.shares_memory decides aliasing; ravel of a contiguous array is a view',
    'a ValueError "read-only" raised for a read-only caller array is counted as an attempted in-place write',
]


def snap(obj):
    """hashable deep snapshot of a caller object"""
    if isinstance(obj, np.ndarray):
        base = obj
        while isinstance(base.base, np.ndarray):
            base = base.base
        return ('arr', obj.shape, obj.dtype.str, obj.tobytes(), base.tobytes())
    if isinstance(obj, dict):
        return ('dict', tuple((k, snap(v)) for k, v in obj.items()))
    if isinstance(obj, (list, tuple)):
        return ('seq', type(obj).__name__, tuple(snap(v) for v in obj))
    return ('val', repr(obj))


def layout(a, kind, rng):
    a = np.asarray(a, dtype=float)
    if kind == 'contiguous':
        return a.copy()
    if kind == 'strided':
        big = np.zeros(tuple(2 * s for s in a.shape))
        sl = tuple(slice(None, None, 2) for _ in a.shape)
        big[sl] = a
        return big[sl]
    if kind == 'readonly':
        b = a.copy()
        b.setflags(write=False)
        return b
    if kind == 'list':
        return a.tolist()
    if kind == 'column':
        return a.reshape(-1, 1).copy()
    if kind == 'row':
        return a.reshape(1, -1).copy()
    if kind == 'float32':
        return a.astype(np.float32)
    raise ValueError(kind)


class Capture:
    """wraps the `_setup_*` methods to see what the numerical core receives"""

    def __init__(self):
        self.events = []
        self.saved = []

    def __enter__(self):
        from pybaselines._algorithm_setup import _Algorithm
        from pybaselines.two_d._algorithm_setup import _Algorithm2D
        for cls in (_Algorithm, _Algorithm2D):
            for nm in ('_setup_whittaker', '_setup_polynomial', '_setup_spline', '_setup_morphology', '_setup_smooth', '_setup_classification', '_setup_misc'):
                if not hasattr(cls, nm):
                    continue
                orig = getattr(cls, nm)
                self.saved.append((cls, nm, orig))

                def wrapper(obj, y, *a, __orig=orig, __nm=nm, **k):
                    out = __orig(obj, y, *a, **k)
                    self.events.append((__nm, y, a, k, out))
                    return out
                setattr(cls, nm, wrapper)
        return self

    def __exit__(self, *exc):
        for cls, nm, orig in self.saved:
            setattr(cls, nm, orig)


def activated(e, kw0):
    """keyword arguments that switch on code paths which are off by default (values None or 0 in the signature)"""
    out = {}
    for nm, default in e['params'].items():
        if nm in kw0:
            continue
        if nm in ('lam_smooth',) and default in (None, 0):
            out[nm] = 10.0
        elif nm in ('smooth_half_window',) and default in (None, 0):
            out[nm] = 2
        elif nm == 'lam_1' and default is not None:
            out[nm] = 0.5
    return out


def correspond(ctx):
    from pybaselines import Baseline, Baseline2D
    rng = ctx.np_rng()
    dis = []
    for f in ([] if getattr(ctx, 'no_corpus', False) else sorted(glob.glob(os.path.join(ROOT, 'corpus', 'C13_*.json')))):
        d = json.load(open(f))
        r = replay(ctx, d)
        ctx.case(('corpus', os.path.basename(f)))
        if r:
            dis.append(Disagreement('c13.corpus', d['signature'], f'corpus {os.path.basename(f)}: {r}', d['replay'], True))
    lines, exp, metas = [], [], []
    layouts1 = ['contiguous', 'strided', 'readonly', 'list', 'column', 'row', 'float32']
    for two_d in (False, True):
        reg = M.registry(two_d)
        dim = '2d' if two_d else '1d'
        for name, e in reg.items():
            if getattr(ctx, 'only', None) and name != ctx.only:
                continue
            kw0 = M.filter_kwargs(e, M.call_kwargs(name, two_d))
            stack = name == 'collab_pls'
            for xord in ('sorted', 'unsorted'):
                if two_d:
                    x, z, Y = M.make_data2d(rng, 12, 10)
                    if xord == 'unsorted':
                        px, pz = rng.permutation(len(x)), rng.permutation(len(z))
                        x, z, Y = x[px].copy(), z[pz].copy(), np.ascontiguousarray(Y[px][:, pz])
                else:
                    x, Y = M.make_data(rng, 50)
                    z = None
                    if xord == 'unsorted':
                        px = rng.permutation(len(x))
                        x, Y = x[px].copy(), Y[px].copy()
                data0 = np.array([Y, Y * 1.1]) if stack else Y
                # which optional objects does this method take?
                optional = []
                for arg in ('weights', 'alpha'):
                    if arg in e['params'] and (arg != 'alpha' or 'aspls' in name):
                        optional.append(arg)
                lays = layouts1 if not two_d else ['contiguous', 'strided', 'readonly', 'list', 'float32']
                if not ctx.thorough:
                    lays = ['contiguous', 'readonly'] + [lays[i] for i in sorted(rng.choice(np.arange(1, len(lays)), 2, replace=False)) if lays[i] != 'readonly']
                for lay in dict.fromkeys(lays):
                    if stack and lay in ('column', 'row'):
                        continue
                    variants = [(False, None), (True, None)] if lay in ('contiguous', 'strided') else [(False, None)]
                    # optional code paths that are off by default (pre-smoothing etc.): every single-parameter variant, with the
                    # SciPy solvers (they honour overwrite flags) on the caller's own contiguous array
                    if lay == 'contiguous' and xord == 'sorted':
                        svs = M.single_variants(name, e, two_d, base=kw0)
                        if not ctx.thorough and len(svs) > 8:
                            svs = [svs[i] for i in sorted(rng.choice(len(svs), 8, replace=False))]
                        variants += [(False, kwv) for kwv in svs]
                        # degenerate data (no peaks at all; constant): branches that ordinary data never reach
                        variants += [(False, dict(kw0, __data__='smooth')), (False, dict(kw0, __data__='constant'))]
                        # numeric parameters handed over as ARRAYS of the final dtype (validated without a copy): they are the caller's
                        # objects too; values far beyond the data size provoke clipping
                        arrp = {}
                        for pn in ('half_window', 'max_half_window', 'smooth_half_window', 'lam', 'diff_order', 'poly_order', 'num_knots', 'spline_degree',
                                   'num_eigens', 'lam_1', 'min_length', 'sections'):
                            if pn not in e['params']:
                                continue
                            v = kw0.get(pn, e['params'][pn])
                            big = pn in ('half_window', 'max_half_window')
                            if v is None and not big:
                                continue
                            isint = pn not in ('lam', 'lam_1')
                            val = (300 if big else (v if not isinstance(v, (tuple, list)) else v[0]))
                            if isinstance(val, bool) or not isinstance(val, (int, float, np.integer, np.floating)):
                                continue
                            two = two_d or pn == 'max_half_window'
                            arrp[pn] = np.array([val, val] if two else val, dtype=np.intp if isint else float)
                        for pn, arr in arrp.items():
                            variants.append((False, dict(kw0, **{pn: arr, '__arr__': pn})))
                    # a method_kwargs dictionary may hold ANY key, also ones that shadow the optimizer's own arguments or that the
                    # optimizer treats specially (weights, alpha, tol, ...): whether the call returns or raises, the caller's dictionary
                    # must keep exactly its keys and values
                    if 'method_kwargs' in e['params'] and lay == 'contiguous':
                        variants += [(False, dict(kw0, __shadow__=sk)) for sk in ('weights', 'alpha', 'tol', 'lam', 'max_iter', 'x_data')]
                    for raising, kwv in variants:
                        activate = kwv is not None
                        dkind = (kwv or {}).get('__data__')
                        arrname = (kwv or {}).get('__arr__')
                        shadow = (kwv or {}).get('__shadow__')
                        kwv = None if kwv is None else {k: v for k, v in kwv.items() if k not in ('__data__', '__arr__', '__shadow__')}
                        act = {k: v for k, v in (kwv or {}).items() if not isinstance(v, np.ndarray) and kw0.get(k, '<absent>') != v}
                        if dkind:
                            act['data'] = dkind
                        if arrname:
                            act = {arrname: 'array ' + repr(kwv[arrname].tolist())}
                        if shadow:
                            act['method_kwargs has key'] = shadow
                        objs = {}
                        kw = dict(kw0)
                        if activate:
                            kw = dict(kwv)
                        solver = int(rng.integers(1, 5)) if not activate else (3 + int(rng.integers(0, 2)))
                        dsrc = data0
                        if dkind == 'smooth':
                            dsrc = (np.linspace(2, 5, Y.shape[-1]) + 0.01 * np.cos(np.arange(Y.shape[-1]))) * np.ones_like(Y)
                            dsrc = np.array([dsrc, dsrc * 1.1]) if stack else dsrc
                        elif dkind == 'constant':
                            dsrc = np.full(np.shape(data0), 3.0)
                        objs['data'] = layout(dsrc, lay if not (two_d and lay in ('column', 'row')) else 'contiguous', rng)
                        xin = layout(x, lay if lay in ('contiguous', 'strided', 'readonly', 'list') else 'contiguous', rng)
                        objs['x'] = xin
                        if two_d:
                            objs['z'] = layout(z, lay if lay in ('contiguous', 'strided', 'readonly', 'list') else 'contiguous', rng)
                        for arg in (optional if not dkind else ()):      # degenerate data: no user weights, so that the method's own mask decides
                            if arg == shadow:        # the shadowing key takes the place of the explicit argument
                                continue
                            shape = Y.shape
                            w = np.round(rng.uniform(0.3, 1, shape) * 32) / 32
                            if e['module'] == 'classification':
                                w = (w > 0.5).astype(float)
                            wl = lay if not (two_d and lay in ('column', 'row')) else 'contiguous'
                            objs[arg] = layout(w, wl, rng)
                            kw[arg] = objs[arg]
                        if name == 'interp_pts':
                            objs['baseline_points'] = layout(np.array(kw['baseline_points']), 'readonly' if lay == 'readonly' else 'contiguous', rng)
                            kw['baseline_points'] = objs['baseline_points']
                        if 'method_kwargs' in e['params']:
                            inner = {'lam': 1e4} if name not in ('adaptive_minmax',) else {}
                            if name == 'collab_pls' or name == 'optimize_extended_range' or name == 'custom_bc':
                                if not two_d and name != 'custom_bc':
                                    inner['weights'] = layout(np.round(rng.uniform(0.3, 1, Y.shape) * 32) / 32, 'contiguous', rng)
                            if name == 'individual_axes':
                                inner = {'lam': 1e3}
                            if shadow:
                                inner[shadow] = {'weights': layout(np.round(rng.uniform(0.3, 1, Y.shape[-2:] if two_d else Y.shape[-1:]) * 32) / 32, 'contiguous', rng),
                                                 'alpha': layout(np.round(rng.uniform(0.3, 1, Y.shape[-2:] if two_d else Y.shape[-1:]) * 32) / 32, 'contiguous', rng),
                                                 'tol': 1e-2, 'lam': 1e3, 'max_iter': 4, 'x_data': np.arange(float(Y.shape[-1]))}[shadow]
                            objs['method_kwargs'] = inner
                            kw['method_kwargs'] = inner
                            if name == 'individual_axes':
                                kw['method'] = 'asls'
                        if arrname:
                            objs[arrname] = kw[arrname]
                        for dk in ('pad_kwargs', 'window_kwargs'):
                            if dk in e['params']:
                                objs[dk] = {'mode': 'edge'} if dk == 'pad_kwargs' else {'max_hits': 2}
                                kw[dk] = objs[dk]
                        if raising:
                            # make the call raise after the inputs were processed
                            if 'lam' in e['params']:
                                kw['lam'] = -1.0
                            elif 'poly_order' in e['params']:
                                kw['poly_order'] = -1
                            elif 'half_window' in e['params']:
                                kw['half_window'] = -1
                            else:
                                continue
                        before = {k: snap(v) for k, v in objs.items()}
                        outcome = 'returned'
                        err = None
                        with Capture() as cap:
                            try:
                                with np.errstate(all='ignore'):
                                    fit = Baseline2D(objs['x'], objs['z']) if two_d else Baseline(objs['x'])
                                    fit.banded_solver = solver
                                    getattr(fit, name)(objs['data'], **kw)
                            except Exception as ex:
                                outcome = 'raised:' + type(ex).__name__
                                err = str(ex)
                        after = {k: snap(v) for k, v in objs.items()}
                        canon = (dim, name, xord, lay, raising, repr(sorted(act.items())) if activate else '', solver, tuple(sorted(objs)))
                        ctx.case(canon, nontrivial=bool(optional) or lay != 'contiguous' or len(objs) > 2,
                                 sample={'method': f'{dim}:{name}', 'x': xord, 'layout': lay, 'objects': sorted(objs), 'call': 'raising' if raising else 'returning'}
                                 if len(ctx.samples) < 5 and optional else None)
                        ctx.count('layout:' + lay)
                        ctx.count('outcome:' + outcome.split(':')[0])
                        meta = {'method': name, 'two_d': two_d, 'x_order': xord, 'layout': lay, 'raising': raising, 'objects': sorted(objs), 'banded_solver': solver,
                                'activated': act if activate else {}}
                        changed = [k for k in objs if before[k] != after[k]]
                        for k in changed:
                            dis.append(Disagreement('c13.mutated', f'{dim}:{name}:{k}', f'{dim} {name} ({lay} inputs, x {xord}, {"raising" if raising else "returning"} call, banded_solver={solver}'
                                                    f'{", " + str(act) if activate else ""}) '
                                                    f'modified the caller\'s {k}', dict(meta, object=k), True))
                        if lay == 'readonly' and err and 'read-only' in err:
                            dis.append(Disagreement('c13.readonly', f'{dim}:{name}:readonly', f'{dim} {name} attempted to write to a read-only caller array ({err[:80]})',
                                                    dict(meta, object='?'), True))
                        # aliasing observations vs the model (1-D; the first _setup_* event whose y IS the wrapper's y)
                        if cap.events and not raising and not stack and not two_d and name not in M.OPTIMIZERS_1D:
                            nm, y_core, a, k, out = cap.events[0]
                            user = objs['data']
                            srt = xord == 'unsorted'
                            ref = np.asarray(user, dtype=float).ravel()
                            if srt:
                                ref = ref[np.argsort(np.asarray(objs['x'], dtype=float), kind='mergesort')]
                            is_wrapper_y = isinstance(y_core, np.ndarray) and y_core.shape == ref.shape and np.array_equal(y_core, ref)
                            pairs = []
                            if is_wrapper_y:
                                pairs.append(('data', user, y_core, False))
                            wcore = out[1] if isinstance(out, tuple) and len(out) > 1 else None
                            if is_wrapper_y and 'weights' in objs and isinstance(wcore, np.ndarray) and nm in (
                                    '_setup_whittaker', '_setup_polynomial', '_setup_spline', '_setup_classification'):
                                pairs.append(('weights', objs['weights'], wcore, bool(k.get('copy_weights', False))))
                            for label, uobj, core, copy_in in pairs:
                                is_nd = isinstance(uobj, np.ndarray)
                                ua = uobj if is_nd else None
                                shares = bool(is_nd and np.shares_memory(ua, core))
                                if label == 'data' or nm == '_setup_polynomial':
                                    dtype_ok = is_nd and ua.dtype == np.float64
                                elif nm == '_setup_spline':      # dtype=float, order='C'
                                    dtype_ok = is_nd and ua.dtype == np.float64 and bool(ua.flags.c_contiguous or ua.flags.f_contiguous and ua.ndim == 1)
                                elif nm == '_setup_classification':
                                    dtype_ok = is_nd and ua.dtype == np.bool_
                                else:                             # _setup_whittaker: no dtype requested
                                    dtype_ok = is_nd
                                needs_ravel = bool(is_nd and ua.ndim == 2)
                                ravel_view = bool(is_nd and (ua.flags.c_contiguous or ua.flags.f_contiguous))
                                lines.append(f'c13.alias {int(is_nd)} {int(bool(dtype_ok))} {int(needs_ravel)} {int(ravel_view)} {int(srt)} {int(copy_in)}')
                                exp.append('1' if shares else '0')
                                metas.append(dict(meta, what=label, setup=nm))
                                ctx.count('alias:' + label + (':shares' if shares else ':fresh'))
    res = drive(lines)
    ctx.traces += len(lines)
    seen = set()
    for ln, r, e_, meta in zip(lines, res, exp, metas):
        if r != e_:
            key = (meta['method'], meta['two_d'], meta['what'], meta['layout'], meta['x_order'])
            if key in seen:
                continue
            seen.add(key)
            # sharing where the model says fresh means a later in-place write would reach the caller: model-level unless mutation was seen
            dis.append(Disagreement('c13.alias', f'alias:{"2d" if meta["two_d"] else "1d"}:{meta["method"]}:{meta["what"]}',
                                    f'{meta["method"]} ({meta["layout"]}, x {meta["x_order"]}): the core\'s {meta["what"]} '
                                    f'{"shares" if e_ == "1" else "does not share"} memory with the caller\'s array, the model says '
                                    f'{"shares" if r == "1" else "fresh"} ({ln})', meta, False))
    # object-history fuzzer (hist.py): the same caller objects (data buffer, weights array, x, z, keyword dictionaries) are handed to
    # several calls on one long-lived fitter; no call may change them
    from . import hist
    if not getattr(ctx, 'only', None):
        for spec, f in hist.campaign(ctx, rng, 'mutated', 60 if ctx.thorough else 25, 20 if ctx.thorough else 8, sys_what=('repeat', 'pairs'), max_pairs=None if ctx.thorough else 260):
            dis.append(Disagreement('c13.fuzz', f'fuzz:{"2d" if spec["two_d"] else "1d"}:{spec["steps"][-1]["method"]}',
                                    f'history on one fitter: {hist.describe(spec)[:700]} — call {f[0] + 1}: {f[2]}', {'kind': 'fuzz', 'spec': spec, 'method': '<history>'}, True))
    return dis


def search(ctx, hints, lean_failed):
    sub = type(ctx)(ctx.prop, 'thorough', ctx.seed + 1)
    return [d for d in correspond(sub) if d.property_level]


def replay(ctx, data):
    r = data['replay']
    if r.get('kind') == 'fuzz':
        from . import hist
        f = [x for x in hist.run(r['spec'], want=('mutated',)) if x[1] == 'mutated']
        return f'call {f[0][0] + 1}: {f[0][2]}' if f else None
    sub = type(ctx)(ctx.prop, 'thorough', 0)
    sub.only = r.get('method')
    sub.no_corpus = True
    for d in correspond(sub):
        if d.property_level and isinstance(d.replay, dict) and d.replay.get('method') == r.get('method') and d.replay.get('object') == r.get('object') \
                and d.replay.get('two_d') == r.get('two_d'):
            return d.detail
    return None
