"""C01 / C09 — the tie of the translated loop table (`Gen/Loops.lean`, harness/pbv/translate_loops.py) to the running code.

Three correspondences, all through the compiled Lean driver (the rows are looked up in the generated Lean table itself):

 * table: the row the Lean side holds equals the translator's parse, every row meets the decidable conditions (`ok`), and the
   budget code of golden/loop_budget.json is what the row's loop header says;
 * single loops: one REAL run with tol = 0 yields the method's recorded values (and where its early-exit flag fired); the row,
   run by `LoopTbl.run` on that stream, predicts for a grid of (max_iter, tol) — 0 and 1 included — whether the call raises, the
   length of the returned record, the stop reason, the raw slice bound and WHICH indices of the allocation are written; the real
   method is run on the same grid under `LoopSpy`, which observes the real allocation, the real set of written indices and the real
   returned slice (the allocation is filled with a marker NaN right after it is made; whatever still carries the marker was
   never written);
 * two-level loops (brpls family, goldindec): the outcomes of a real run are read back from its own record and the row must
   reproduce the written set, the returned shape and the allocation.
"""
import struct
import sys

import numpy as np

from . import methods as M
from . import translate_loops as TL
from .common import Disagreement, drive, q, qs

MARK_BITS = 0x7FF8DEAD0000BEEF          # a quiet NaN with a payload no computation produces
BIG_TOL = '1' + '0' * 400               # stands for tol = inf in the exact protocol


class LoopSpy:
    """observes `tol_history` inside the frame of the function a row was read from (sys.settrace on that frame only):
    the allocation is overwritten with MARK right after it is made, and a snapshot of the whole array is taken when the
    frame returns or raises"""

    def __init__(self, file, name):
        self.suffix = '/pybaselines/' + file
        self.name = name
        self.th = None          # the allocated array
        self.shape = None
        self.final = None       # snapshot (bit patterns) at frame exit
        self.locals = {}
        self.calls = 0

    def __enter__(self):
        self._old = sys.gettrace()
        sys.settrace(self._global)
        return self

    def __exit__(self, *exc):
        sys.settrace(self._old)

    def _global(self, frame, event, arg):
        co = frame.f_code
        if co.co_name == self.name and co.co_filename.replace('\\', '/').endswith(self.suffix):
            self.calls += 1
            return self._local
        return None

    def _local(self, frame, event, arg):
        th = frame.f_locals.get('tol_history')
        if th is not None and self.th is None and isinstance(th, np.ndarray) and th.dtype == np.float64:
            self.th = th
            self.shape = th.shape
            th.view(np.uint64)[...] = MARK_BITS
        if event in ('return', 'exception') and self.th is not None:
            self.final = self.th.view(np.uint64).copy()
            loc = frame.f_locals
            self.locals = {k: loc[k] for k in ('i', 'j', 'j_max') if k in loc and isinstance(loc[k], (int, np.integer))}
        return self._local

    def written(self):
        """indices of the allocation that no longer carry the marker"""
        if self.final is None:
            return None
        return np.argwhere(self.final != MARK_BITS)

    def values(self):
        return self.final.view(np.float64)


def _stage(ctx):
    return f'{ctx.prop.lower()}.looptbl'


def _rows():
    return TL.table()


def rows():
    return [x for x in _rows() if x[2] != 'failed']


def budget_codes():
    """key -> 'N+1' / 'N' / 'N-1' read off the translated loop headers (single loops; None where functions of one key differ)"""
    out = {}
    for key, func, kind, r in _rows():
        if kind != 'single':
            continue
        c = TL.budget_code(r)
        out[key] = c if out.get(key, c) == c else None
    return out


def _body_text(r):
    return ','.join(f'w{e[1]}' if e[0] == 'write' else f'b{e[1]}{e[2]}' for e in r['body']) or '-'


def table_check(ctx, golden):
    """Lean's table == the translator's parse; every row ok; golden budget codes are corollaries of the rows"""
    dis = []
    rows = _rows()
    for key, func, kind, r in rows:
        if kind == 'failed':
            dis.append(Disagreement(_stage(ctx), f'translate:{func}', f'{func} ({key}): the loop is outside the translated fragment: {r}',
                                    {'kind': 'translate', 'func': func}))
    live = [(key, func, kind, r) for key, func, kind, r in rows if kind != 'failed']
    outs = drive(['c01.tblcount'] + [f'c01.tblrow {func}' for key, func, kind, r in live])
    ctx.traces += len(outs)
    ns, nn, nf, ok = outs[0].split(' ')
    want = (sum(1 for x in live if x[2] == 'single'), sum(1 for x in live if x[2] == 'nested'), len(rows) - len(live))
    if (int(ns), int(nn), int(nf)) != want:
        dis.append(Disagreement(_stage(ctx), 'table:count', f'the Lean table has {ns} single / {nn} two-level / {nf} failed rows, the translator '
                                f'produced {want}', {'kind': 'table'}))
    for (key, func, kind, r), o in zip(live, outs[1:]):
        t = o.split(' ')
        ctx.case(('tblrow', func), nontrivial=True)
        if kind == 'single':
            mine = ['single', key, r['alloc'][0], r['alloc'][1], r['cols'], int(r['zeroed']), r['guard'], r['lo'], r['hi'][0], r['hi'][1],
                    r['slice'], r['hi'][1] - r['lo']]
            if t[:12] != [str(v) for v in mine] or t[14] != _body_text(r):
                dis.append(Disagreement(_stage(ctx), f'table:{func}', f'{func}: the generated Lean row "{o}" differs from the translator\'s parse {mine}',
                                        {'kind': 'table', 'func': func}))
            elif t[12] != '1':
                dis.append(Disagreement(_stage(ctx), f'rowok:{func}', f'{func} ({key}): the loop as written does not meet the row conditions '
                                        f'(writes inside the allocation, slice = entries written, at most max_iter + 1 steps): {o}',
                                        {'kind': 'rowok', 'func': func, 'row': {k: v for k, v in r.items() if k not in ('file', 'name')}}))
            elif t[13] == 'none':
                dis.append(Disagreement(_stage(ctx), f'shape:{func}', f'{func} ({key}): the loop body does not have the skeleton\'s shape: {o}',
                                        {'kind': 'rowshape', 'func': func}))
        else:
            if t[0] != 'nested' or t[1] != key or t[10] != '1':
                dis.append(Disagreement(_stage(ctx), f'rowok:{func}', f'{func} ({key}): the two-level loop as written does not meet the row '
                                        f'conditions (writes inside allocation and slice, slice inside the allocation, no entry written twice): {o}', {'kind': 'rowok', 'func': func}))
    # golden/loop_budget.json against the table
    codes = budget_codes()
    for key, code in sorted(golden.items()):
        if key not in codes:
            dis.append(Disagreement(_stage(ctx), f'budget:{key}', f'golden/loop_budget.json lists {key} ({code}) but no translated loop belongs to it',
                                    {'kind': 'budget', 'key': key}))
        elif codes[key] != code:
            dis.append(Disagreement(_stage(ctx), f'budget:{key}', f'{key}: golden/loop_budget.json says {code}, the loop header in the source says '
                                    f'{codes[key]}', {'kind': 'budget', 'key': key}))
    extra = sorted(k for k in codes if k not in golden)
    if extra:
        ctx.notes.append('translated single loops without an entry in golden/loop_budget.json (the table is the source now): ' + ', '.join(extra))
    return dis


# ----------------------------------------------------------------------------- real runs
def _call(two_d, name, e, x, z, y, kw):
    from pybaselines import Baseline, Baseline2D
    fit = Baseline2D(x, z) if two_d else Baseline(x)
    with np.errstate(all='ignore'):
        return getattr(fit, name)(y, **kw)


def spied(row, two_d, name, e, x, z, y, kw):
    """(outcome, params, spy): outcome 'returned' | exception type name"""
    spy = LoopSpy(row['file'], row['name'])
    saved = None
    if row['name'] == '_sparse_beads':
        import pybaselines.misc as misc
        saved = misc._HAS_NUMBA
        misc._HAS_NUMBA = False       # beads uses its sparse implementation when Numba is absent: route the call there
    try:
        with spy:
            b, p = _call(two_d, name, e, x, z, y, kw)
        return 'returned', p, spy
    except Exception as ex:       # noqa: BLE001 - the kind of exception is the observation
        return type(ex).__name__, None, spy
    finally:
        if saved is not None:
            misc._HAS_NUMBA = saved


def _method_of(key):
    two_d = key.startswith('2d.')
    return two_d, key[3:] if two_d else key


def _data(rng, two_d, smooth=False):
    if two_d:
        x, z, y = M.make_data2d(rng, 14, 11)
        return x, z, (np.round(y) if smooth else y)
    x, y = M.make_data(rng, 60)
    return x, None, (np.round(y) if smooth else y)


def _flag_positions(r):
    pre = [p for p, e in enumerate(r['body']) if e[0] == 'brk' and e[1] == 'flag']
    post = [p for p, e in enumerate(r['body']) if e[0] == 'brk' and e[1] in ('tolOr', 'tolAnd')]
    return pre, post


def replay_single(ctx, key, func, r, rng, K=8, smooth=False, force=None, data=None, note=''):
    """trajectory replay of one single-loop row; returns a list of Disagreements"""
    two_d, name = _method_of(key)
    reg = M.registry(two_d)
    dim = '2d' if two_d else '1d'
    if name not in reg:
        return [Disagreement(_stage(ctx), f'{dim}:{name}:unregistered', f'{func}: no public method {key}', {'kind': 'looptbl', 'func': func})]
    e = reg[name]
    kw0 = M.filter_kwargs(e, M.call_kwargs(name, two_d))
    kw0.update(force or {})
    x, z, y = data if data is not None else _data(rng, two_d, smooth)
    sig = f'{dim}:{name}:looptbl'
    meta0 = {'kind': 'looptbl', 'func': func, 'method': name, 'two_d': two_d}
    dis = []

    def bad(detail, meta, prop=True):
        dis.append(Disagreement(_stage(ctx), sig, f'{func}: {detail}{note}', dict(meta0, **meta), prop))
    K = max(K, r['guard'])
    out, p, spy = spied(r, two_d, name, e, x, z, y, dict(kw0, max_iter=K, tol=0))
    if spy.calls == 0:
        ctx.count('looptbl:function-not-reached:' + func)
        return dis
    if out != 'returned' or 'tol_history' not in p or spy.final is None:
        ctx.count(f'looptbl:reference-run-{out}:{key}')
        if out == 'IndexError':
            bad(f'(max_iter={K}, tol=0) raised IndexError (theorem (a): every write of the loop is inside the allocation)', {'max_iter': K, 'tol': 0})
        return dis
    budget = max(0, r['hi'][0] * K + r['hi'][1] - r['lo'])
    ret = np.asarray(p['tol_history'])
    full = spy.values()
    if np.any(ret.view(np.uint64) == MARK_BITS):
        bad(f'(max_iter={K}, tol=0): the returned tol_history ({ret.shape[0]} entries) contains {int(np.sum(ret.view(np.uint64) == MARK_BITS))} '
            f'entries that were never written (uninitialised np.empty memory)', {'max_iter': K, 'tol': 0})
    # the stream is what the run WROTE (in index order), not what it handed back
    widx = sorted(set(int(ix[0]) for ix in spy.written()))
    L = len(widx)
    if widx != list(range(L)):
        bad(f'(max_iter={K}, tol=0): the run wrote tol_history at indices {widx}, not at 0..{L - 1}', {'max_iter': K, 'tol': 0}, False)
        return dis
    stream = (full[:L] if full.ndim == 1 else full[:L, 0]).tolist()
    second = None if full.ndim == 1 else full[:L, 1].tolist()
    if not all(np.isfinite(v) for v in stream) or (second and not all(np.isfinite(v) for v in second)):
        ctx.count('looptbl:nonfinite-stream')
        return dis
    pre, post = _flag_positions(r)
    flags = []
    if L < budget:
        # with tol = 0 no recorded value is below tol: the run can only have stopped through a flag of the row
        if pre:
            flags.append((L, pre[0]))
        elif post and r['body'][post[0]][1] == 'tolOr' and L >= 1:
            flags.append((L - 1, post[0]))
        else:
            bad(f'with max_iter={K}, tol=0 the loop stopped after {L} of {budget} steps although the loop has no early exit',
                {'max_iter': K, 'tol': 0})
            return dis
    tol2 = kw0.get('tol_2', e['params'].get('tol_2'))
    tols = sorted({0.0, 1e-3, float(np.median(stream)) if stream else 1e-3, (min(stream) * 0.5) if stream else 1e-3,
                   (max(stream) * 2) if stream else 1.0, float('inf')})
    ms = sorted({0, 1, 2, K // 2, K, r['guard'], max(r['guard'] - 1, 0)})
    lines, cases = [], []
    for m in ms:
        if m < r['guard']:
            cases.append((m, None))
            continue
        for tol in tols:
            fl = list(flags)
            if second is not None and post and r['body'][post[0]][1] == 'tolAnd':
                fl += [(k, post[0]) for k, v in enumerate(second) if v < tol2]
            tq = q(tol) if np.isfinite(tol) else BIG_TOL
            lines.append(f'c01.tblrun {func} {m} {tq} {qs(stream)} ' + (','.join(f'{k}:{pp}' for k, pp in fl) or '-'))
            cases.append((m, tol))
    preds = iter(drive(lines))
    ctx.traces += len(lines)
    for m, tol in cases:
        if tol is None:
            # below the guard the fragment is not reached: no convergence record is made
            out2, p2, spy2 = spied(r, two_d, name, e, x, z, y, dict(kw0, max_iter=m))
            ctx.case(('looptbl', func, m, 'guard'), nontrivial=True)
            if out2 == 'returned' and ('tol_history' in p2 or spy2.th is not None):
                bad(f'max_iter={m} is below the guard max_iter >= {r["guard"]} read from the source, yet a tol_history was made',
                    {'max_iter': m}, False)
            continue
        pr = next(preds)
        out2, p2, spy2 = spied(r, two_d, name, e, x, z, y, dict(kw0, max_iter=m, tol=tol))
        ctx.case(('looptbl', func, m, tol), nontrivial=True)
        meta = {'max_iter': m, 'tol': tol, 'predicted': pr}
        if pr == 'raised':
            ctx.count('looptbl:raised')
            if out2 == 'returned':
                bad(f'(max_iter={m}, tol={tol:g}): the row predicts an exception (empty range, loop variable unbound) but the call returned', meta, False)
            elif out2 not in ('UnboundLocalError', 'NameError'):
                ctx.count('looptbl:raised-other:' + out2)
            continue
        plen, reason, steps, sl, wr = pr.split(' ')
        ctx.count('looptbl:' + reason)
        if out2 != 'returned':
            # theorem (a): every write is inside the allocation — an IndexError out of the loop's own bookkeeping is a failure of the
            # property itself, any other exception only a difference between model and code
            bad(f'(max_iter={m}, tol={tol:g}) raised {out2}; the row predicts a record of {plen} entries', meta, out2 == 'IndexError')
            continue
        th2 = np.asarray(p2['tol_history'])
        alloc = r['alloc'][0] * m + r['alloc'][1]
        if spy2.shape is not None and spy2.shape[0] != alloc:
            bad(f'(max_iter={m}): the allocation has {spy2.shape[0]} entries, the row says {alloc}', meta, False)
        if th2.shape[0] != int(plen):
            bad(f'(max_iter={m}, tol={tol:g}): tol_history has {th2.shape[0]} entries, the loop as translated run on the method\'s own '
                f'stream gives {plen} ({reason})', dict(meta, real_len=int(th2.shape[0])))
            continue
        if th2.shape[0] > m + 1:
            bad(f'(max_iter={m}): tol_history has {th2.shape[0]} > max_iter + 1 entries', meta)
        if np.any(th2.view(np.uint64) == MARK_BITS):
            bad(f'(max_iter={m}, tol={tol:g}): the returned tol_history contains {int(np.sum(th2.view(np.uint64) == MARK_BITS))} entries '
                f'that were never written (uninitialised np.empty memory)', meta)
        want = sorted(int(t.split('@')[0]) for t in wr.split(',')) if wr != '-' else []
        got = sorted(set(int(ix[0]) for ix in spy2.written())) if spy2.final is not None else None
        if got is not None and got != want:
            bad(f'(max_iter={m}, tol={tol:g}): the call wrote tol_history at indices {got}, the row predicts {want}', meta, False)
        nv = min(int(plen), len(stream))      # entries beyond the recorded ones are reported above as never written
        ref = np.asarray(stream[:nv]) if second is None else np.column_stack([stream[:nv], second[:nv]])
        if not np.array_equal(th2[:nv], ref.reshape(th2[:nv].shape)):
            bad(f'(max_iter={m}, tol={tol:g}): tol_history is not a prefix of the longer run\'s record', meta)
        if reason == 'converged' and int(plen) >= 1 and not (th2.reshape(th2.shape[0], -1)[-1, 0] < tol):
            bad(f'(max_iter={m}, tol={tol:g}): reported converged but the last entry is not below tol', meta)
    return dis


def replay_nested(ctx, key, func, r, rng, smooth=False):
    """self-consistency replay of a two-level row: outcomes are read back from the real record"""
    two_d, name = _method_of(key)
    reg = M.registry(two_d)
    dim = '2d' if two_d else '1d'
    e = reg[name]
    kw0 = M.filter_kwargs(e, M.call_kwargs(name, two_d))
    x, z, y = _data(rng, two_d, smooth)
    sig = f'{dim}:{name}:looptbl'
    meta0 = {'kind': 'looptbl', 'func': func, 'method': name, 'two_d': two_d}
    dis = []
    grid = [(0, 0), (0, 2), (2, 0), (1, 1), (1, 3), (3, 1), (4, 2), (2, 5), (6, 6)]
    tolset = [(1e-3, 1e-3), (0.0, 0.0), (0.5, 1e-3), (1e-3, 0.5), (float('inf'), 1e-3)]
    pick = [(g, t) for g in grid for t in tolset]
    pick = [pick[i] for i in sorted(rng.choice(len(pick), min(len(pick), 16 if not ctx.thorough else len(pick)), replace=False))]
    iw = [(p, ev) for p, ev in enumerate(r['ibody']) if ev[0] == 'write']
    iflag = [p for p, ev in enumerate(r['ibody']) if ev[0] == 'brk' and ev[1] == 'flag']
    lines, obs = [], []
    for (m, m2), (tol, tol2) in pick:
        kw = dict(kw0, max_iter=m, max_iter_2=m2, tol=tol, tol_2=tol2)
        out, p, spy = spied(r, two_d, name, e, x, z, y, kw)
        ctx.case(('looptbl', func, m, m2, tol, tol2), nontrivial=True)
        n_o, n_i = m2 + r['ohi'], m + r['ihi']
        meta = dict(meta0, max_iter=m, max_iter_2=m2, tol=tol, tol_2=tol2)
        if n_o <= 0 or n_i <= 0:
            ctx.count('looptbl:nested-raised')
            if out == 'returned':
                dis.append(Disagreement(_stage(ctx), sig, f'{func}(max_iter={m}, max_iter_2={m2}): an empty range leaves a loop variable '
                                        f'unbound (the row predicts an exception) but the call returned', meta))
            continue
        if out != 'returned' or spy.final is None:
            ctx.count('looptbl:nested-' + out)
            continue
        Mx = spy.values()
        W = spy.final != MARK_BITS
        ret = np.asarray(p['tol_history'])
        if spy.shape != (m2 + r['rows'], max(m, m2) + r['colc']):
            dis.append(Disagreement(_stage(ctx), sig, f'{func}(max_iter={m}, max_iter_2={m2}): allocation {spy.shape}, the row says '
                                    f'{(m2 + r["rows"], max(m, m2) + r["colc"])}', meta))
            continue
        if not np.all(np.isfinite(Mx[W])):
            ctx.count('looptbl:nested-nonfinite')
            continue
        # outer steps started = entries of the first outer write's row
        ow = [(pp, ev) for pp, ev in enumerate(r['outer']) if ev[0] == 'write']
        ob = [pp for pp, ev in enumerate(r['outer']) if ev[0] == 'brk']
        row0, c0 = ow[0][1][1], ow[0][1][2]
        steps = int(np.sum(W[row0]))
        if steps == 0:
            ctx.count('looptbl:nested-no-step')
            continue
        D, FL, OFL = [], [], []
        for a in range(steps):
            ro, co = iw[0][1][1], iw[0][1][2]
            inside = 0 <= a + ro < W.shape[0]
            na = int(np.sum(W[a + ro])) if inside else 0
            vals = Mx[a + ro, co:co + na].tolist() if inside else []
            D.append(vals)
            conv = na >= 1 and vals[-1] < tol
            if not conv and na < n_i:
                if iflag:
                    FL.append((a, na, iflag[0]))
                else:
                    dis.append(Disagreement(_stage(ctx), sig, f'{func}: inner loop of outer step {a} stopped after {na} of {n_i} steps, '
                                            f'last value not below tol and the loop has no early exit', meta))
        a = steps - 1
        done = [bool(W[ev[1], a + ev[2]]) for pp, ev in ow]
        fired = None
        for pb in ob:
            before = [dn for (pp, ev), dn in zip(ow, done) if pp < pb]
            after = [dn for (pp, ev), dn in zip(ow, done) if pp > pb]
            if all(before) and not any(after):
                if after or steps < n_o:
                    fired = pb
                    break
        if fired is not None:
            OFL.append((a, fired))
        dtxt = ';'.join(qs(v) for v in D)
        tq = q(tol) if np.isfinite(tol) else BIG_TOL
        lines.append(f'c01.nestrun {func} {m} {m2} {tq} {dtxt} ' + (','.join(f'{a}:{k}:{pp}' for a, k, pp in FL) or '-') + ' '
                     + (','.join(f'{a}:{pp}' for a, pp in OFL) or '-'))
        obs.append((meta, W, ret, Mx))
    preds = drive(lines)
    ctx.traces += len(lines)
    for (meta, W, ret, Mx), pr in zip(obs, preds):
        if pr == 'raised':
            dis.append(Disagreement(_stage(ctx), sig, f'{func}{(meta["max_iter"], meta["max_iter_2"])}: the row predicts an exception but the call returned', meta))
            continue
        srow, scol, steps, wr = pr.split(' ')
        want = sorted(tuple(int(v) for v in t.split(':')) for t in wr.split(',')) if wr != '-' else []
        got = sorted((int(a), int(b)) for a, b in np.argwhere(W))
        ctx.count('looptbl:nested-replayed')
        if len(set(want)) != len(want):
            twice = sorted(set(t for t in want if want.count(t) > 1))
            dis.append(Disagreement(_stage(ctx), sig, f'{func}(max_iter={meta["max_iter"]}, max_iter_2={meta["max_iter_2"]}, tol={meta["tol"]:g}, '
                                    f'tol_2={meta["tol_2"]:g}): the loop as written records two values into the same entry {twice} (one is lost)', meta, True))
        elif got != want:
            dis.append(Disagreement(_stage(ctx), sig, f'{func}(max_iter={meta["max_iter"]}, max_iter_2={meta["max_iter_2"]}, tol={meta["tol"]:g}, '
                                    f'tol_2={meta["tol_2"]:g}): the call wrote tol_history at {got}, the row run on the recorded outcomes writes {want}', meta))
        if ret.shape != (int(srow), int(scol)):
            dis.append(Disagreement(_stage(ctx), sig, f'{func}(max_iter={meta["max_iter"]}, max_iter_2={meta["max_iter_2"]}, tol={meta["tol"]:g}, '
                                    f'tol_2={meta["tol_2"]:g}): returned tol_history has shape {ret.shape}, the row gives ({srow}, {scol})', meta, True))
        elif not np.array_equal(ret.view(np.uint64), Mx[:int(srow), :int(scol)].view(np.uint64)):
            dis.append(Disagreement(_stage(ctx), sig, f'{func}: the returned tol_history is not the slice [:{srow}, :{scol}] of the allocation', meta, True))
        inside = all(a < int(srow) and b < int(scol) for a, b in got)
        if not inside:
            dis.append(Disagreement(_stage(ctx), sig, f'{func}: a recorded entry lies outside the returned slice ({srow}, {scol}): {got}', meta, True))
    return dis


def noise_free(two_d):
    """noise-free signals: the residuals of a good fit have fewer than two negative entries, which is what the rules' documented
    early exit tests"""
    if two_d:
        X, Z = np.meshgrid(np.linspace(0, 1, 14), np.linspace(0, 1, 11), indexing='ij')
        return {'sharp': 3 + X + 20 * np.exp(-(((X - 0.5) / 0.05) ** 2 + ((Z - 0.5) / 0.05) ** 2)), 'plane': 3 + X + 2 * Z}
    t = np.linspace(0, 1, 60)
    return {'sharp': 3 + t + 20 * np.exp(-((t - 0.5) / 0.02) ** 2), 'line': 3 + 2 * t}


def correspond(ctx, golden, rng):
    dis = table_check(ctx, golden)
    rows = [(key, func, kind, r) for key, func, kind, r in _rows() if kind != 'failed']
    for key, func, kind, r in rows:
        smooth = rng.random() < 0.3       # nearly noise-free data provoke the documented early exit of some rules
        if kind == 'single':
            if True:
                dis += replay_single(ctx, key, func, r, rng, smooth=smooth)
                if any(ev[0] == 'brk' and ev[1] == 'flag' for ev in r['body']):
                    # the early-exit path: noise-free data (C09 replays every such row on all of them)
                    two_d = key.startswith('2d.')
                    sets = noise_free(two_d)
                    names = sorted(sets) if ctx.thorough else [sorted(sets)[int(rng.integers(0, len(sets)))]]
                    x, z, _ = _data(rng, two_d)
                    for dn in names:
                        dis += replay_single(ctx, key, func, r, rng, K=24, data=(x, z, sets[dn]), note=f' [noise-free {dn} data]')
        else:
            dis += replay_nested(ctx, key, func, r, rng, smooth=smooth)
    return dis


def replay(ctx, r):
    """re-run the replay of one row (a few data seeds, noisy and nearly noise-free); returns the first property-level failure"""
    rows = {func: (key, func, kind, row) for key, func, kind, row in _rows() if kind != 'failed'}
    if r.get('func') not in rows:
        return None
    key, func, kind, row = rows[r['func']]
    for seed in range(3):
        for smooth in (False, True):
            rng = np.random.default_rng(seed)
            sub = type(ctx)(ctx.prop, ctx.tier, seed)
            ds = replay_single(sub, key, func, row, rng, smooth=smooth) if kind == 'single' else replay_nested(sub, key, func, row, rng, smooth=smooth)
            for d in ds:
                if d.property_level:
                    return d.detail
    return None
