"""Registry of the public methods, obtained by introspection of the imported package (Route A,
`Gen/Registry`): closure cells of `_register.inner`, signatures, and how to call each method on
small data.  Nothing here is typed in from the docs except the minimal extra kwargs a method needs
to run on small arrays."""
import inspect
import warnings

import numpy as np

warnings.simplefilter('ignore')


def _cells(f):
    out = {}
    if getattr(f, '__closure__', None):
        for nm, c in zip(f.__code__.co_freevars, f.__closure__):
            if nm != 'func':
                try:
                    out[nm] = c.cell_contents
                except ValueError:
                    pass
    return out


def registry(two_d=False):
    from pybaselines import Baseline, Baseline2D
    cls = Baseline2D if two_d else Baseline
    reg = {}
    for n, f in inspect.getmembers(cls, inspect.isfunction):
        if n.startswith('_') or not hasattr(f, '__wrapped__'):
            continue
        sig = inspect.signature(f)
        reg[n] = {
            'cells': _cells(f),
            'params': {p: (None if v.default is inspect._empty else v.default)
                       for p, v in sig.parameters.items() if p not in ('self', 'data', 'kwargs')},
            'module': inspect.getmodule(f.__wrapped__).__name__.split('.')[-1],
            'var_kw': any(v.kind is inspect.Parameter.VAR_KEYWORD for v in sig.parameters.values()),
        }
    return reg


# minimal kwargs needed for a method to run on small data (everything else is the default)
EXTRA_1D = {
    'collab_pls': {},            # needs 2-D stacked data: handled by callers (kind 'stack')
    'optimize_extended_range': {},
    'custom_bc': {},
    'interp_pts': {},            # needs baseline_points
}

OPTIMIZERS_1D = ('collab_pls', 'optimize_extended_range', 'adaptive_minmax', 'custom_bc')
OPTIMIZERS_2D = ('collab_pls', 'adaptive_minmax', 'individual_axes')

# iterative methods with weights outputs / tol_history handled via introspection of returned params


def make_data(rng, n, kind='noisy'):
    """1-D test signal on x in [x0, x1]: smooth baseline + gaussian peaks + noise (noise dyadic so that
    data are ordinary floats)."""
    x = np.sort(rng.uniform(0, 100, n)) if kind == 'random_x' else np.linspace(0, 100, n)
    base = 5 + 0.05 * x + 1e-3 * (x - 40) ** 2
    peaks = 8 * np.exp(-0.5 * ((x - 30) / 3) ** 2) + 12 * np.exp(-0.5 * ((x - 65) / 4) ** 2)
    noise = rng.normal(0, 0.15, n)
    return x, base + peaks + noise


def make_data2d(rng, m, n):
    x = np.linspace(-20, 30, m)
    z = np.linspace(0, 50, n)
    X, Z = np.meshgrid(x, z, indexing='ij')
    base = 3 + 0.02 * X + 0.03 * Z + 1e-3 * X * Z
    peaks = 9 * np.exp(-0.5 * (((X - 5) / 6) ** 2 + ((Z - 25) / 5) ** 2))
    return x, z, base + peaks + rng.normal(0, 0.1, (m, n))


def call_kwargs(name, two_d=False, n=None, small=True):
    """kwargs making `name` run quickly on small data; parameters the signature does not have are
    dropped by the caller via `filter_kwargs`."""
    kw = {}
    if two_d:
        if name in ('collab_pls',):
            kw = {}
        elif name == 'individual_axes':
            kw = {'method': 'asls', 'method_kwargs': {'lam': 1e3}}
        if 'pspline' in name or name in ('mixture_model', 'irsqr'):
            kw.update(num_knots=(6, 5))
        if name in ('mor', 'imor', 'rolling_ball', 'tophat', 'noise_median'):
            kw.update(half_window=(3, 2))
    else:
        if name == 'interp_pts':
            kw = {'baseline_points': ((5., 6.), (50., 9.), (95., 14.))}
        if name in ('mor', 'imor', 'mormol', 'amormol', 'rolling_ball', 'mwmv', 'tophat', 'mpls',
                    'jbcd', 'mpspline', 'pspline_mpls'):
            kw.update(half_window=4)
        if name in ('noise_median', 'ipsa', 'ria', 'swima'):
            kw.update(half_window=4) if name != 'swima' else None
        if name == 'snip':
            kw.update(max_half_window=6)
        if name == 'loess':
            kw.update(fraction=0.5)
        if 'pspline' in name or name in ('mixture_model', 'irsqr', 'corner_cutting', 'mpspline'):
            if name not in ('corner_cutting',):
                kw.update(num_knots=12)
    return kw


def filter_kwargs(reg_entry, kw):
    if reg_entry['var_kw']:
        return dict(kw)
    return {k: v for k, v in kw.items() if k in reg_entry['params']}
