"""Registry of the public methods, obtained by introspection of the imported package (Route A,
`Gen/Registry`): closure cells of `_register.inner`, signatures, and how to call each method on
small data.  Nothing here is typed in from the docs except the minimal extra kwargs a method needs
to run on small arrays."""
import inspect
import warnings

import numpy as np

warnings.simplefilter('ignore')


def _cells(f):
    out = {}
    if getattr(f, '__closure__', None):
        for nm, c in zip(f.__code__.co_freevars, f.__closure__):
            if nm != 'func':
                try:
                    out[nm] = c.cell_contents
                except ValueError:
                    pass
    return out


def registry(two_d=False):
    from pybaselines import Baseline, Baseline2D
    cls = Baseline2D if two_d else Baseline
    reg = {}
    for n, f in inspect.getmembers(cls, inspect.isfunction):
        if n.startswith('_') or not hasattr(f, '__wrapped__'):
            continue
        sig = inspect.signature(f)
        reg[n] = {
            'cells': _cells(f),
            'params': {p: (None if v.default is inspect._empty else v.default)
                       for p, v in sig.parameters.items() if p not in ('self', 'data', 'kwargs')},
            'module': inspect.getmodule(f.__wrapped__).__name__.split('.')[-1],
            'var_kw': any(v.kind is inspect.Parameter.VAR_KEYWORD for v in sig.parameters.values()),
        }
    return reg


# minimal kwargs needed for a method to run on small data (everything else is the default)
EXTRA_1D = {
    'collab_pls': {},            # needs 2-D stacked data: handled by callers (kind 'stack')
    'optimize_extended_range': {},
    'custom_bc': {},
    'interp_pts': {},            # needs baseline_points
}

OPTIMIZERS_1D = ('collab_pls', 'optimize_extended_range', 'adaptive_minmax', 'custom_bc')
OPTIMIZERS_2D = ('collab_pls', 'adaptive_minmax', 'individual_axes')

# iterative methods with weights outputs / tol_history handled via introspection of returned params


def make_data(rng, n, kind='noisy'):
    """1-D test signal on x in [x0, x1]: smooth baseline + gaussian peaks + noise (noise dyadic so that
    data are ordinary floats)."""
    x = np.sort(rng.uniform(0, 100, n)) if kind == 'random_x' else np.linspace(0, 100, n)
    base = 5 + 0.05 * x + 1e-3 * (x - 40) ** 2
    peaks = 8 * np.exp(-0.5 * ((x - 30) / 3) ** 2) + 12 * np.exp(-0.5 * ((x - 65) / 4) ** 2)
    noise = rng.normal(0, 0.15, n)
    return x, base + peaks + noise


def make_data2d(rng, m, n):
    x = np.linspace(-20, 30, m)
    z = np.linspace(0, 50, n)
    X, Z = np.meshgrid(x, z, indexing='ij')
    base = 3 + 0.02 * X + 0.03 * Z + 1e-3 * X * Z
    peaks = 9 * np.exp(-0.5 * (((X - 5) / 6) ** 2 + ((Z - 25) / 5) ** 2))
    return x, z, base + peaks + rng.normal(0, 0.1, (m, n))


def call_kwargs(name, two_d=False, n=None, small=True):
    """kwargs making `name` run quickly on small data; parameters the signature does not have are
    dropped by the caller via `filter_kwargs`."""
    kw = {}
    if two_d:
        if name in ('collab_pls',):
            kw = {}
        elif name == 'individual_axes':
            kw = {'method': 'asls', 'method_kwargs': {'lam': 1e3}}
        if 'pspline' in name or name in ('mixture_model', 'irsqr'):
            kw.update(num_knots=(6, 5))
        if name in ('mor', 'imor', 'rolling_ball', 'tophat', 'noise_median'):
            kw.update(half_window=(3, 2))
    else:
        if name == 'interp_pts':
            kw = {'baseline_points': ((5., 6.), (50., 9.), (95., 14.))}
        if name in ('mor', 'imor', 'mormol', 'amormol', 'rolling_ball', 'mwmv', 'tophat', 'mpls',
                    'jbcd', 'mpspline', 'pspline_mpls'):
            kw.update(half_window=4)
        if name in ('noise_median', 'ipsa', 'ria', 'swima'):
            kw.update(half_window=4) if name != 'swima' else None
        if name == 'snip':
            kw.update(max_half_window=6)
        if name == 'loess':
            kw.update(fraction=0.5)
        if name == 'golotvin':
            # with the defaults the mask is all False on the generated signals (a constant per-point output says nothing about
            # ordering, shapes or aliasing); these values give a mixed mask for every generated size
            kw.update(half_window=2, num_std=4.0, sections=4)
        if 'pspline' in name or name in ('mixture_model', 'irsqr', 'corner_cutting', 'mpspline'):
            if name not in ('corner_cutting',):
                kw.update(num_knots=12)
    return kw


def layout_variant(a, kind):
    """the same numbers in another memory layout: 'C' contiguous, 'F' Fortran-ordered, 'T' a transposed view, 'strided' a view into
    a larger array with gaps between rows and columns (1-D: every second element of a longer array)"""
    a = np.asarray(a)
    if kind == 'C' or a.ndim == 0:
        return np.ascontiguousarray(a)
    if kind == 'F':
        return np.asfortranarray(a) if a.ndim > 1 else np.ascontiguousarray(a)
    if kind == 'T':
        return np.ascontiguousarray(np.swapaxes(a, -1, -2)).swapaxes(-1, -2) if a.ndim > 1 else np.ascontiguousarray(a)
    big = np.zeros(tuple(2 * s + 1 for s in a.shape), dtype=a.dtype)
    view = big[tuple(slice(1, None, 2) for _ in a.shape)]
    view[...] = a
    return view


LAYOUTS = ('C', 'F', 'T', 'strided')


def filter_kwargs(reg_entry, kw):
    if reg_entry['var_kw']:
        return dict(kw)
    return {k: v for k, v in kw.items() if k in reg_entry['params']}


# --------------------------------------------------------------------------------------------------
# parameter variants: non-default values that switch on code paths the default call never reaches.
# Derived from the signature (names and defaults obtained by introspection); the table only says which
# alternative values make sense for a parameter of a given NAME.
ALT_VALUES = {
    'smooth_half_window': [0, 1, 3], 'interp_half_window': [0, 2], 'lam_smooth': [0, 10.0], 'half_window': [1, 2, 6], 'max_half_window': [3, 5],
    'diff_order': [1, 3], 'poly_order': [0, 1, 3], 'segments': [1, 3], 'filter_order': [2, 4, 6, 8], 'lam': [1e1, 1e3, 1e7],
    'num_knots': [4, 9, 25], 'spline_degree': [1, 2, 4], 'max_iter': [0, 1, 5], 'sections': [4, 9], 'p': [0.1, 0.5], 'eta': [0.0, 1.0],
    'quantile': [0.2, 0.5], 'alpha_factor': [0.5], 'num_std': [1.0, 4.0], 'min_length': [1, 4], 'window_size': [3, 7], 'lam_1': [1e-2, 1.0],
    'lam_0': [0.5], 'lam_2': [0.5], 'asymmetry': [1.0, 3.0], 'filter_type': [1, 2], 'cost_function': [1, 2], 'freq_cutoff': [0.02],
    'threshold': [0.5], 'fraction': [0.3, 0.8], 'total_points': [7], 'scale': [2.0], 'delta': [0.0, 3.0], 'eps_0': [1e-3], 'eps_1': [1e-3],
    'tol': [1e-1, 0.0], 'constrained_fraction': [0.05], 'constrained_weight': [1e3], 'estimation_poly_order': [1, 3], 'sampling': [2],
    'k': [0.5], 'beta': [0.3], 'max_iter_2': [2], 'tol_2': [1e-1], 'sigma': [1.0], 'scales': [[2, 3, 4]], 'min_fwhm': [2],
    'cost_function_str': [], 'weights_as_mask': [True, False], 'num_eigens': [None, (6, 5)],
}
STR_VALUES = {
    'cost_function': {'penalized_poly': ['asymmetric_truncated_quadratic', 'symmetric_truncated_quadratic', 'asymmetric_huber', 'symmetric_huber',
                                         'asymmetric_indec', 'symmetric_indec'], 'goldindec': ['asymmetric_indec', 'asymmetric_truncated_quadratic']},
    'side': {'optimize_extended_range': ['left', 'right', 'both']},
    'interp_method': {'interp_pts': ['linear', 'cubic']},
}


NO_DERIVED = {'axes', 'baseline_points', 'regions', 'method', 'min_value', 'max_value', 'step', 'x_data', 'z_data'}


def derived_alts(pn, default):
    """alternatives for a numeric parameter that has no entry in ALT_VALUES, derived from its default: the neutral value 1 (multipliers,
    scales), half and twice the default for floats; the neighbouring integers for ints. A parameter is never left at its default only
    because nobody listed values for it."""
    if pn in NO_DERIVED or isinstance(default, bool) or not isinstance(default, (int, float)):
        return []
    if isinstance(default, int):
        vals = [default + 1, max(1, default - 1)]
    else:
        vals = [1.0, default / 2, default * 2]
    out = []
    for v in vals:
        if v != default and v not in out:
            out.append(v)
    return out


def variants(name, e, two_d, rng, count=3, base=None):
    """`count` keyword-argument dictionaries for `name`, each the base call with ONE or TWO parameters moved to a non-default
    value (bools flipped; None / 0 defaults switched on; named numeric parameters moved within their domain)"""
    base = dict(filter_kwargs(e, call_kwargs(name, two_d)) if base is None else base)
    cands = []
    for pn, default in e['params'].items():
        if pn in ('weights', 'alpha', 'x_data', 'z_data', 'method', 'method_kwargs', 'pad_kwargs', 'window_kwargs', 'baseline_points', 'regions',
                  'kwargs', 'return_coef'):
            if pn == 'return_coef':
                cands.append((pn, True))
            continue
        if isinstance(default, bool):
            cands.append((pn, not default))
            continue
        vals = list(ALT_VALUES.get(pn, [])) or derived_alts(pn, default)
        if pn in STR_VALUES and name in STR_VALUES[pn]:
            vals = list(STR_VALUES[pn][name])
        if pn == 'lam' and default is None:
            vals = [1e2, 1e5]
        for v in vals:
            if v != base.get(pn, default):
                cands.append((pn, v))
    out = []
    if not cands:
        return out
    for _ in range(count):
        kw = dict(base)
        picks = rng.choice(len(cands), size=min(len(cands), 1 + int(rng.random() < 0.35)), replace=False)
        for i in picks:
            pn, v = cands[int(i)]
            if two_d and isinstance(v, (int, float)) and not isinstance(v, bool) and pn in ('half_window', 'diff_order', 'poly_order', 'lam', 'num_knots',
                                                                                               'spline_degree', 'lam_1') and rng.random() < 0.5:
                v = (v, v)
            kw[pn] = v
        out.append(kw)
    return out


def single_variants(name, e, two_d, base=None):
    """every base call with exactly ONE parameter moved to one of its alternative values (deterministic enumeration)"""
    base = dict(filter_kwargs(e, call_kwargs(name, two_d)) if base is None else base)
    out = []
    for pn, default in e['params'].items():
        if pn in ('weights', 'alpha', 'x_data', 'z_data', 'method', 'method_kwargs', 'pad_kwargs', 'window_kwargs', 'baseline_points', 'regions', 'kwargs'):
            continue
        if pn == 'return_coef':
            vals = [True]
        elif isinstance(default, bool):
            vals = [not default]
        else:
            vals = list(ALT_VALUES.get(pn, [])) or derived_alts(pn, default)
            if pn in STR_VALUES and name in STR_VALUES[pn]:
                vals = list(STR_VALUES[pn][name])
            if pn == 'lam' and default is None:
                vals = [1e2, 1e5]
        for v in vals:
            if v != base.get(pn, default):
                out.append(dict(base, **{pn: v}))
    return out


# --------------------------------------------------------------------------------------------------
# x-axis magnitude kinds.  The properties quantify over ALL x: the same relative point positions must be served on axes of any unit
# (metres at the nm scale, seconds at the ps / as scale, epoch time stamps: a huge offset with a narrow range, negative ranges).
# Every kind is an increasing affine image of the given x, so the B-spline basis, the LOESS windows, the hull ... of the mapped
# problem are those of the original one.  ('scale', s): x * s.  ('window', a, w): a + w * (x - min x) / (max x - min x).
X_MAGNITUDES = {
    '1e-30': ('scale', 1e-30), '1e-18': ('scale', 1e-18), '1e-9': ('scale', 1e-9), '1': ('scale', 1.0), '1e9': ('scale', 1e9),
    '1e30': ('scale', 1e30),
    '1.7e9+[0,1e3]': ('window', 1.7e9, 1e3), '1e6+[0,1e-3]': ('window', 1e6, 1e-3),
    '[-700,-200]': ('window', -700.0, 500.0), '-1.7e9+[0,1e3]': ('window', -1.7e9, 1e3), '-4e-7+[0,3e-7]': ('window', -4e-7, 3e-7),
}
X_MAGNITUDE_KINDS = tuple(X_MAGNITUDES)
X_MAGNITUDE_UNUSUAL = tuple(k for k in X_MAGNITUDES if k != '1')


def x_magnitude(x, kind, dyadic=False):
    """(x', factor): the increasing affine image of `x` on the axis of magnitude `kind` and the factor by which every DIFFERENCE of
    x-values was multiplied (what a length such as loess' `delta` has to be multiplied with to mean the same thing).
    `dyadic=True`: the factor is rounded down to a power of two and the offset of a window is added to x - min(x); for x whose
    entries are dyadic rationals with few bits (the generators of the exact comparisons) the image is then computed WITHOUT any
    rounding, so every float comparison / difference of the mapped problem is the exact image of the original one."""
    x = np.asarray(x, dtype=float)
    what = X_MAGNITUDES[kind]
    if what[0] == 'scale':
        s = float(what[1])
        if dyadic:
            s = 2.0 ** int(np.floor(np.log2(s)))
        return x * s, s
    a, w = float(what[1]), float(what[2])
    lo, hi = float(np.min(x)), float(np.max(x))
    span = hi - lo if hi > lo else 1.0
    s = w / span
    if dyadic:
        s = 2.0 ** int(np.floor(np.log2(s)))
        return a + (x - lo) * s, s
    return a + (x - lo) * s, s


def x_magnitude_cycle(start=0, kinds=X_MAGNITUDE_KINDS):
    """endless round-robin over the magnitude kinds (deterministic coverage: every kind is used once per len(kinds) cases)"""
    i = start
    while True:
        yield kinds[i % len(kinds)]
        i += 1
