"""C06 — Whittaker baselines solve the documented penalised least-squares system."""
import glob
import json
import os
from fractions import Fraction

import numpy as np

from . import methods as M
from .common import Disagreement, drive, q, qs, parse_qs, ROOT

PROP_MODULE = 'PbVerif.Props.C06'
RULE = ('cases = (host, N, diff_order, lam, banded_solver, user/default weights, iteration index): every baseline produced along the '
        'iteration (captured at PenalizedSystem.solve) is checked, in exact rational arithmetic inside the Lean driver, against the '
        'DOCUMENTED system built from the specification (W + lam D\'D and the iasls/drpls/aspls variants; Kronecker form in 2-D) with the '
        'weights in force at that step (recorded from the reweighting rule); the captured band arrays are compared with the Lean '
        'assembly model; converged runs: returned baseline with returned weights; non-trivial = N > d + 1; distinct by canonical tuple; '
        'further stages: the sparse 2-D matrix handed to direct_solve against the Lean model asm2d (exact on dyadic inputs); the two band '
        'arrays / right-hand sides / outputs of every jbcd pass against asmJbcd; the loops with state (Model/LoopS) fed the decisions '
        'of real runs predict which iterate is returned as weights and which solve as baseline (single loop, brpls, jbcd)')
ASSUMPTIONS = [
    'the banded solvers (LAPACK solveh_banded/solve_banded, pentapy, SuperLU) are trusted only through the exact normwise backward '
    'error of each output: threshold 1e-11 (measured < 1e-13 on the unchanged tree over the grid; a misplaced band entry gives > 1e-6)',
    'the weights in force at step k are the k-th output of the reweighting rule (recorded by wrapping pybaselines._weighting)',
]
BERR_MAX = 1e-11
EPS = np.finfo(float).eps

STD = ['asls', 'airpls', 'arpls', 'iarpls', 'psalsa', 'derpsalsa', 'lsrpls']
FINAL_ONLY = ['mpls', 'fabc']


class Capture:
    """records every PenalizedSystem.solve call (not PSpline) and every reweighting-rule output"""

    def __init__(self):
        self.solves = []
        self.rules = []
        self.flags = []          # per rule call: did it signal the early exit
        self.outs = []           # per rule call: the full output
        self.saved = []

    def __enter__(self):
        from pybaselines import _banded_utils as bu, _weighting as W
        from pybaselines._spline_utils import PSpline
        orig = bu.PenalizedSystem.solve
        cap = self

        def solve(obj, lhs, rhs, *a, **k):
            lhs0, rhs0 = np.array(lhs, dtype=float, copy=True), np.array(rhs, dtype=float, copy=True)
            out = orig(obj, lhs, rhs, *a, **k)
            if not isinstance(obj, PSpline):
                cap.solves.append({'lhs': lhs0, 'rhs': rhs0, 'out': np.array(out, copy=True), 'lower': obj.lower, 'reversed': obj.reversed,
                                   'pentapy': obj.using_pentapy, 'd': obj.diff_order, 'lam': float(np.asarray(obj.lam))})
            return out
        bu.PenalizedSystem.solve = solve
        self.saved.append((bu.PenalizedSystem, 'solve', orig))
        for nm, fn in list(vars(W).items()):
            if nm.startswith('_') and callable(fn) and nm != '_safe_std' and getattr(fn, '__module__', '') == W.__name__:
                def wrapper(*a, __fn=fn, **k):
                    out = __fn(*a, **k)
                    w = out[0] if isinstance(out, tuple) else out
                    cap.rules.append(np.array(w, dtype=float, copy=True))
                    cap.flags.append(bool(out[-1]) if isinstance(out, tuple) and isinstance(out[-1], (bool, np.bool_)) else False)
                    cap.outs.append(out)
                    return out
                setattr(W, nm, wrapper)
                self.saved.append((W, nm, fn))
        return self

    def __exit__(self, *exc):
        for obj, nm, fn in self.saved:
            setattr(obj, nm, fn)


def data_1d(rng, n):
    t = np.linspace(0, 1, n)
    return 10 * t + 5, 4 + 2 * t + 6 * np.exp(-((t - 0.4) / 0.07) ** 2) + 3 * np.exp(-((t - 0.8) / 0.05) ** 2) + rng.normal(0, 0.1, n)


def berr_line(kind, n, d, lam, p1, w, alpha, y, v):
    return f'c06.berr {kind} {n} {d} {q(lam)} {q(p1)} {qs(w)} {qs(alpha)} {qs(y)} {qs(v)}'


def correspond(ctx):
    from pybaselines import Baseline, Baseline2D, utils
    rng = ctx.np_rng()
    dis = []
    for f in sorted(glob.glob(os.path.join(ROOT, 'corpus', 'C06_*.json'))):
        d = json.load(open(f))
        r = replay(ctx, d)
        ctx.case(('corpus', os.path.basename(f)))
        if r:
            dis.append(Disagreement('c06.corpus', d['signature'], f'corpus {os.path.basename(f)}: {r}', d['replay'], True))
    lines, metas = [], []
    lams = [1e-2, 1e0, 1e2, 1e4, 1e6, 1e8] if not ctx.thorough else [10.0 ** k for k in range(-2, 9)]

    def sizes_for(d):
        base = [d + 2, d + 3, 2 * d + 1, 2 * d + 2, 2 * d + 3, 25, 60]
        return sorted(set(base + ([400, 2000] if ctx.thorough else [110])))

    hosts = [(h, 'std') for h in STD] + [('iasls', 'iasls'), ('drpls', 'drpls'), ('aspls', 'aspls')]
    for host, kind in hosts:
        for d in (1, 2, 3, 4):
            if kind in ('iasls', 'drpls') and d < 2:
                continue
            for n in sizes_for(d):
                if not ctx.thorough and rng.random() < 0.2:
                    continue
                lam = float(lams[int(rng.integers(0, len(lams)))])
                solver = int(rng.integers(1, 5))
                x, y = data_1d(rng, n)
                uw = None
                if rng.random() < 0.35:
                    uw = np.round(rng.uniform(0.05, 1, n) * 64) / 64
                kw = dict(lam=lam, diff_order=d, max_iter=int(rng.integers(0, 4)), tol=0.0, weights=uw)
                p1 = 0.0
                if kind == 'iasls':
                    p1 = float(rng.choice([1e-4, 1e-1, 10.0]))
                    kw['lam_1'] = p1
                if kind == 'drpls':
                    p1 = float(rng.choice([0.0, 0.5, 1.0]))
                    kw['eta'] = p1
                ualpha = None
                if kind == 'aspls' and rng.random() < 0.3:
                    ualpha = np.round(rng.uniform(0.2, 1, n) * 64) / 64
                    kw['alpha'] = ualpha
                fit = Baseline(x)
                fit.banded_solver = solver
                meta = {'host': host, 'kind': kind, 'n': n, 'd': d, 'lam': lam, 'p1': p1, 'solver': solver, 'x': x.tolist(), 'y': y.tolist(),
                        'kw': {k: (v.tolist() if isinstance(v, np.ndarray) else v) for k, v in kw.items()}}
                with Capture() as cap:
                    try:
                        with np.errstate(all='ignore'):
                            b, p = getattr(fit, host)(y, **kw)
                    except Exception as ex:
                        ctx.count('raised:' + type(ex).__name__)
                        continue
                ctx.case((host, n, d, lam, solver, uw is not None, kw['max_iter']), nontrivial=n > d + 1,
                         sample={'host': host, 'N': n, 'diff_order': d, 'lam': lam, 'banded_solver': solver, 'user_weights': uw is not None,
                                 'solves_checked': len(cap.solves)} if len(ctx.samples) < 6 else None)
                ctx.count('host:' + host)
                ctx.count('solver:%d' % solver)
                ctx.count('size:' + ('edge' if n <= 2 * d + 3 else 'large' if n >= 150 else 'mid'))
                # weights in force: w_0 = user / ones (iasls without user weights: first rule output), w_k = k-th rule output
                rules = list(cap.rules)
                if kind == 'iasls' and uw is None:
                    w_seq = rules
                else:
                    w_seq = [np.ones(n) if uw is None else uw] + rules
                alpha = np.ones(n) if ualpha is None else ualpha
                for k, sv in enumerate(cap.solves):
                    if k >= len(w_seq):
                        break
                    wk = w_seq[k]
                    if not (np.all(np.isfinite(sv['out'])) and np.all(np.isfinite(wk))):
                        dis.append(Disagreement('c06.nonfinite', f'{host}:nonfinite', f'{host} (N={n}, d={d}, lam={lam:g}, solver={solver}): non-finite iterate {k}',
                                                dict(meta, step=k), True))
                        break
                    lines.append(berr_line(kind, n, d, lam, p1, wk, alpha if kind == 'aspls' else [], y, sv['out']))
                    metas.append(('berr', dict(meta, step=k)))
                    # captured band array vs the Lean assembly model
                    if kind in ('std', 'iasls'):
                        lines.append(f'c06.asm {kind} {n} {d} {q(lam)} {q(p1)} {int(sv["lower"])} {int(sv["reversed"])} {qs(wk)} -')
                    elif kind == 'aspls':
                        lines.append(f'c06.asm aspls {n} {d} {q(lam)} 0 {int(sv["pentapy"])} 0 {qs(wk)} {qs(alpha)}')
                    else:
                        lines.append(f'c06.asm drpls {n} {d} {q(lam)} {q(p1)} {int(sv["pentapy"])} 0 {qs(wk)} -')
                    metas.append(('asm', dict(meta, step=k), sv['lhs']))
                    if kind == 'aspls':
                        rr = np.abs(y - sv['out'])
                        alpha = rr / rr.max()
                # converged pair: returned baseline with returned weights (and alpha)
                try:
                    with np.errstate(all='ignore'):
                        fit2 = Baseline(x)
                        fit2.banded_solver = solver
                        kw2 = dict(kw, max_iter=60, tol=1e-3)
                        b2, p2 = getattr(fit2, host)(y, **kw2)
                    budget = 61
                    if len(p2['tol_history']) < budget and p2['tol_history'][-1] < 1e-3 and np.all(np.isfinite(b2)):
                        ctx.count('converged-pair')
                        lines.append(berr_line(kind, n, d, lam, p1, p2['weights'], p2.get('alpha', []) if kind == 'aspls' else [], y, b2))
                        metas.append(('berr', dict(meta, step='converged')))
                except Exception:
                    pass
    # hosts whose final result is a single documented solve with the returned weights (every way of supplying the weights)
    for host in FINAL_ONLY:
        for n in (25, 60, 200):
            for mode in (('default', 'user', 'user-mask', 'binary-mask') if host == 'fabc' else ('default', 'user')):
                x, y = data_1d(rng, n)
                lam = float(lams[int(rng.integers(0, len(lams)))])
                d = int(rng.integers(1, 4))
                kw = {'lam': lam, 'diff_order': d}
                if host == 'mpls':
                    kw['half_window'] = 3
                if mode == 'user':
                    kw['weights'] = np.round(rng.uniform(0.2, 1, n) * 64) / 64
                elif mode == 'user-mask':
                    w = np.round(rng.uniform(0.2, 1, n) * 64) / 64
                    w[rng.random(n) < 0.3] = 0
                    kw.update(weights=w, weights_as_mask=True)
                elif mode == 'binary-mask':
                    kw.update(weights=(rng.random(n) < 0.6).astype(float), weights_as_mask=True)
                solver = int(rng.integers(1, 5))
                try:
                    with np.errstate(all='ignore'):
                        fit = Baseline(x)
                        fit.banded_solver = solver
                        b, p = getattr(fit, host)(y, **kw)
                except Exception as ex:
                    ctx.count('final-raised:' + type(ex).__name__)
                    continue
                ctx.case((host, n, lam, d, mode, solver), nontrivial=True)
                ctx.count('host:' + host)
                ctx.count('weights-mode:' + mode)
                w = np.asarray(p['weights'], float)
                if not (np.all(np.isfinite(b)) and np.all(np.isfinite(w))):
                    continue
                lines.append(berr_line('std', n, d, lam, 0.0, w, [], y, b))
                metas.append(('berr', {'host': host, 'kind': 'std', 'n': n, 'd': d, 'lam': lam, 'x': x.tolist(), 'y': y.tolist(), 'step': 'final:' + mode,
                                       'solver': solver, 'kw': {k: (v.tolist() if isinstance(v, np.ndarray) else v) for k, v in kw.items()}}))
    # utils.whittaker_smooth
    for d in (0, 1, 2, 3, 4):
        for n in (d + 2, 2 * d + 2, 40):
            y = rng.normal(0, 1, n)
            lam = float(lams[int(rng.integers(0, len(lams)))])
            w = None if rng.random() < 0.5 else np.round(rng.uniform(0.1, 1, n) * 64) / 64
            try:
                v = utils.whittaker_smooth(y, lam=lam, diff_order=d, weights=w)
            except Exception as ex:
                ctx.count('ws-raised:' + type(ex).__name__)
                continue
            ctx.case(('whittaker_smooth', n, d, lam, w is not None), nontrivial=True)
            ctx.count('host:whittaker_smooth')
            lines.append(berr_line('std', n, d, lam, 0.0, np.ones(n) if w is None else w, [], y, v))
            metas.append(('berr', {'host': 'whittaker_smooth', 'kind': 'std', 'n': n, 'd': d, 'lam': lam, 'y': y.tolist(), 'step': 'final', 'kw': {}, 'x': []}))
    # 2-D (direct Kronecker system, no eigendecomposition)
    from pybaselines.two_d import _whittaker_utils as wu2
    for host in ('asls', 'arpls', 'iarpls', 'psalsa'):
        for (m, n, dr, dc) in [(6, 5, 2, 2), (7, 4, 1, 2), (5, 8, 3, 1), (4, 4, 2, 1), (9, 7, 2, 3)]:
            if not ctx.thorough and rng.random() < 0.1:
                continue
            x, z, Y = M.make_data2d(rng, m, n)
            lamr, lamc = float(10.0 ** int(rng.integers(-1, 5))), float(10.0 ** int(rng.integers(-1, 5)))
            caps = []
            orig = wu2.PenalizedSystem2D.direct_solve

            def ds(obj, lhs, rhs, __orig=orig):
                out = __orig(obj, lhs, rhs)
                caps.append(np.array(out, copy=True))
                return out
            wu2.PenalizedSystem2D.direct_solve = ds
            try:
                with Capture() as cap:
                    with np.errstate(all='ignore'):
                        b, p = getattr(Baseline2D(x, z), host)(Y, lam=(lamr, lamc), diff_order=(dr, dc), num_eigens=None, max_iter=2, tol=0.0)
            except Exception as ex:
                ctx.count('2d-raised:' + type(ex).__name__)
                continue
            finally:
                wu2.PenalizedSystem2D.direct_solve = orig
            ctx.case(('2d', host, m, n, dr, dc, lamr, lamc), nontrivial=True,
                     sample={'host': '2-D ' + host, 'shape': [m, n], 'diff_order': [dr, dc], 'lam': [lamr, lamc]} if host == 'asls' else None)
            ctx.count('host2d:' + host)
            w_seq = [np.ones(m * n)] + [r.ravel() for r in cap.rules]
            for k, v in enumerate(caps):
                if k >= len(w_seq):
                    break
                lines.append(f'c06.berr2d {m} {n} {dr} {dc} {q(lamr)} {q(lamc)} {qs(w_seq[k])} {qs(Y.ravel())} {qs(np.asarray(v).ravel())}')
                metas.append(('berr', {'host': '2d.' + host, 'kind': '2d', 'shape': [m, n], 'd': [dr, dc], 'lam': [lamr, lamc], 'step': k, 'kw': {}, 'x': [], 'y': []}))
    # jbcd: two banded systems per iteration, (gamma_k P + I) s = y - v_old and (2 beta_k P + (1 + 2 alpha) I) v = y - s + 2 alpha Op, with
    # gamma_k = gamma * gamma_mult^k, beta_k = beta * beta_mult^k (updated in floating point as the code does).  Captured band arrays against
    # the Lean model `asmJbcd`, right-hand sides against the formulas, every output certified against the matrix the model DENOTES.
    # NOTE: the documentation states 2*gamma for the signal system; the code uses gamma (theorem jbcd_signal_ne_documented).
    from scipy.ndimage import grey_opening
    from pybaselines.morphological import _avg_opening
    for d in (1, 2, 3):
        for n in sorted(set([d + 2, 2 * d + 2, 2 * d + 3, 12, 40])):
            for solver in (1, 2, 3, 4):
                if not ctx.thorough and rng.random() < 0.15:
                    continue
                x, y = data_1d(rng, n)
                hw = int(rng.integers(1, 4))
                dyadic = rng.random() < 0.5
                if dyadic:
                    alpha_, beta_, gamma_ = float(2.0 ** int(rng.integers(-4, 3))), float(2.0 ** int(rng.integers(-2, 8))), float(2.0 ** int(rng.integers(-3, 5)))
                    bm, gm = float(rng.choice([1.0, 2.0, 1.5])), float(rng.choice([1.0, 0.5, 0.75]))
                else:
                    alpha_, beta_, gamma_ = float(rng.choice([0.1, 0.03, 1.7])), float(10.0 ** rng.uniform(-1, 4)), float(10.0 ** rng.uniform(-2, 2))
                    bm, gm = 1.1, 0.909
                robust = bool(rng.random() < 0.7)
                iters = int(rng.integers(0, 4))
                fit = Baseline(x)
                fit.banded_solver = solver
                with Capture() as cap:
                    try:
                        with np.errstate(all='ignore'):
                            b, p = fit.jbcd(y, half_window=hw, alpha=alpha_, beta=beta_, gamma=gamma_, beta_mult=bm, gamma_mult=gm, diff_order=d,
                                            max_iter=iters, tol=0.0, tol_2=0.0, robust_opening=robust)
                    except Exception as ex:
                        ctx.count('jbcd-raised:' + type(ex).__name__)
                        continue
                ctx.case(('jbcd', n, d, solver, hw, alpha_, beta_, gamma_, bm, gm, iters, robust), nontrivial=n > d + 1,
                         sample={'host': 'jbcd', 'N': n, 'diff_order': d, 'banded_solver': solver, 'alpha': alpha_, 'beta': beta_, 'gamma': gamma_,
                                 'solves_checked': len(cap.solves)} if d == 2 and n == 12 else None)
                ctx.count('host:jbcd')
                ctx.count('jbcd-layout:' + ('lower' if cap.solves and cap.solves[0]['lower'] else 'reversed' if cap.solves and cap.solves[0]['reversed'] else 'full'))
                opening = grey_opening(y, 2 * hw + 1)
                if robust:
                    opening = np.minimum(opening, _avg_opening(y, hw, opening))
                partial = (2 * alpha_) * opening
                g, bt = gamma_, beta_
                v_old = opening
                meta0 = {'host': 'jbcd', 'kind': 'jbcd', 'n': n, 'd': d, 'solver': solver, 'x': x.tolist(), 'y': y.tolist(),
                         'kw': {'half_window': hw, 'alpha': alpha_, 'beta': beta_, 'gamma': gamma_, 'beta_mult': bm, 'gamma_mult': gm, 'max_iter': iters,
                                'robust_opening': robust}}
                if len(cap.solves) != 2 * (iters + 1):
                    dis.append(Disagreement('c06.model', 'model:jbcd:solves', f'jbcd (N={n}, max_iter={iters}, tol=0): {len(cap.solves)} banded solves instead of '
                                            f'{2 * (iters + 1)}', {k: v for k, v in meta0.items() if k not in ('x', 'y')}, False))
                    continue
                for k in range(iters + 1):
                    s1, s2 = cap.solves[2 * k], cap.solves[2 * k + 1]
                    if not (np.all(np.isfinite(s1['out'])) and np.all(np.isfinite(s2['out']))):
                        break
                    for which, sv, c_, diag_, rhs_want in (('signal', s1, g, 1.0, y - v_old),
                                                             ('baseline', s2, 2 * bt, 1 + 2 * alpha_, y - s1['out'] + partial)):
                        m = dict(meta0, step=f'{which} system, iteration {k}', lam=c_, which=which)
                        lines.append(f'c06.asmjbcd {n} {d} {q(c_)} {q(diag_)} {int(sv["lower"])} {int(sv["reversed"])}')
                        metas.append(('asmjbcd', m, sv['lhs'], dyadic))
                        if not np.array_equal(sv['rhs'], rhs_want):
                            dis.append(Disagreement('c06.model', f'model:jbcd:rhs:{which}', f'jbcd (N={n}, d={d}, {m["step"]}): the right-hand side handed to the solver '
                                                    f'is not the documented one (max diff {float(np.max(np.abs(sv["rhs"] - rhs_want))):.3g})',
                                                    {kk: v for kk, v in m.items() if kk not in ('x', 'y')}, False))
                        # exact certificate against diag*I + c*D'D with the right-hand side actually used
                        wv = [Fraction(float(diag_))] * n
                        lines.append(berr_line('std', n, d, c_, 0.0, wv, [], [Fraction(float(t)) / wv[0] for t in sv['rhs']], sv['out']))
                        metas.append(('berr', m))
                    v_old = s2['out']
                    g *= gm
                    bt *= bm
    # which weights the returned baseline was solved with (theorems converged_pair_solves / exhausted_returns_fresh_state /
    # brpls_pair_solves / jbcd_pair_solves): the Lean loops with state, instantiated on indices and fed the decisions the real run took
    # (recorded differences, early-exit flags), predict WHICH iterate is returned as weights and WHICH solve as baseline
    BIG = '1' + '0' * 400
    for host, kind in hosts:
        for rep in range(4 if not ctx.thorough else 10):
            n = int(rng.choice([12, 30, 80]))
            d = int(rng.integers(2, 4)) if kind in ('iasls', 'drpls') else int(rng.integers(1, 4))
            x, y = data_1d(rng, n)
            if rng.random() < 0.35:
                # noise-free smooth data: the rules of airpls / arpls / drpls / iarpls / aspls / lsrpls then signal their early exit
                tt = np.linspace(0, 1, n)
                y = [np.full(n, 3.0), 4 + 2 * tt, (tt - 0.5) ** 2, np.exp(3 * tt)][int(rng.integers(0, 4))]
                ctx.count('loop-data:smooth')
            lam = float(10.0 ** int(rng.integers(0, 7)))
            max_iter = int(rng.choice([0, 1, 2, 5, 12, 40]))
            tol = float(rng.choice([0.0, 1e-4, 1e-2, 3e-1, np.inf]))
            uw = None if rng.random() < 0.6 else np.round(rng.uniform(0.05, 1, n) * 64) / 64
            if rep == 0 and host in ('arpls', 'iarpls', 'aspls', 'lsrpls', 'drpls', 'airpls'):
                # aimed at the early exit: smooth data, many passes allowed, a tolerance that is not met first
                tt = np.linspace(0, 1, n)
                y = [(tt - 0.5) ** 2, np.exp(3 * tt), 4 + 2 * tt][int(rng.integers(0, 3))]
                lam, max_iter, tol, uw = float(rng.choice([1e-2, 1e2, 1e6])), 40, 1e-7, None
            kw = dict(lam=lam, diff_order=d, max_iter=max_iter, tol=tol, weights=uw)
            ualpha = None
            if kind == 'aspls' and rng.random() < 0.4:
                ualpha = np.round(rng.uniform(0.2, 1, n) * 64) / 64
                kw['alpha'] = ualpha
            with Capture() as cap:
                try:
                    with np.errstate(all='ignore'):
                        b, p = getattr(Baseline(x), host)(y, **kw)
                except Exception as ex:
                    ctx.count('loop-raised:' + type(ex).__name__)
                    continue
            th = np.asarray(p['tol_history'], dtype=float)
            pre = 1 if (kind == 'iasls' and uw is None) else 0         # iasls computes its first weights with the rule, before the loop
            loop_rules, loop_flags, loop_outs = cap.rules[pre:], cap.flags[pre:], cap.outs[pre:]
            if th.ndim != 1 or not np.all(np.isfinite(th)) or not cap.solves or len(loop_rules) != len(cap.solves):
                ctx.count('loop-skipped')
                continue
            ctx.case(('loop', host, n, d, lam, max_iter, tol, uw is not None), nontrivial=True)
            ctx.count('loop-host:' + host)
            w_seq = [cap.rules[0] if pre else (np.ones(n) if uw is None else uw)] + loop_rules
            a_seq = None
            if kind == 'aspls':
                a_seq = [np.ones(n) if ualpha is None else ualpha]
                for o in loop_outs:
                    ad = np.abs(o[1])
                    with np.errstate(all='ignore'):
                        a_seq.append(ad / ad.max())
            exit_at = next((k for k, f in enumerate(loop_flags) if f), None)
            lines.append(f'c06.loop {max_iter + 1} {q(tol) if np.isfinite(tol) else BIG} {qs(th)} {"N" if exit_at is None else exit_at}')
            metas.append(('loop', {'host': host, 'kind': 'loop', 'n': n, 'd': d, 'lam': lam, 'solver': None, 'step': 'returned pair',
                                   'kw': {k: (v.tolist() if isinstance(v, np.ndarray) else v) for k, v in kw.items()}, 'x': x.tolist(), 'y': y.tolist()},
                          {'b': np.asarray(b), 'w': np.asarray(p['weights'], float), 'alpha': np.asarray(p['alpha'], float) if kind == 'aspls' else None,
                           'len': len(th), 'w_seq': w_seq, 'a_seq': a_seq, 'outs': [sv['out'] for sv in cap.solves]}))
    # brpls: nested loops
    from pybaselines import whittaker as wh_mod
    for rep in range(8 if not ctx.thorough else 30):
        n = int(rng.choice([15, 40, 90]))
        d = int(rng.integers(1, 4))
        x, y = data_1d(rng, n)
        lam = float(10.0 ** int(rng.integers(0, 7)))
        max_iter, max_iter_2 = int(rng.choice([0, 1, 3, 10])), int(rng.choice([0, 1, 2, 6]))
        tol, tol_2 = float(rng.choice([0.0, 1e-3, 5e-2, 1.0, np.inf])), float(rng.choice([0.0, 1e-3, 1e-1, np.inf]))
        uw = None if rng.random() < 0.6 else np.round(rng.uniform(0.05, 1, n) * 64) / 64
        rds = []
        orig_rd = wh_mod.relative_difference

        def rd(old, new, *a, __o=orig_rd, **k):
            v = __o(old, new, *a, **k)
            rds.append(float(v))
            return v
        wh_mod.relative_difference = rd
        try:
            with Capture() as cap:
                with np.errstate(all='ignore'):
                    b, p = Baseline(x).brpls(y, lam=lam, diff_order=d, max_iter=max_iter, tol=tol, max_iter_2=max_iter_2, tol_2=tol_2, weights=uw)
        except Exception as ex:
            ctx.count('brpls-raised:' + type(ex).__name__)
            continue
        finally:
            wh_mod.relative_difference = orig_rd
        T = len(cap.solves)
        th = np.asarray(p['tol_history'], dtype=float)
        if len(cap.rules) != T or T == 0:
            continue
        # translate what the run did into the decision strings (bookkeeping only: which branch each solve took, and whether the outer
        # criterion held when the inner loop ended); the model decides from them what is returned
        inner, outer = [], {}
        t, ri, ok = 0, 0, True
        for i in range(max_iter_2 + 1):
            exited = False
            for j in range(max_iter + 1):
                if t >= T:
                    ok = False
                    break
                if cap.flags[t]:
                    inner.append('2')
                    exited = True
                    t += 1
                    break
                if ri >= len(rds):
                    ok = False
                    break
                conv = rds[ri] < tol
                ri += 1
                inner.append('1' if conv else '0')
                t += 1
                if conv:
                    break
            if not ok or i >= th.shape[1]:
                ok = False
                break
            stop_outer = bool(th[0, i] < (np.inf if exited else tol_2))
            outer[t] = stop_outer
            if stop_outer:
                break
        if not ok or t != T:
            dis.append(Disagreement('c06.model', 'model:brpls:trace', f'brpls (N={n}, max_iter={max_iter}, max_iter_2={max_iter_2}, tol={tol}, tol_2={tol_2}): the run '
                                    f'made {T} solves, the nested-loop skeleton accounts for {t}', {'n': n, 'max_iter': max_iter, 'max_iter_2': max_iter_2}, False))
            continue
        ctx.case(('brpls-loop', n, d, lam, max_iter, max_iter_2, tol, tol_2, uw is not None), nontrivial=True)
        ctx.count('loop-host:brpls')
        ostr = ''.join('1' if outer.get(w, False) else '0' for w in range(T + 2))
        lines.append(f'c06.brloop {max_iter} {max_iter_2} {"".join(inner)} {ostr}')
        metas.append(('brloop', {'host': 'brpls', 'kind': 'loop', 'n': n, 'd': d, 'lam': lam, 'solver': None, 'step': 'returned pair', 'x': x.tolist(), 'y': y.tolist(),
                                 'kw': {'max_iter': max_iter, 'max_iter_2': max_iter_2, 'tol': tol, 'tol_2': tol_2, 'weights': None if uw is None else uw.tolist()}},
                      {'b': np.asarray(b), 'w': np.asarray(p['weights'], float), 'y': y, 'w_seq': [np.ones(n) if uw is None else uw] + list(cap.rules),
                       'outs': [sv['out'] for sv in cap.solves]}))
    # jbcd: (baseline, signal) of the last pass
    for rep in range(6 if not ctx.thorough else 20):
        n = int(rng.choice([12, 40, 90]))
        d = int(rng.integers(1, 4))
        x, y = data_1d(rng, n)
        max_iter = int(rng.choice([0, 1, 4, 15]))
        tol, tol_2 = float(rng.choice([0.0, 1e-3, 5e-2, np.inf])), float(rng.choice([0.0, 1e-3, 5e-2, np.inf]))
        with Capture() as cap:
            try:
                with np.errstate(all='ignore'):
                    b, p = Baseline(x).jbcd(y, half_window=int(rng.integers(1, 5)), diff_order=d, max_iter=max_iter, tol=tol, tol_2=tol_2,
                                            beta=float(10.0 ** int(rng.integers(0, 4))), gamma=float(10.0 ** int(rng.integers(-1, 2))))
            except Exception as ex:
                ctx.count('jbcd-loop-raised:' + type(ex).__name__)
                continue
        th = np.asarray(p['tol_history'], dtype=float)
        if th.ndim != 2 or len(cap.solves) != 2 * len(th):
            dis.append(Disagreement('c06.model', 'model:jbcd:trace', f'jbcd (N={n}, max_iter={max_iter}): {len(cap.solves)} solves for {len(th)} recorded passes',
                                    {'n': n, 'max_iter': max_iter}, False))
            continue
        ctx.case(('jbcd-loop', n, d, max_iter, tol, tol_2), nontrivial=True)
        ctx.count('loop-host:jbcd')
        stops = ''.join('1' if (r_[0] < tol and r_[1] < tol_2) else '0' for r_ in th)
        lines.append(f'c06.jbloop {max_iter + 1} {stops}')
        metas.append(('jbloop', {'host': 'jbcd', 'kind': 'loop', 'n': n, 'd': d, 'lam': None, 'solver': None, 'step': 'returned pair', 'x': x.tolist(), 'y': y.tolist(),
                                 'kw': {'max_iter': max_iter, 'tol': tol, 'tol_2': tol_2}},
                      {'b': np.asarray(b), 's': np.asarray(p['signal']), 'len': len(th), 'outs': [sv['out'] for sv in cap.solves]}))
    # 2-D assembled matrix: the sparse `lhs` handed to PenalizedSystem2D.direct_solve against the Lean model `asm2d`
    # (kron(lam_r P_r, I) + kron(I, lam_c P_c) with main_diagonal + w); dyadic lam and weights, so the first solve is exact
    for host in ('asls', 'arpls', 'airpls'):
        for (m, n, dr, dc) in [(3, 3, 1, 2), (4, 5, 2, 1), (5, 4, 1, 3), (6, 5, 2, 2), (4, 7, 3, 2), (5, 5, 2, 3), (2, 6, 1, 2), (7, 3, 3, 1)]:
            if not ctx.thorough and rng.random() < 0.15:
                continue
            x, z, Y = M.make_data2d(rng, m, n)
            lamr, lamc = float(2.0 ** int(rng.integers(-3, 12))), float(2.0 ** int(rng.integers(-3, 12)))
            W0 = np.round(rng.uniform(0.05, 1, (m, n)) * 64) / 64
            caps = []
            orig = wu2.PenalizedSystem2D.direct_solve

            def ds2(obj, lhs, rhs, __orig=orig):
                caps.append((np.array(lhs.toarray(), dtype=float), np.array(rhs, dtype=float, copy=True)))
                return __orig(obj, lhs, rhs)
            wu2.PenalizedSystem2D.direct_solve = ds2
            try:
                with Capture() as cap:
                    with np.errstate(all='ignore'):
                        getattr(Baseline2D(x, z), host)(Y, lam=(lamr, lamc), diff_order=(dr, dc), num_eigens=None, max_iter=1, tol=0.0, weights=W0)
            except Exception as ex:
                ctx.count('2d-asm-raised:' + type(ex).__name__)
                continue
            finally:
                wu2.PenalizedSystem2D.direct_solve = orig
            ctx.case(('2d-asm', host, m, n, dr, dc, lamr, lamc), nontrivial=True)
            ctx.count('host2d-asm:' + host)
            w_seq = [W0.ravel()] + [r.ravel() for r in cap.rules]
            for k, (lhs2, rhs2) in enumerate(caps):
                if k >= len(w_seq) or not np.all(np.isfinite(w_seq[k])):
                    break
                if not np.array_equal(rhs2, w_seq[k] * Y.ravel()):
                    dis.append(Disagreement('c06.model', 'model:rhs2d', f'2-D {host} ({(m, n)}): the right-hand side handed to the solver is not w * y',
                                            {'host': '2d.' + host, 'shape': [m, n], 'step': k}, False))
                lines.append(f'c06.asm2d {m} {n} {dr} {dc} {q(lamr)} {q(lamc)} {qs(w_seq[k])}')
                metas.append(('asm2d', {'host': '2d.' + host, 'kind': '2d', 'shape': [m, n], 'n': [m, n], 'd': [dr, dc], 'lam': [lamr, lamc], 'step': k, 'solver': None},
                              lhs2, k == 0))
    # 2-D returned pairs (direct system): with tol = inf the run stops after its first solve, and when a run reports convergence,
    # the returned baseline and the returned weights must satisfy the documented system together
    for host in ('asls', 'airpls', 'arpls', 'iarpls', 'psalsa', 'lsrpls', 'brpls'):
        for (m, n, dr, dc) in [(6, 5, 2, 1), (5, 7, 1, 2), (7, 6, 2, 2)]:
            if not ctx.thorough and rng.random() < 0.1:
                continue
            x, z, Y = M.make_data2d(rng, m, n)
            lamr, lamc = float(10.0 ** int(rng.integers(0, 4))), float(10.0 ** int(rng.integers(0, 4)))
            W0 = np.round(rng.uniform(0.2, 1, (m, n)) * 64) / 64
            # the same numbers in every memory layout (C / Fortran order, transposed and strided views), independently for the data
            # and the weights: the documented system is about the logical arrays
            lay_y, lay_w = M.LAYOUTS[int(rng.integers(0, 4))], M.LAYOUTS[int(rng.integers(0, 4))]
            ctx.count(f'2d-pair-layout:data={lay_y},weights={lay_w}')
            for mode, kw in (('first-solve', dict(tol=np.inf, weights=M.layout_variant(W0, lay_w))), ('converged', dict(tol=1e-3, max_iter=60))):
                if host == 'brpls':
                    kw = dict(kw, tol_2=kw['tol'])
                try:
                    with np.errstate(all='ignore'):
                        b, p = getattr(Baseline2D(x, z), host)(M.layout_variant(Y, lay_y), lam=(lamr, lamc), diff_order=(dr, dc), num_eigens=None, **kw)
                except Exception as ex:
                    ctx.count('2d-pair-raised:' + type(ex).__name__)
                    continue
                th = np.asarray(p.get('tol_history', [np.inf]), dtype=float).ravel()
                if mode == 'converged' and not (th.size and th[-1] < 1e-3 and th.size < 61):
                    continue
                if not (np.all(np.isfinite(b)) and np.all(np.isfinite(p['weights']))):
                    continue
                ctx.case(('2d-pair', host, m, n, dr, dc, lamr, lamc, mode), nontrivial=True)
                ctx.count('host2d-pair:' + host)
                lines.append(f'c06.berr2d {m} {n} {dr} {dc} {q(lamr)} {q(lamc)} {qs(np.asarray(p["weights"], float).ravel())} {qs(Y.ravel())} {qs(np.asarray(b).ravel())}')
                metas.append(('berr', {'host': '2d.' + host, 'kind': '2d', 'shape': [m, n], 'd': [dr, dc], 'lam': [lamr, lamc], 'step': 'returned pair (' + mode + ')',
                                       'kw': {}, 'x': [], 'y': [], 'layout': [lay_y, lay_w],
                                       'call2d': {'host': host, 'x': x.tolist(), 'z': z.tolist(), 'data': Y.tolist(), 'mode': mode,
                                                  'weights': W0.tolist() if mode == 'first-solve' else None}}))
    # 2-D with eigendecomposition: each solve must be the Galerkin solution of the documented system in the eigenbasis
    # of EACH axis' own penalty (certificate with independently computed dense eigenvectors; see also C20)
    from .c20 import galerkin_check
    for (m, n) in [(8, 8), (10, 10), (9, 6), (7, 7)]:
        for _ in range(2):
            dr, dc = int(rng.integers(1, 4)), int(rng.integers(1, 4))
            if m == n:
                while dc == dr:
                    dc = int(rng.integers(1, 4))
            kk = int(rng.integers(max(dr, dc) + 1, min(m, n) + 1))
            kr, kc = (kk, kk) if m == n else (int(rng.integers(dr + 1, m + 1)), int(rng.integers(dc + 1, n + 1)))
            lamr, lamc = float(10.0 ** int(rng.integers(0, 4))), float(10.0 ** int(rng.integers(0, 4)))
            x, z, Y = M.make_data2d(rng, m, n)
            W = np.round(rng.uniform(0.05, 1, (m, n)) * 64) / 64
            try:
                with np.errstate(all='ignore'):
                    v = wu2.WhittakerSystem2D((m, n), (lamr, lamc), (dr, dc), (kr, kc)).solve(Y, W)
            except Exception as ex:
                ctx.count('2d-eig-raised:' + type(ex).__name__)
                continue
            ctx.case(('2d-eig', m, n, dr, dc, kr, kc), nontrivial=True)
            ctx.count('host2d:eigen')
            span_err, gal = galerkin_check(Y, W, v, dr, dc, lamr, lamc, kr, kc)
            if span_err > 1e-8 or gal > 1e-8:
                dis.append(Disagreement('c06.galerkin', '2d:eigen:system', f'2-D Whittaker system with eigendecomposition ({(m, n)}, diff_order={(dr, dc)}, '
                                        f'num_eigens={(kr, kc)}, lam={(lamr, lamc)}): the solution does not solve the documented reduced system '
                                        f'(distance from span {span_err:.2g}, Galerkin residual {gal:.2g})',
                                        {'host': '2d.eigen', 'shape': [m, n], 'd': [dr, dc], 'eig': [kr, kc], 'lam': [lamr, lamc]}, True))
    res = drive(lines, timeout=2400)
    ctx.traces += len(lines)
    worst = 0.0
    for ln, r, mt in zip(lines, res, metas):
        if mt[0] == 'berr':
            meta = mt[1]
            a, b_ = (Fraction(t) for t in r.split(' '))
            be = float(a / b_) if b_ > 0 else (0.0 if a == 0 else float('inf'))
            worst = max(worst, be)
            if be > BERR_MAX:
                dis.append(Disagreement('c06.berr', f'{meta["host"]}:system', f'{meta["host"]} (N={meta.get("n", meta.get("shape"))}, d={meta["d"]}, lam={meta["lam"]}, '
                                        f'solver={meta.get("solver")}, step {meta["step"]}): the baseline does not solve the documented system for the weights in '
                                        f'force (exact normwise backward error {be:.3g})', meta, True))
        elif mt[0] in ('loop', 'brloop', 'jbloop'):
            _, meta, obs = mt
            toks = r.split(' ')
            why = None
            if mt[0] == 'loop':
                plen, reason, sidx, bidx = int(toks[0]), toks[1], int(toks[2]), toks[3]
                ctx.count('loop-stop:' + reason)
                if plen != obs['len']:
                    why = f'tol_history has {obs["len"]} entries, the loop model on the recorded decisions gives {plen} ({reason})'
                elif bidx == '-' or int(bidx) >= len(obs['outs']) or not np.array_equal(obs['outs'][int(bidx)], obs['b'], equal_nan=True):
                    why = f'the returned baseline is not the result of solve #{bidx} ({reason})'
                elif sidx >= len(obs['w_seq']) or not np.array_equal(obs['w_seq'][sidx], obs['w'], equal_nan=True):
                    why = (f'the returned weights are not iterate #{sidx} (the model: {reason}, baseline from solve #{bidx}'
                           f'{", so the returned pair must be a solve pair" if reason != "exhausted" else ""})')
                elif obs['a_seq'] is not None and not np.array_equal(obs['a_seq'][sidx], obs['alpha'], equal_nan=True):
                    why = f'the returned alpha is not iterate #{sidx} ({reason})'
            elif mt[0] == 'brloop':
                bidx, widx = toks[0], int(toks[1])
                ctx.count('brloop:' + ('data-returned' if bidx == '-' else 'pair'))
                want_b = obs['y'] if bidx == '-' else obs['outs'][int(bidx)]
                if not np.array_equal(want_b, obs['b'], equal_nan=True):
                    why = f'the returned baseline is not {"the data" if bidx == "-" else "the result of solve #" + bidx}'
                elif not np.array_equal(obs['w_seq'][widx], obs['w'], equal_nan=True):
                    why = f'the returned weights are not those of solve #{widx} (the returned baseline is solve #{bidx})'
            else:
                plen, reason, vidx, sidx = int(toks[0]), toks[1], toks[2], toks[3]
                ctx.count('jbloop-stop:' + reason)
                if plen != obs['len']:
                    why = f'tol_history has {obs["len"]} rows, the loop model on the recorded decisions gives {plen} ({reason})'
                elif vidx == '-' or not np.array_equal(obs['outs'][2 * int(vidx) + 1], obs['b'], equal_nan=True):
                    why = f'the returned baseline is not the baseline solve of pass {vidx}'
                elif not np.array_equal(obs['outs'][2 * int(sidx)], obs['s'], equal_nan=True):
                    why = f'the returned signal is not the signal solve of pass {sidx}'
            if why:
                dis.append(Disagreement('c06.pair', f'{meta["host"]}:returned-pair', f'{meta["host"]} (N={meta["n"]}, {meta["kw"]}): {why}',
                                        meta, True))
        elif mt[0] == 'asmjbcd':
            _, meta, lhs, exact = mt
            pred = np.array([[float(v) for v in parse_qs(row)] for row in r.split(';')])
            # one rounding in c * integer, one in the addition on the main row (no cancellation: c >= 0, diag > 0): 4 eps; dyadic cases exactly
            ok = pred.shape == lhs.shape and (np.array_equal(lhs, pred) if exact else np.allclose(lhs, pred, rtol=4 * EPS, atol=0))
            if not ok:
                dis.append(Disagreement('c06.model', f'model:asmjbcd:{meta["which"]}', f'jbcd (N={meta["n"]}, d={meta["d"]}, solver={meta["solver"]}, {meta["step"]}): the band '
                                        f'array handed to the solver differs from the Lean assembly model' +
                                        (f' (shape {lhs.shape} vs {pred.shape})' if pred.shape != lhs.shape else f' (max abs diff {float(np.max(np.abs(lhs - pred))):.3g})'),
                                        {k: v for k, v in meta.items() if k not in ('x', 'y')}, False))
        elif mt[0] == 'asm2d':
            _, meta, lhs, exact = mt
            pred = np.array([[float(v) for v in parse_qs(row)] for row in r.split(';')])
            ok = pred.shape == lhs.shape and (np.array_equal(lhs, pred) if exact else np.allclose(lhs, pred, rtol=4 * EPS, atol=0))
            if not ok:
                dis.append(Disagreement('c06.model', 'model:asm2d', f'{meta["host"]} (shape {meta["shape"]}, diff_order={meta["d"]}, lam={meta["lam"]}, step '
                                        f'{meta["step"]}): the sparse matrix handed to the solver differs from the Lean model of kron(lam_r P_r, I) + '
                                        f'kron(I, lam_c P_c) + diag(w)' + ('' if pred.shape != lhs.shape else f' (max abs diff {float(np.max(np.abs(lhs - pred))):.3g})'),
                                        meta, False))
        else:
            _, meta, lhs = mt
            pred = np.array([[float(v) for v in parse_qs(row)] for row in r.split(';')])
            if pred.shape != lhs.shape or not np.allclose(lhs, pred, rtol=8 * EPS, atol=(64 * EPS * float(np.max(np.abs(pred))) if meta['kind'] in ('drpls', 'aspls') else 0)):
                dis.append(Disagreement('c06.model', f'model:asm:{meta["kind"]}', f'{meta["host"]} (N={meta["n"]}, d={meta["d"]}, solver={meta["solver"]}): the band '
                                        f'array handed to the solver differs from the Lean assembly model '
                                        f'({"shape " + str(lhs.shape) + " vs " + str(pred.shape) if pred.shape != lhs.shape else "max rel diff %.3g" % float(np.max(np.abs(lhs - pred) / (np.abs(pred) + 1e-300)))})',
                                        {k: v for k, v in meta.items() if k not in ('x', 'y')}, False))
    ctx.notes.append(f'worst exact normwise backward error = {worst:.3g}')
    ctx.hist['worst_backward_error_x1e16'] = int(worst * 1e16)
    return dis


def search(ctx, hints, lean_failed):
    sub = type(ctx)(ctx.prop, 'thorough', ctx.seed + 1)
    return [d for d in correspond(sub) if d.property_level]


def replay(ctx, data):
    """re-executes the 2-D returned-pair cases: the public call in the recorded memory layouts, then the backward error of
    (returned baseline, returned weights) against the documented Kronecker system in double precision (dense)"""
    r = data.get('replay', {})
    c = r.get('call2d')
    if not c:
        return None
    from pybaselines import Baseline2D
    from pybaselines.utils import difference_matrix
    Y = np.array(c['data'], dtype=float)
    m, n = Y.shape
    (dr, dc), (lamr, lamc) = r['d'], r['lam']
    lay_y, lay_w = r.get('layout', ['C', 'C'])
    kw = dict(tol=np.inf, weights=M.layout_variant(np.array(c['weights']), lay_w)) if c['mode'] == 'first-solve' else dict(tol=1e-3, max_iter=60)
    if c['host'] == 'brpls':
        kw['tol_2'] = kw['tol']
    try:
        with np.errstate(all='ignore'):
            b, p = getattr(Baseline2D(np.array(c['x']), np.array(c['z'])), c['host'])(M.layout_variant(Y, lay_y), lam=(lamr, lamc), diff_order=(dr, dc), num_eigens=None, **kw)
    except Exception as ex:      # noqa: BLE001
        return None
    Dr, Dc = difference_matrix(m, dr).toarray(), difference_matrix(n, dc).toarray()
    P = lamr * np.kron(Dr.T @ Dr, np.eye(n)) + lamc * np.kron(np.eye(m), Dc.T @ Dc)
    w = np.asarray(p['weights'], dtype=float).ravel()
    A = np.diag(w) + P
    v = np.asarray(b, dtype=float).ravel()
    rhs = w * Y.ravel()
    be = float(np.max(np.abs(A @ v - rhs)) / (np.max(np.sum(np.abs(A), axis=1)) * np.max(np.abs(v)) + np.max(np.abs(rhs))))
    return f'2-D {c["host"]} ({c["mode"]}, layouts {lay_y}/{lay_w}): backward error {be:.3g}' if be > 1e-9 else None
