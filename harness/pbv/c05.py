"""C05 — no input makes the compiled kernels read or write outside their arrays."""
import glob
import json
import os
import subprocess
import sys

import numpy as np

from . import kernels as K
from .common import Disagreement, drive, q, qs, ROOT

PROP_MODULE = 'PbVerif.Props.C05'
RULE = ('cases = public calls reaching a JIT kernel (P-spline family, loess, corner_cutting, peak_filling, std_distribution, '
        'fastchrom, beads, interp helper) and direct kernel calls, run with the kernels\' Python source substituted so that an '
        'out-of-range scalar index raises; sizes from the minimum accepted upward, extreme legal window/section/knot/degree/'
        'fraction/delta values; plus index-trace comparisons of _find_interval/_de_boor/_numba_btb_bty/_determine_fits with the Lean '
        'models; index/slice traces of _numba_banded_dot_banded, _quadratic_bezier_spline, _interp_inplace, _fill_skips, _loess_solver '
        'and the loess loops vs the Lean index models, and a pre-monitor checking the arguments of every kernel call made by beads, '
        'corner_cutting, loess, peak_filling, std_distribution, fastchrom, pspline_asls against the caller lemmas (c05k.py); '
        'non-trivial = the call reached a kernel; distinct by canonical tuple')
ASSUMPTIONS = [
    'Numba compiles the kernels\' Python source faithfully (index semantics: slices clip, scalar indices in [-n, n) wrap)',
    'an IndexError raised inside a kernel frame of the Python source == an out-of-bounds access of the compiled kernel',
]


def y_of(rng, n, kind='noisy'):
    t = np.linspace(0, 1, n)
    return 2 + t + 3 * np.exp(-((t - 0.5) / 0.08) ** 2) + rng.normal(0, 0.05, n)


def gen_calls(ctx, rng):
    """yield (label, canon, thunk) for boundary-heavy public calls"""
    from pybaselines import Baseline, utils
    sizes_small = [2, 3, 4, 5, 6, 7, 9, 10, 11, 15, 19, 20, 21, 23, 25, 29, 30, 31, 40, 59, 60, 101]
    # ---- loess: total_points from poly_order+1 to N, delta from 0 to beyond the range
    for n in ([1, 2, 3, 4, 5, 7, 8, 11, 22, 23] + ([50, 101] if ctx.thorough else [])):
        x = np.arange(n, dtype=float)
        xs = [x]
        if n >= 4:
            x2 = x.copy()
            x2[-1] = x2[-2] + 10 * n     # a far away last point
            xs.append(x2)
            x3 = x.copy()
            x3[0] = -10.0 * n
            xs.append(x3)
        for xi, xv in enumerate(xs):
            for po in (0, 1, 2):
                tps = sorted({po + 1, po + 2, max(po + 1, n // 2), n - 1, n})
                for tp in tps:
                    if tp < po + 1 or tp > n:
                        continue
                    for delta in (0.0, 0.5, 1.0, 2.1, 2.5, 3.5, float(n), 100.0 * n):
                        for cm in ((True, False) if (n <= 8 and delta in (0.0, 2.1)) else (True,)):
                            y = y_of(rng, n)
                            yield ('loess', ('loess', n, xi, po, tp, delta, cm),
                                   lambda xv=xv, y=y, po=po, tp=tp, delta=delta, cm=cm: Baseline(xv).loess(
                                       y, total_points=tp, poly_order=po, delta=delta, conserve_memory=cm, max_iter=1))
    # ---- peak_filling
    for n in sizes_small:
        y = y_of(rng, n)
        x = np.linspace(0, 5, n)
        yield ('peak_filling', ('peak_filling', n, 'default'), lambda x=x, y=y: Baseline(x).peak_filling(y))
        for sec in sorted({1, 2, 3, max(1, n // 3), max(1, n - 1), n}):
            for hw in (None, 1, 2, n):
                for mi in (1, 2, 5):
                    yield ('peak_filling', ('peak_filling', n, sec, hw, mi),
                           lambda x=x, y=y, sec=sec, hw=hw, mi=mi: Baseline(x).peak_filling(y, half_window=hw, sections=sec, max_iter=mi))
    # ---- std_distribution / fastchrom (rolling std)
    for n in [3, 4, 5, 7, 10, 15, 30, 61]:
        y = y_of(rng, n)
        x = np.linspace(0, 5, n)
        for hw in sorted({1, 2, max(1, (n - 1) // 2), n // 2 + 1, n, n + 3}):
            yield ('std_distribution', ('std_distribution', n, hw), lambda x=x, y=y, hw=hw: Baseline(x).std_distribution(y, half_window=hw))
            yield ('fastchrom', ('fastchrom', n, hw), lambda x=x, y=y, hw=hw: Baseline(x).fastchrom(y, half_window=hw))
    # ---- P-spline family and corner_cutting
    for n in [2, 3, 5, 8, 20, 41]:
        y = y_of(rng, n)
        x = np.sort(rng.uniform(0, 5, n))
        for nk in (2, 3, 5, n, 2 * n + 3):
            for deg in (0, 1, 2, 3, 5):
                for do in (1, 2, 3):
                    if do >= nk + deg - 1:
                        continue
                    yield ('pspline', ('pspline_asls', n, nk, deg, do),
                           lambda x=x, y=y, nk=nk, deg=deg, do=do: Baseline(x).pspline_asls(y, num_knots=nk, spline_degree=deg,
                                                                                           diff_order=do, lam=1.0, max_iter=2))
        for mi in (1, 3, 100):
            yield ('corner_cutting', ('corner_cutting', n, mi), lambda x=x, y=y, mi=mi: Baseline(x).corner_cutting(y, max_iter=mi))
        yield ('pspline_smooth', ('pspline_smooth', n), lambda x=x, y=y: utils.pspline_smooth(y, x[::-1].copy(), num_knots=4, spline_degree=2))
    # ---- beads (banded dot banded)
    for n in [8, 9, 15, 40]:
        y = y_of(rng, n)
        x = np.linspace(0, 5, n)
        for ft in (1, 2):
            yield ('beads', ('beads', n, ft), lambda x=x, y=y, ft=ft: Baseline(x).beads(y, filter_type=ft, max_iter=2, freq_cutoff=0.1))
    # ---- interpolation helper called directly
    for n in [2, 3, 4, 10]:
        xx = np.arange(n, dtype=float)
        yy = np.zeros(n)
        yield ('interp', ('interp', n), lambda xx=xx, yy=yy: utils._interp_inplace(xx, yy, 1.0, 2.0))


def correspond(ctx):
    rng = ctx.np_rng()
    names = set(K.kernel_table())
    dis = []
    for f in sorted(glob.glob(os.path.join(ROOT, 'corpus', 'C05_*.json'))):
        d = json.load(open(f))
        r = replay(ctx, d)
        ctx.case(('corpus', os.path.basename(f)))
        if r:
            dis.append(Disagreement('c05.corpus', d['signature'], f'corpus {os.path.basename(f)}: {r}', d['replay'], True))
    seen_sig = set()
    for label, canon, thunk in gen_calls(ctx, rng):
        res = K.monitored(thunk, names)
        ctx.case(canon, nontrivial=res[0] != 'exc', sample={'call': [str(c) for c in canon]} if len(ctx.samples) < 6 and res[0] == 'ok' else None)
        ctx.count('method:' + label)
        ctx.count('outcome:' + res[0])
        if res[0] == 'oob':
            sig = f'oob:{res[1]}:{label}'
            detail = (f'{label}{canon[1:]}: kernel {res[1]} indexes outside its array ({res[2]}); compiled code would access foreign memory')
            if sig not in seen_sig:
                seen_sig.add(sig)
                dis.append(Disagreement('c05.oob', sig, detail, {'kind': 'call', 'canon': [c if not isinstance(c, (np.integer, np.floating)) else float(c) for c in canon],
                                                                 'kernel': res[1]}, True))
    dis += kernel_level(ctx, rng, names)
    from . import c05k
    dis += c05k.correspond_more(ctx, rng, names)
    # object-history fuzzer (hist.py) with the kernels' Python source in place of the compiled code: cached objects (spline basis,
    # Vandermonde, lazily created x) carried from one call into the next must never make a kernel index outside its arrays
    from . import hist
    for spec, f in hist.campaign(ctx, rng, 'oob', 40 if ctx.thorough else 14, 10 if ctx.thorough else 3, py_source=True):
        dis.append(Disagreement('c05.fuzz', f'fuzz:oob:{spec["steps"][-1]["method"]}',
                                f'history on one fitter (created {"without x" if spec["mode"] == "none" else "with x"}): {hist.describe(spec)[:700]} — call {f[0] + 1}: {f[2]}; '
                                f'compiled code would access foreign memory', {'kind': 'fuzz', 'spec': spec}, True))
    return dis


def kernel_level(ctx, rng, names):
    """direct kernel calls with extreme legal arguments + comparison with the Lean index models"""
    from pybaselines import polynomial as P, _spline_utils as su
    dis = []
    det_fits = K.kernel_table()['_determine_fits'][1].py_func
    # _determine_fits directly (what loess passes: sorted unique x, 1 <= total_points <= N, delta >= 0)
    lines, exp = [], []
    for n in list(range(1, 12)) + [22, 23]:
        for tp in sorted({1, 2, max(1, n // 2), max(1, n - 1), n}):
            if tp > n:
                continue
            for kind in ('uniform', 'gap_end', 'gap_start', 'random'):
                if kind == 'uniform':
                    x = np.arange(n, dtype=float)
                elif kind == 'gap_end':
                    x = np.arange(n, dtype=float)
                    x[-1] += 8 * n
                elif kind == 'gap_start':
                    x = np.arange(n, dtype=float)
                    x[0] -= 8 * n
                else:
                    x = np.cumsum(rng.integers(1, 9, n)).astype(float) / 4
                for delta in (0.0, 0.5, 1.0, 2.125, 2.5, 3.5, float(n), 100.0 * n):
                    canon = ('_determine_fits', n, tp, kind, delta, tuple(x.tolist()))
                    res = K.monitored(lambda: det_fits(x, n, tp, delta), names | {'_determine_fits'})
                    ctx.case(canon, nontrivial=True)
                    ctx.count('kernel:_determine_fits')
                    if res[0] == 'oob' or (res[0] == 'exc' and res[1] == 'IndexError'):
                        dis.append(Disagreement('c05.oob', 'oob:_determine_fits:direct',
                                                f'_determine_fits(N={n}, total_points={tp}, delta={delta}, x={kind}) indexes outside its arrays: {res[2]}',
                                                {'kind': 'determine_fits', 'x': x.tolist(), 'tp': tp, 'delta': delta}, True))
                        continue
                    if res[0] != 'ok':
                        continue
                    w, f, s = res[1]
                    bad = [tuple(int(v) for v in ww) for ww in w if not (0 <= ww[0] and ww[1] <= n and ww[1] - ww[0] == tp)]
                    if bad:
                        dis.append(Disagreement('c05.oob', 'oob:_determine_fits:window',
                                                f'_determine_fits(N={n}, total_points={tp}, delta={delta}, x={kind}) returns the window {bad[0]} '
                                                f'which is not total_points indices inside [0, N): the loess kernels then index an empty/short slice',
                                                {'kind': 'determine_fits', 'x': x.tolist(), 'tp': tp, 'delta': delta}, True))
                    if n >= 2:
                        lines.append(f'c19.fits {tp} {q(delta)} {qs(x)}')
                        exp.append(fmt_fits(w, f, s))
    if lines:
        try:
            res = drive(lines)
            ctx.traces += len(lines)
            for ln, r, e in zip(lines, res, exp):
                if r != e and r != 'bad-op':
                    dis.append(Disagreement('c05.model', 'model:_determine_fits', f'_determine_fits differs from the Lean model: {ln[:80]} '
                                            f'model={r[:120]} real={e[:120]}', {'line': ln, 'model': r, 'real': e}, False))
                elif r == 'bad-op':
                    ctx.notes.append('driver has no c19.fits op yet')
                    break
        except Exception as e:
            ctx.notes.append(f'driver: {e}')
    # _find_interval with arbitrary comparison outcomes (NaN, unsorted knots, any last_left): index trace vs model
    lines, exp = [], []
    for _ in range(200 if ctx.thorough else 60):
        deg = int(rng.integers(0, 6))
        nb = int(rng.integers(deg + 1, deg + 8))
        knots = rng.normal(0, 1, nb + deg + 1)
        if rng.random() < 0.5:
            knots = np.sort(knots)
        if rng.random() < 0.3:
            knots[rng.integers(0, len(knots))] = np.nan
        xv = float(rng.normal(0, 1.5)) if rng.random() < 0.85 else float('nan')
        last = int(rng.integers(0, nb + deg + 3))
        reads = []

        class KR(np.ndarray):
            def __getitem__(self, i):
                reads.append(int(i))
                return np.ndarray.__getitem__(self, i)
        kk = knots.view(KR)
        try:
            out = su._find_interval.py_func(kk, deg, xv, last, nb)
        except IndexError as e:
            dis.append(Disagreement('c05.oob', 'oob:_find_interval', f'_find_interval indexes outside knots: {e}',
                                    {'kind': 'find_interval', 'knots': knots.tolist(), 'deg': deg, 'nb': nb, 'x': xv, 'last': last}, True))
            continue
        with np.errstate(invalid='ignore'):
            lts = ''.join('1' if xv < k else '0' for k in knots)
            ges = ''.join('1' if xv >= k else '0' for k in knots)
        lines.append(f'c12.findo {deg} {nb} {last} {lts} {ges}')
        exp.append(f'{out}|' + (','.join(map(str, reads)) if reads else '-'))
        ctx.case(('find_interval', deg, nb, last, lts, ges), nontrivial=True)
        ctx.count('kernel:_find_interval')
        if any(r < 0 or r >= len(knots) for r in reads):
            dis.append(Disagreement('c05.oob', 'oob:_find_interval', '_find_interval read outside knots',
                                    {'kind': 'find_interval', 'knots': knots.tolist(), 'deg': deg, 'nb': nb, 'x': xv, 'last': last}, True))
    res = drive(lines)
    ctx.traces += len(lines)
    for ln, r, e in zip(lines, res, exp):
        if r != e:
            dis.append(Disagreement('c05.model', 'model:_find_interval', f'_find_interval index trace differs from the model: {ln} model={r} real={e}',
                                    {'line': ln}, False))
    dis += index_traces(ctx, rng)
    return dis


def index_traces(ctx, rng):
    """recorded index traces of the Python-source kernels vs the Lean index models"""
    from .rec import Rec
    from .common import parse_ints
    import pybaselines.classification as C
    import pybaselines._spline_utils as su
    dis = []
    tab = K.kernel_table()
    dm = tab['_directional_min_moving_avg'][1].py_func
    rs = tab['_rolling_std'][1].py_func
    deboor = tab['_de_boor'][1].py_func
    btb = tab['_numba_btb_bty'][1].py_func
    lines, exp, kinds = [], [], []
    for L in list(range(1, 12)) + [25]:
        for hw in (0, 1, 2, 3, 5, 8, 30):
            log = []
            y = Rec(rng.normal(size=L + int(rng.integers(0, 3))), 'y', log)
            try:
                dm(y, L, hw)
            except IndexError as e:
                dis.append(Disagreement('c05.oob', 'oob:_directional_min_moving_avg:direct', f'_directional_min_moving_avg(L={L}, hw={hw}): {e}',
                                        {'kind': 'dirmin', 'L': L, 'hw': hw}, True))
                continue
            reads = [i[2][0] for i in log if i[0] == 'r']
            writes = [i[2][0] for i in log if i[0] == 'w']
            lines.append(f'c05.dirmin {L} {hw}')
            exp.append((reads, writes))
            kinds.append('dirmin')
            ctx.case(('dirmin', L, hw), nontrivial=True)
            ctx.count('kernel:_directional_min_moving_avg')
    for N in range(1, 9):
        for hw in range(0, 6):
            numY = N + 2 * hw
            log = []
            d = Rec(rng.normal(size=numY), 'd', log)

            class NP:
                def __getattr__(self, k):
                    return getattr(np, k)

                def zeros(self, n, *a, **k):
                    return Rec(np.zeros(n), 'sq', log)
            old = C.np
            C.np = NP()
            try:
                with np.errstate(all='ignore'):
                    rs(d, hw, 1)
            except IndexError as e:
                dis.append(Disagreement('c05.oob', 'oob:_rolling_std:direct', f'_rolling_std(N={N}+2*{hw}, hw={hw}): {e}',
                                        {'kind': 'rstd', 'N': N, 'hw': hw}, True))
                continue
            finally:
                C.np = old
            dr = sorted(i[2][0] for i in log if i[1] == 'd')
            sq = sorted(i[2][0] for i in log if i[1] == 'sq')
            lines.append(f'c05.rstd {numY} {hw}')
            exp.append((dr, sq))
            kinds.append('rstd')
            ctx.case(('rstd', N, hw), nontrivial=True)
            ctx.count('kernel:_rolling_std')
    for deg in range(0, 6):
        for left in (deg, deg + 1, deg + 4):
            nb = left + 1 + int(rng.integers(0, 3))
            log = []
            knots = Rec(np.sort(rng.normal(size=nb + deg + 1)), 'k', log)
            work = Rec(np.zeros(2 * (deg + 1)), 'w', log)
            xv = float(knots[left]) * 0.5 + float(knots[left + 1]) * 0.5
            log.clear()
            try:
                deboor(knots, xv, deg, left, work)
            except IndexError as e:
                dis.append(Disagreement('c05.oob', 'oob:_de_boor:direct', f'_de_boor(deg={deg}, left={left}): {e}', {'kind': 'deboor'}, True))
                continue
            kr = [i[2][0] for i in log if i[1] == 'k']
            wr = sorted(set(i[2][0] for i in log if i[1] == 'w'))
            lines.append(f'c12.deboor_idx {deg} {left}')
            exp.append((kr, wr))
            kinds.append('deboor')
            ctx.case(('deboor', deg, left), nontrivial=deg > 0)
            ctx.count('kernel:_de_boor')
    res = drive(lines)
    ctx.traces += len(lines)
    for ln, r, e, kind in zip(lines, res, exp, kinds):
        if kind == 'dirmin':
            ok = parse_ints(r) == e[0] and set(e[1]) <= set(e[0])
        elif kind == 'rstd':
            a, b = r.split('|')
            ok = sorted(parse_ints(a)) == e[0] and sorted(parse_ints(b)) == e[1]
        else:
            a, b = r.split('|')
            ok = parse_ints(a) == e[0] and sorted(set(parse_ints(b))) == e[1]
        if not ok:
            dis.append(Disagreement('c05.model', f'model:{kind}', f'index trace of the kernel differs from the Lean index model: {ln} model={r[:80]} real={str(e)[:80]}',
                                    {'line': ln}, False))
    return dis


def fmt_fits(w, f, s):
    ws = ';'.join(f'{int(a)},{int(b)}' for a, b in w) if len(w) else '-'
    fs = ','.join(str(int(v)) for v in f) if len(f) else '-'
    ss = ';'.join(f'{int(a)},{int(b)}' for a, b in s) if len(s) else '-'
    return f'{ws}|{fs}|{ss}'


def search(ctx, hints, lean_failed):
    sub = type(ctx)(ctx.prop, 'thorough', ctx.seed + 1)
    return [d for d in correspond(sub) if d.property_level]


def replay(ctx, data):
    from pybaselines import Baseline, polynomial as P
    r = data['replay']
    names = set(K.kernel_table())
    if r.get('kind') == 'fuzz':
        from . import hist
        f = [x for x in hist.run(r['spec'], want=(), py_source=True, names=names) if x[1] == 'oob']
        return f'call {f[0][0] + 1}: {f[0][2]}' if f else None
    if r.get('kind') == 'determine_fits':
        x = np.array(r['x'])
        n = len(x)
        det_fits = K.kernel_table()['_determine_fits'][1].py_func
        res = K.monitored(lambda: det_fits(x, n, r['tp'], r['delta']), names | {'_determine_fits'})
        if res[0] == 'oob' or (res[0] == 'exc' and res[1] == 'IndexError'):
            return f'_determine_fits indexes outside its arrays: {res[2]}'
        if res[0] == 'ok':
            bad = [tuple(int(v) for v in ww) for ww in res[1][0] if not (0 <= ww[0] and ww[1] <= n and ww[1] - ww[0] == r['tp'])]
            if bad:
                return f'window {bad[0]} is not total_points indices inside [0, N)'
        return None
    if r.get('kind') == 'call':
        c = r['canon']
        rng = np.random.default_rng(0)
        for label, canon, thunk in gen_calls(type(ctx)(ctx.prop, 'thorough', 0), rng):
            if [str(v) for v in canon] == [str(v) for v in c] or list(canon) == c:
                res = K.monitored(thunk, names)
                if res[0] == 'oob':
                    return f'kernel {res[1]} indexes outside its array: {res[2]}'
                return None
        return None
    return None
