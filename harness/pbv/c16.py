"""C16 — equivalent ways of supplying the same inputs give the same result."""
import glob
import importlib
import json
import os

import numpy as np

from . import methods as M
from . import cmp
from .common import Disagreement, drive, ROOT

PROP_MODULE = 'PbVerif.Props.C16'
GEN_TABLES = ('Wrappers',)
RULE = ('cases = (method, dimension, variant) with variant in {list, tuple, (N,1), (1,N), strided view, float32, int64, x as list/'
        'float32/int, per-point argument as list/column/int, explicit output_dtype, x omitted vs linspace(-1,1,N), method name in other '
        'letter case, module-level function with x_data, positional vs keyword}; the variant call must equal the reference call cast to '
        'the documented output dtype bit for bit; non-trivial = variant differs from the reference layout; distinct by canonical tuple')
ASSUMPTIONS = [
    'np.asarray conversions of lists/tuples/views/other dtypes yield the same numbers (data are chosen exactly representable in float32/int64 where those dtypes are used)',
    'the documented output dtype is output_dtype if given, else the dtype of the data as converted by np.asarray',
]


def eq(a, b, layout=False):
    """bit-for-bit equality; for memory-layout variants (strided / Fortran order) NumPy's reductions run in a different
    order, so equality is demanded to rounding (1e-9 relative) only"""
    a, b = np.asarray(a), np.asarray(b)
    if a.shape != b.shape or a.dtype != b.dtype:
        return False
    if np.array_equal(a, b, equal_nan=True):
        return True
    if layout:
        tol = max(1e-9, 4 * float(np.finfo(a.dtype).eps)) if a.dtype.kind == 'f' else 0
        sc = max(1.0, float(np.nanmax(np.abs(np.asarray(b, float)))) if b.size else 1.0)
        return bool(np.allclose(np.asarray(a, float), np.asarray(b, float), rtol=tol, atol=tol * sc, equal_nan=True))
    return False


LAYOUT = {'strided', 'fortran', 'fortran-column', 'x-strided'}


def conditioning_excuses(ctx, b, want, run_perturbed):
    """a memory-layout variant may round differently (1e-16); an ill-conditioned problem amplifies that. The difference is
    attributed to the conditioning when it is within 1000x the change caused by a 1e-14 relative perturbation of the data"""
    try:
        b, want = np.asarray(b, dtype=float), np.asarray(want, dtype=float)
        if b.shape != want.shape or not (np.all(np.isfinite(b)) and np.all(np.isfinite(want))):
            return False
        d_obs = float(np.max(np.abs(b - want)))
        bp = np.asarray(run_perturbed(), dtype=float)
        d_pert = float(np.max(np.abs(bp - want)))
        if d_obs <= 1000 * d_pert:
            ctx.count('ill-conditioned-case')
            return True
    except Exception:          # noqa: BLE001
        pass
    return False


def params_equal(pa, pb):
    fa, fb = cmp.flatten(pa), cmp.flatten(pb)
    if set(fa) != set(fb):
        return 'parameter keys differ'
    for k in fa:
        va, vb = fa[k], fb[k]
        try:
            if isinstance(va, np.ndarray) or isinstance(vb, np.ndarray):
                if not np.array_equal(np.asarray(va), np.asarray(vb), equal_nan=True):
                    return f'parameter {k} differs'
            elif isinstance(va, (list, tuple)):
                if not np.array_equal(np.asarray(va, dtype=float), np.asarray(vb, dtype=float), equal_nan=True):
                    return f'parameter {k} differs'
            elif isinstance(va, float) and np.isnan(va) and isinstance(vb, float) and np.isnan(vb):
                continue
            elif va != vb:
                return f'parameter {k} differs'
        except (TypeError, ValueError):
            if repr(va) != repr(vb):
                return f'parameter {k} differs'
    return None


def data1d(rng, n):
    # values exactly representable in float32 (multiples of 1/64 below 2^10), integer variant separately
    t = np.linspace(0, 1, n)
    y = 5 + 3 * t + 7 * np.exp(-((t - 0.4) / 0.06) ** 2) + 3 * np.exp(-((t - 0.75) / 0.1) ** 2) + rng.normal(0, 0.1, n)
    y = np.round(y * 64) / 64
    x = np.round((10 + 80 * t) * 16) / 16
    return x, y


def data2d(rng, m, n):
    x = np.round(np.linspace(-20, 30, m) * 16) / 16
    z = np.round(np.linspace(0, 50, n) * 16) / 16
    X, Z = np.meshgrid(np.linspace(0, 1, m), np.linspace(0, 1, n), indexing='ij')
    Y = 3 + X + 2 * Z + 9 * np.exp(-(((X - 0.4) / 0.2) ** 2 + ((Z - 0.5) / 0.2) ** 2)) + rng.normal(0, 0.05, (m, n))
    return x, z, np.round(Y * 64) / 64


def variants_1d(rng, x, y):
    """(label, make_fitter_args(x), data, expected_dtype or None=float64)"""
    n = len(y)
    big = np.zeros(2 * n)
    big[::2] = y
    yi = np.round(y)                    # integer-valued data for the integer dtype variant (its own reference)
    return [
        ('list', x, y.tolist(), None, y),
        ('tuple', x, tuple(y.tolist()), None, y),
        ('column', x, y.reshape(-1, 1), None, y),
        ('row', x, y.reshape(1, -1), None, y),
        ('strided', x, big[::2], None, y),
        ('fortran-column', x, np.asfortranarray(y.reshape(-1, 1)), None, y),
        ('float32', x, y.astype(np.float32), np.float32, y),
        ('int64', x, yi.astype(np.int64), np.int64, yi),
        ('int32-list-x', x.tolist(), yi.astype(np.int32), np.int32, yi),
        ('x-list', x.tolist(), y, None, y),
        ('x-float32', x.astype(np.float32), y, None, y),
        ('x-column', x.reshape(-1, 1), y, None, y),
        ('x-strided', np.repeat(x, 2)[::2], y, None, y),
    ]


def call1d(name, xarg, data, kw, output_dtype=None, iface='class', module=None, lookup=None):
    from pybaselines import Baseline
    if iface == 'func':
        fn = getattr(importlib.import_module('pybaselines.' + module), name)
        return fn(data, x_data=xarg, **kw)
    fit = Baseline(xarg, output_dtype=output_dtype) if xarg is not None else Baseline(output_dtype=output_dtype)
    meth = fit._get_method(lookup) if lookup else getattr(fit, name)
    return meth(data, **kw)


def correspond(ctx):
    from pybaselines import Baseline, Baseline2D
    rng = ctx.np_rng()
    dis = []
    for f in ([] if getattr(ctx, 'no_corpus', False) else sorted(glob.glob(os.path.join(ROOT, 'corpus', 'C16_*.json')))):
        d = json.load(open(f))
        r = replay(ctx, d)
        ctx.case(('corpus', os.path.basename(f)))
        if r:
            dis.append(Disagreement('c16.corpus', d['signature'], f'corpus {os.path.basename(f)}: {r}', d['replay'], True))
    reg1, reg2 = M.registry(False), M.registry(True)
    n = 50

    def report(sig, detail, meta):
        dis.append(Disagreement('c16.variant', sig, detail, meta, True))

    # ------------------------------------------------------------ module-level wrappers: parameter order
    import inspect
    from pybaselines import Baseline as _B
    for name, e in reg1.items():
        try:
            fn = getattr(importlib.import_module('pybaselines.' + e['module']), name)
        except Exception:      # noqa: BLE001
            continue
        fo = [pn for pn in inspect.signature(fn).parameters if pn not in ('x_data', 'kwargs')]
        mo = [pn for pn in inspect.signature(getattr(_B, name)).parameters if pn not in ('self', 'kwargs')]
        ctx.case(('signature-order', name), nontrivial=True)
        ctx.count('signature-order')
        if name != 'interp_pts' and fo != mo and sorted(fo) == sorted(mo):      # interp_pts' function takes x_data first, by design
            # the wrapper forwards the arguments that precede x_data by POSITION: another order sends keyword arguments to the wrong parameters
            k = next(i for i, (a, b) in enumerate(zip(fo, mo)) if a != b)
            report(f'1d:{name}:signature-order', f'{e["module"]}.{name} lists its parameters as {fo[:k + 2]}... but the method as {mo[:k + 2]}...; the wrapper forwards '
                   f'positionally, so keyword arguments reach the wrong parameters', {'method': name, 'variant': 'signature-order'})
    # ------------------------------------------------------------ 1-D
    only = getattr(ctx, 'only_method', None)
    for name, e in reg1.items():
        if only and name != only:
            continue
        x, y = data1d(rng, n)
        kw = M.filter_kwargs(e, M.call_kwargs(name, False))
        if rng.random() < 0.5:
            vs = M.variants(name, e, False, rng, 1, base=kw)      # a non-default parameter value (optional code paths)
            if vs and vs[0].get('tol', 1) != 0.0:
                kw = vs[0]
                ctx.count('kwargs:variant')
        stack = name == 'collab_pls'
        refs = {}

        def ref_for(ydata):
            key = ydata.tobytes()
            if key not in refs:
                d = np.array([ydata, ydata + 1]) if stack else ydata
                with np.errstate(all='ignore'):
                    refs[key] = call1d(name, x, d, kw)
            return refs[key]
        try:
            ref_for(y)
        except Exception as ex:
            ctx.notes.append(f'1d:{name}: reference call raises {type(ex).__name__}')
            continue
        vs = variants_1d(rng, x, y)
        if not ctx.thorough:
            idx = sorted(rng.choice(len(vs), 6, replace=False))
            vs = [vs[i] for i in idx]
        for label, xarg, data, dt, yref in vs:
            if stack:
                if label in ('column', 'row', 'fortran-column'):
                    continue
                data = np.array([np.asarray(data).ravel(), np.asarray(data).ravel() + 1], dtype=np.asarray(data).dtype)
                if label in ('list', 'tuple'):
                    data = data.tolist()
            ctx.count('variant:' + label)
            meta = {'method': name, 'two_d': False, 'variant': label}
            try:
                with np.errstate(all='ignore'):
                    rb, rp = ref_for(yref)
            except Exception as ex:
                ctx.count('reference-raises')       # the float64 call on the same numbers raises too: nothing to compare
                continue
            try:
                with np.errstate(all='ignore'):
                    b, p = call1d(name, xarg, data, kw)
            except Exception as ex:
                report(f'1d:{name}:{label}:raises', f'{name} with {label} input raised {type(ex).__name__}: {ex} (the reference call returns)', meta)
                continue
            ctx.case(('1d', name, label), nontrivial=True, sample={'method': name, 'variant': label} if len(ctx.samples) < 3 else None)
            want = np.asarray(rb, dtype=dt if dt is not None else rb.dtype)
            if not eq(b, want, label in LAYOUT):
                if label in LAYOUT and conditioning_excuses(ctx, b, want, lambda: call1d(
                        name, x, (np.array([yref, yref + 1]) if stack else yref) * (1 + 1e-14 * np.where(np.arange(np.size(yref)) % 2, 1.0, -1.0)), kw)[0]):
                    continue
                report(f'1d:{name}:{label}', f'{name}: {label} input gives a different baseline than the reference layout '
                       f'(dtype {np.asarray(b).dtype} vs {want.dtype}, max diff '
                       f'{float(np.max(np.abs(np.asarray(b, float) - np.asarray(want, float)))) if np.shape(b) == np.shape(want) else "shape"})', meta)
            elif label not in LAYOUT:
                pe = params_equal(p, rp)
                if pe:
                    report(f'1d:{name}:{label}:params', f'{name}: {label} input: {pe}', meta)
        # per-point keyword arguments in other containers
        for arg in ('weights', 'alpha'):
            if arg not in e['params'] or (arg == 'alpha' and 'aspls' not in name) or stack:
                continue
            w = np.round(rng.uniform(0.2, 1, n) * 32) / 32
            if name in ('fabc', 'golotvin', 'dietrich', 'std_distribution', 'fastchrom', 'cwt_br', 'rubberband'):
                w = (w > 0.4).astype(float)
            with np.errstate(all='ignore'):
                try:
                    rb, rp = call1d(name, x, y, dict(kw, **{arg: w}))
                except Exception:
                    continue
                for label, wv in (('list', w.tolist()), ('column', w.reshape(-1, 1)), ('float32', w.astype(np.float32)), ('strided', np.repeat(w, 2)[::2]),
                                  ('int', None)):
                    if label == 'int':
                        # integer weights: 0/1 masks are the integer-valued case every method accepts
                        wi = (w > 0.4).astype(float)
                        try:
                            rbi = call1d(name, x, y, dict(kw, **{arg: wi}))[0]
                            bi = call1d(name, x, y, dict(kw, **{arg: wi.astype(np.int64)}))[0]
                        except Exception:
                            continue
                        ctx.case(('1d', name, arg, 'int'), nontrivial=True)
                        if not eq(bi, rbi):
                            report(f'1d:{name}:{arg}:int', f'{name}: {arg} passed as int64 changes the baseline', {'method': name, 'arg': arg, 'variant': 'int'})
                        continue
                    ctx.count(f'{arg}:{label}')
                    try:
                        b, p = call1d(name, x, y, dict(kw, **{arg: wv}))
                    except Exception as ex:
                        report(f'1d:{name}:{arg}:{label}:raises', f'{name}({arg} as {label}) raised {type(ex).__name__}: {ex}', {'method': name, 'arg': arg, 'variant': label})
                        continue
                    ctx.case(('1d', name, arg, label), nontrivial=True)
                    if not eq(b, rb, label in LAYOUT):
                        report(f'1d:{name}:{arg}:{label}', f'{name}: {arg} passed as {label} changes the baseline', {'method': name, 'arg': arg, 'variant': label})
        # per-point arguments handed to the wrapped method through an optimizer's method_kwargs, in other containers / layouts
        if name in ('optimize_extended_range', 'custom_bc', 'collab_pls') and 'method_kwargs' in e['params']:
            w = np.round(rng.uniform(0.2, 1, n) * 32) / 32
            okw = dict(kw)
            okw.setdefault('method', 'asls')
            if name == 'optimize_extended_range':
                okw.update(min_value=3, max_value=4)
            d0o = np.array([y, y + 1]) if stack else y
            try:
                with np.errstate(all='ignore'):
                    rbo, rpo = call1d(name, x, d0o, dict(okw, method_kwargs={'weights': w}))
            except Exception:
                rbo = None
            if rbo is not None:
                for label, wv in (('list', w.tolist()), ('column', w.reshape(-1, 1)), ('row', w.reshape(1, -1)), ('float32', w.astype(np.float32)),
                                  ('strided', np.repeat(w, 2)[::2])):
                    ctx.count('variant:method_kwargs-weights-' + label)
                    meta = {'method': name, 'two_d': False, 'variant': 'method_kwargs-weights-' + label}
                    try:
                        with np.errstate(all='ignore'):
                            b, p = call1d(name, x, d0o, dict(okw, method_kwargs={'weights': wv}))
                    except Exception as ex:
                        report(f'1d:{name}:method_kwargs:{label}:raises', f'{name} with weights passed as {label} inside method_kwargs raised {type(ex).__name__}: {ex} '
                               f'(the (N,) array works)', meta)
                        continue
                    ctx.case(('1d', name, 'method_kwargs', label), nontrivial=True)
                    if not eq(b, rbo, True):
                        report(f'1d:{name}:method_kwargs:{label}', f'{name}: weights passed as {label} inside method_kwargs change the baseline', meta)
        # explicit output dtype, omitted x, name lookup, functional interface, positional data
        d0 = np.array([y, y + 1]) if stack else y
        with np.errstate(all='ignore'):
            rb, rp = ref_for(y)
            checks = []
            for odt in (np.float32, np.float64):
                checks.append((f'output_dtype={np.dtype(odt).name}', lambda odt=odt: call1d(name, x, d0, kw, output_dtype=odt), np.asarray(rb, dtype=odt), None))
            for nm in (name.upper(), name.capitalize(), name[:1].upper() + name[1:]):
                checks.append((f'lookup:{nm}', lambda nm=nm: call1d(name, x, d0, kw, lookup=nm), rb, rp))
            if name != 'interp_pts':     # its first positional argument is x_data itself
                checks.append(('functional', lambda: call1d(name, x, d0, kw, iface='func', module=e['module']), rb, rp))
            if name != 'interp_pts':
                checks.append(('functional-keyword-data', lambda: getattr(importlib.import_module('pybaselines.' + e['module']), name)(data=d0, x_data=x, **kw), rb, rp))
            if name != 'interp_pts':
                # every parameter passed explicitly BY KEYWORD with its default value (a wrapper that forwards by position must
                # keep the method's parameter order), plus the call's own keyword arguments
                kw_all = {pn: pv for pn, pv in e['params'].items() if pv is not None and pn not in ('weights', 'alpha', 'x_data', 'method_kwargs', 'pad_kwargs',
                                                                                                   'window_kwargs', 'kwargs')}
                kw_all.update(kw)
                try:
                    wba, wpa = call1d(name, x, d0, kw_all)
                    checks.append(('functional-all-keywords', lambda: call1d(name, x, d0, kw_all, iface='func', module=e['module']), wba, wpa))
                except Exception:
                    pass
                # the same equivalence when x is not sorted (rotated: the sorting permutation is not its own inverse)
                for plabel, perm in (('rotated', np.roll(np.arange(n), n // 3)), ('shuffled', rng.permutation(n))):
                    xu, du = x[perm], d0[..., perm]
                    try:
                        wb, wp = call1d(name, xu, du, kw)
                    except Exception:
                        continue
                    checks.append((f'functional-{plabel}-x', lambda xu=xu, du=du: call1d(name, xu, du, kw, iface='func', module=e['module']), wb, wp))
            for label, fn, want, wantp in checks:
                ctx.count('variant:' + label.split(':')[0])
                try:
                    b, p = fn()
                except Exception as ex:
                    report(f'1d:{name}:{label.split(":")[0]}:raises', f'{name} via {label} raised {type(ex).__name__}: {ex}', {'method': name, 'variant': label})
                    continue
                ctx.case(('1d', name, label), nontrivial=True)
                if not eq(b, want, label.startswith('output_dtype')):
                    report(f'1d:{name}:{label.split(":")[0]}', f'{name} via {label} differs from the method called on a fitter object', {'method': name, 'variant': label})
                elif wantp is not None:
                    pe = params_equal(p, wantp)
                    if pe:
                        report(f'1d:{name}:{label.split(":")[0]}:params', f'{name} via {label}: {pe}', {'method': name, 'variant': label})
            # omitted x == linspace(-1, 1, N)
            if name not in ('interp_pts',):
                try:
                    b0, p0 = call1d(name, None, d0, kw)
                    b1, p1 = call1d(name, np.linspace(-1, 1, n), d0, kw)
                    ctx.case(('1d', name, 'no-x'), nontrivial=True)
                    ctx.count('variant:no-x')
                    if not eq(b0, b1) or params_equal(p0, p1):
                        report(f'1d:{name}:no-x', f'{name}: omitting x differs from passing linspace(-1, 1, N)', {'method': name, 'variant': 'no-x'})
                except Exception as ex:
                    ctx.notes.append(f'1d:{name}: no-x comparison raised {type(ex).__name__}')
                # ... for data of another dtype as well (the implicit x must not inherit the data's dtype), through the fitter and
                # the module-level function
                for dlabel, dv in (('float32', np.asarray(d0, dtype=np.float32)), ('int64', np.round(d0).astype(np.int64))):
                    fn = getattr(importlib.import_module('pybaselines.' + e['module']), name)
                    for via in ('class', 'func'):
                        try:
                            with np.errstate(all='ignore'):
                                if via == 'class':
                                    b1, p1 = call1d(name, np.linspace(-1, 1, n), dv, kw, output_dtype=np.float64)
                                else:
                                    b1, p1 = fn(dv, x_data=np.linspace(-1, 1, n), **kw)
                        except Exception:
                            continue
                        try:
                            with np.errstate(all='ignore'):
                                if via == 'class':
                                    b0, p0 = call1d(name, None, dv, kw, output_dtype=np.float64)
                                else:
                                    b0, p0 = fn(dv, **kw)
                        except Exception as ex:
                            report(f'1d:{name}:no-x:{dlabel}:raises', f'{name}: {dlabel} data without x ({via}) raised {type(ex).__name__}: {ex} (with the explicit '
                                   f'linspace(-1, 1, N) it returns)', {'method': name, 'variant': f'no-x-{dlabel}'})
                            continue
                        ctx.case(('1d', name, 'no-x', dlabel, via), nontrivial=True)
                        ctx.count('variant:no-x-' + dlabel)
                        if not eq(b0, b1):
                            report(f'1d:{name}:no-x:{dlabel}', f'{name}: {dlabel} data without x ({via}) differs from passing linspace(-1, 1, N) by '
                                   f'{float(np.max(np.abs(np.asarray(b0, float) - np.asarray(b1, float)))):.3g}', {'method': name, 'variant': f'no-x-{dlabel}'})
        # optimizers: wrapped method names in any letter case
        if name in ('collab_pls', 'optimize_extended_range', 'custom_bc'):
            for wrapped in (['asls', 'aspls', 'fabc', 'mpls', 'brpls', 'pspline_aspls'] if name == 'collab_pls' else ['asls', 'modpoly', 'mor']):
                mk = {'half_window': 5} if wrapped in ('mpls', 'mor') else {}
                try:
                    with np.errstate(all='ignore'):
                        rb2, rp2 = call1d(name, x, d0, dict(method=wrapped, method_kwargs=dict(mk)))
                        for nm in (wrapped.upper(), wrapped.capitalize(), wrapped[:2] + wrapped[2:].upper()):
                            b2, p2 = call1d(name, x, d0, dict(method=nm, method_kwargs=dict(mk)))
                            ctx.case(('1d', name, 'wrapped-case', nm), nontrivial=True)
                            ctx.count('variant:wrapped-method-case')
                            if not eq(b2, rb2) or params_equal(p2, rp2):
                                report(f'1d:{name}:method-case:{wrapped}', f'{name}(method={nm!r}) differs from method={wrapped!r}', {'method': name, 'variant': 'wrapped-case', 'wrapped': nm})
                except Exception as ex:
                    report(f'1d:{name}:method-case:{wrapped}:raises', f'{name}(method={wrapped} in another letter case) raised {type(ex).__name__}: {ex}',
                           {'method': name, 'variant': 'wrapped-case', 'wrapped': wrapped})
    # ------------------------------------------------------------ 2-D
    m2, n2 = 12, 10
    for name, e in reg2.items():
        if only and name != only:
            continue
        x, z, Y = data2d(rng, m2, n2)
        kw = M.filter_kwargs(e, M.call_kwargs(name, True))
        if rng.random() < 0.5:
            vs = M.variants(name, e, True, rng, 1, base=kw)
            if vs and vs[0].get('tol', 1) != 0.0:
                kw = vs[0]
                ctx.count('kwargs:variant')
        stack = name == 'collab_pls'
        d0 = np.array([Y, Y + 1]) if stack else Y
        try:
            with np.errstate(all='ignore'):
                rb, rp = getattr(Baseline2D(x, z), name)(d0, **kw)
        except Exception as ex:
            ctx.notes.append(f'2d:{name}: reference call raises {type(ex).__name__}')
            continue
        Yi = np.round(Y)
        big = np.zeros((2 * m2, 2 * n2))
        big[::2, ::2] = Y
        vs = [('list', x, z, Y.tolist(), None, Y), ('strided', x, z, big[::2, ::2], None, Y), ('fortran', x, z, np.asfortranarray(Y), None, Y),
              ('float32', x, z, Y.astype(np.float32), np.float32, Y), ('int64', x, z, Yi.astype(np.int64), np.int64, Yi),
              ('xz-list', x.tolist(), z.tolist(), Y, None, Y), ('xz-float32', x.astype(np.float32), z.astype(np.float32), Y, None, Y)]
        if not stack:
            vs += [('stack-(M,N,1)', x, z, Y.reshape(m2, n2, 1), None, Y), ('stack-(1,M,N)', x, z, Y.reshape(1, m2, n2), None, Y),
                   ('stack-(M,1,N)', x, z, Y.reshape(m2, 1, n2), None, Y)]
        for label, xa, za, data, dt, yref in vs:
            if stack:
                a = np.asarray(data)
                data = np.array([a, a + 1], dtype=a.dtype)
                if label == 'list':
                    data = data.tolist()
            ctx.count('variant2d:' + label)
            meta = {'method': name, 'two_d': True, 'variant': label}
            try:
                with np.errstate(all='ignore'):
                    if yref is Y:
                        wb, wp = rb, rp
                    else:
                        wb, wp = getattr(Baseline2D(x, z), name)(np.array([yref, yref + 1]) if stack else yref, **kw)
            except Exception as ex:
                ctx.count('reference-raises')       # the float64 call on the same numbers raises too: nothing to compare
                continue
            try:
                with np.errstate(all='ignore'):
                    b, p = getattr(Baseline2D(xa, za), name)(data, **kw)
            except Exception as ex:
                report(f'2d:{name}:{label}:raises', f'2-D {name} with {label} input raised {type(ex).__name__}: {ex} (the reference call returns)', meta)
                continue
            ctx.case(('2d', name, label), nontrivial=True, sample={'method': '2-D ' + name, 'variant': label} if len(ctx.samples) < 5 else None)
            want = np.asarray(wb, dtype=dt if dt is not None else wb.dtype)
            if not eq(b, want, label in LAYOUT):
                if label in LAYOUT and conditioning_excuses(ctx, b, want, lambda: getattr(Baseline2D(x, z), name)(
                        (np.array([yref, yref + 1]) if stack else yref) * (1 + 1e-14 * np.where(np.arange(yref.size).reshape(yref.shape) % 2, 1.0, -1.0)), **kw)[0]):
                    continue
                report(f'2d:{name}:{label}', f'2-D {name}: {label} input gives a different baseline than the reference layout', meta)
            elif label not in LAYOUT:
                pe = params_equal(p, wp)
                if pe:
                    report(f'2d:{name}:{label}:params', f'2-D {name}: {label} input: {pe}', meta)
        with np.errstate(all='ignore'):
            try:
                for nm in (name.upper(), name.capitalize()):
                    b, p = Baseline2D(x, z)._get_method(nm)(d0, **kw)
                    ctx.case(('2d', name, 'lookup', nm), nontrivial=True)
                    if not eq(b, rb):
                        report(f'2d:{name}:lookup', f'2-D {name} looked up as {nm!r} differs', {'method': name, 'two_d': True, 'variant': 'lookup'})
                b0, _ = getattr(Baseline2D(), name)(d0, **kw)
                b1, _ = getattr(Baseline2D(np.linspace(-1, 1, m2), np.linspace(-1, 1, n2)), name)(d0, **kw)
                ctx.case(('2d', name, 'no-xz'), nontrivial=True)
                if not eq(b0, b1):
                    report(f'2d:{name}:no-xz', f'2-D {name}: omitting x and z differs from passing linspace(-1, 1, ·)', {'method': name, 'two_d': True, 'variant': 'no-xz'})
                b2 = getattr(Baseline2D(x, z, output_dtype=np.float32), name)(d0, **kw)[0]
                if not eq(b2, np.asarray(rb, dtype=np.float32), True):
                    report(f'2d:{name}:output_dtype', f'2-D {name}: output_dtype=float32 is not the float64 result cast to float32', {'method': name, 'two_d': True, 'variant': 'output_dtype'})
            except Exception as ex:
                report(f'2d:{name}:misc:raises', f'2-D {name}: lookup/no-xz/output_dtype variant raised {type(ex).__name__}: {ex}', {'method': name, 'two_d': True})
    # ------------------------------------------------------------ model ops (shape canonicalisation, dtype rule)
    lines, exp = [], []
    from pybaselines import _validation as V
    for s in [(7,), (7, 1), (1, 7), (1, 1), (2, 2), (7, 2), (1,), (3, 4, 1), (1, 3, 4), (3, 1, 4), (3, 4), (2, 3, 4)]:
        a = np.ones(s)
        for two in (False, True):
            try:
                r = V._check_array(a, ensure_1d=not two, ensure_2d=two, two_d=two)
                e_ = 'ok:' + ','.join(map(str, r.shape))
            except Exception as ex:
                e_ = type(ex).__name__
            lines.append(f'c16.canon {int(two)} {",".join(map(str, s))}')
            exp.append(e_)
    if lines:
        res = drive(lines)
        ctx.traces += len(lines)
        for ln, r, e_ in zip(lines, res, exp):
            if r != e_ and r != 'bad-op':
                dis.append(Disagreement('c16.model', 'model:canon', f'{ln}: real {e_} vs model {r}', {'line': ln}, False))
    # object-history fuzzer (hist.py): "calling the module-level function with x_data is the same as calling the method on a fitter
    # object" — also when that fitter object has been used before: every call of a history on one Baseline against the function
    from . import hist
    for spec, f in hist.campaign(ctx, ctx.np_rng(), 'fresh', 50 if ctx.thorough else 20, 0, fresh_via='function'):
        dis.append(Disagreement('c16.fuzz', f'fuzz:{spec["steps"][-1]["method"]}',
                                f'history on one Baseline: {hist.describe(spec)[:700]} — call {f[0] + 1} differs from the module-level function with x_data: {f[2]}',
                                {'kind': 'fuzz', 'spec': spec}, True))
    return dis


def search(ctx, hints, lean_failed):
    sub = type(ctx)(ctx.prop, 'thorough', ctx.seed + 1)
    sub.no_corpus = True
    return [d for d in correspond(sub) if d.property_level]


def replay(ctx, data):
    # variants are regenerated from the method/variant label with a fixed seed
    r = data['replay']
    if r.get('kind') == 'fuzz':
        from . import hist
        f = [x for x in hist.run(r['spec'], want=('fresh',), fresh_via='function') if x[1] == 'fresh']
        return f'call {f[0][0] + 1}: {f[0][2]}' if f else None
    sub = type(ctx)(ctx.prop, 'quick', 0)
    sub.no_corpus = True
    sub.only_method = r.get('method')
    for d in correspond(sub):
        if d.property_level and isinstance(d.replay, dict) and d.replay.get('method') == r.get('method') and \
                d.replay.get('variant') == r.get('variant') and d.replay.get('arg') == r.get('arg'):
            return d.detail
    return None
