"""Trajectory replay (C01 / C09): one real run with tol = 0 yields a method's difference stream; the
Lean loop skeleton, fed that stream, predicts len(tol_history), the stop reason and the returned
weights' iteration for every (max_iter, tol); the real method is run on the same grid."""
import json
import os

import numpy as np

from . import methods as M
from .common import ROOT, drive, q, qs

GOLDEN = os.path.join(ROOT, 'golden', 'loop_budget.json')

# methods whose tol_history is one-dimensional and produced by a single loop with (max_iter, tol)
SKIP = {'brpls', 'pspline_brpls', 'goldindec', 'jbcd', 'swima', 'collab_pls', 'optimize_extended_range', 'adaptive_minmax', 'custom_bc',
        'individual_axes', 'cwt_br', 'amormol', 'mormol', 'mpls', 'pspline_mpls'}


def iterative_methods(two_d):
    reg = M.registry(two_d)
    return {n: e for n, e in reg.items() if 'max_iter' in e['params'] and 'tol' in e['params'] and n not in SKIP}


def run_method(two_d, name, e, x, z, y, max_iter, tol, extra=None):
    from pybaselines import Baseline, Baseline2D
    kw = M.filter_kwargs(e, M.call_kwargs(name, two_d))
    kw.update(extra or {})
    kw['max_iter'] = max_iter
    kw['tol'] = tol
    fit = Baseline2D(x, z) if two_d else Baseline(x)
    with np.errstate(all='ignore'):
        return getattr(fit, name)(y, **kw)


class RuleCounter:
    """wraps every rule of pybaselines._weighting and counts the calls that did not signal the early exit"""

    def __init__(self):
        self.calls = 0
        self.completed = 0
        self.exits = 0
        self.saved = []

    def __enter__(self):
        from pybaselines import _weighting as W
        for nm, fn in list(vars(W).items()):
            if nm.startswith('_') and callable(fn) and nm not in ('_safe_std',) and getattr(fn, '__module__', '') == W.__name__:
                self.saved.append((nm, fn))

                def wrapper(*a, __fn=fn, **k):
                    out = __fn(*a, **k)
                    self.calls += 1
                    flag = out[-1] if isinstance(out, tuple) and isinstance(out[-1], (bool, np.bool_)) else False
                    if flag:
                        self.exits += 1
                    else:
                        self.completed += 1
                    return out
                setattr(W, nm, wrapper)
        return self

    def __exit__(self, *exc):
        from pybaselines import _weighting as W
        for nm, fn in self.saved:
            setattr(W, nm, fn)


def count_invariant(two_d, name, e, x, z, y, max_iter, tol, extra=None):
    """len(tol_history) must equal the number of completed reweighting steps (rule calls without early exit);
    returns a description of the mismatch or None (hosts that do not use the rules return None)"""
    with RuleCounter() as rc:
        try:
            b, p = run_method(two_d, name, e, x, z, y, max_iter, tol, extra)
        except Exception:
            return None
    th = np.asarray(p.get('tol_history', []))
    if th.ndim != 1 or rc.calls == 0:
        return None
    # some hosts compute initial weights with a rule before the loop (iasls): allow that single extra completed call
    if len(th) == rc.completed or (name in ('iasls', 'pspline_iasls') and len(th) == rc.completed - 1):
        return None
    return (f'tol_history has {len(th)} entries but {rc.completed} reweighting steps were completed '
            f'({rc.calls} rule calls, {rc.exits} early exit{"s" if rc.exits != 1 else ""})')


def load_golden_file():
    if os.path.exists(GOLDEN):
        return json.load(open(GOLDEN))
    return {}


def load_golden():
    """per-method budget code.  The codes are read off the loop headers in the source by the translator (`Gen/Loops`, theorem
    `loops_budget_code`); golden/loop_budget.json, the hand-derived table used before, is kept and cross-checked against the
    translated table on every run (looptbl.table_check), and only fills in methods the translator has no row for"""
    g = load_golden_file()
    try:
        from . import looptbl
        g.update({k: v for k, v in looptbl.budget_codes().items() if v in ('N+1', 'N', 'N-1')})
    except Exception:       # noqa: BLE001 - an unreadable source is reported by the translator itself
        pass
    return g


def budget_of(code, max_iter):
    return max_iter + {'N+1': 1, 'N': 0, 'N-1': -1}[code]


def replay_method(ctx, two_d, name, e, x, z, y, K=8, extra=None, count=False):
    """returns list of (kind, detail, meta) problems; kind in {'budget', 'stop', 'prefix', 'len'}"""
    golden = load_golden()
    key = ('2d.' if two_d else '') + name
    probs = []
    try:
        b, p = run_method(two_d, name, e, x, z, y, K, 0, extra)
    except Exception as ex:
        return [('raises', f'{key}(max_iter={K}, tol=0) raised {type(ex).__name__}: {ex}', {})]
    th = np.asarray(p.get('tol_history', []), dtype=float)
    if th.ndim != 1:
        return []
    ci = count_invariant(two_d, name, e, x, z, y, K, 0, extra) if count else None
    if ci:
        probs.append(('count', f'{key}(max_iter={K}, tol=0): {ci}', {'max_iter': K, 'tol': 0}))
    code = golden.get(key)
    if code is None:
        return [('golden', f'{key}: no golden budget entry', {})]
    B = budget_of(code, K)
    stream = th.tolist()
    early = None
    if len(stream) > B:
        probs.append(('len', f'{key}: tol_history has {len(stream)} entries for max_iter={K} (budget {B})', {'max_iter': K, 'tol': 0}))
        return probs
    if len(stream) < B:
        # with tol = 0 the loop can only stop before the budget through the documented early exit (or a difference of exactly 0)
        if len(stream) and stream[-1] < 0:
            pass
        early = len(stream)
    if any(not np.isfinite(v) for v in stream):
        return probs       # nan/inf differences cannot travel as rationals; the length rules above were still checked
    # grid of (max_iter, tol)
    tols = sorted({0.0, float(np.median(stream)) if stream else 1e-3, (min(stream) * 0.5) if stream else 1e-3,
                   (max(stream) * 2) if stream else 1.0, 1e-3, float('inf')})
    lines, cases = [], []
    for m in sorted({0, 1, 2, K // 2, K}):
        Bm = budget_of(code, m)
        if Bm < 0:
            continue
        for tol in tols:
            tq = q(tol) if np.isfinite(tol) else '1' + '0' * 400
            lines.append(f'c01.loop {Bm} {tq} {qs(stream) if stream else "-"} {"N" if early is None else early}')
            cases.append((m, tol))
    preds = drive(lines)
    ctx.traces += len(lines)
    for (m, tol), pr in zip(cases, preds):
        plen, reason, ridx = pr.split(' ')
        plen = int(plen)
        try:
            b2, p2 = run_method(two_d, name, e, x, z, y, m, tol, extra)
        except Exception as ex:
            if budget_of(code, m) <= 0:
                continue          # an empty budget raises an ordinary exception in the range(max_iter) skeletons
            probs.append(('raises', f'{key}(max_iter={m}, tol={tol}) raised {type(ex).__name__}: {ex}', {'max_iter': m, 'tol': tol}))
            continue
        th2 = np.asarray(p2.get('tol_history', []), dtype=float)
        ctx.count('replay:' + reason)
        meta = {'max_iter': m, 'tol': tol, 'predicted_len': plen, 'reason': reason, 'real_len': int(len(th2))}
        if len(th2) != plen:
            probs.append(('stop', f'{key}(max_iter={m}, tol={tol:g}): tol_history has {len(th2)} entries, the stop rule on the method\'s own '
                          f'difference stream gives {plen} ({reason})', meta))
        elif not np.array_equal(th2, np.asarray(stream[:plen])):
            probs.append(('prefix', f'{key}(max_iter={m}, tol={tol:g}): tol_history is not a prefix of the longer run\'s history', meta))
    return probs
