"""Route A for the iteration loops (C01 / C09): every function of the algorithm modules that assigns `tol_history` is
read by AST and reduced to a small fixed fragment

    tol_history = np.empty(<affine in max_iter>)            | np.empty((<affine>, <const>))  | np.zeros(...)
    for i in range([<const>,] <affine in max_iter>):
        ...                                                  opaque numeric work (no break/continue/return, no use of
        if <flag>: [i -= <const>]; ...; break                tol_history, no assignment of i or tol)
        tol_history[i + <const>] = x                         x a name or a tuple of names
        if x < tol [or <e> | and <e>]: ...; break
        ...
    ... {'tol_history': tol_history[:i + <const>]}           the slice handed back in params

(and the two-level variant of brpls / goldindec, see `_nested`).  One table row per function goes to
`lean/PbVerif/Gen/Loops.lean`; the generic interpreter `PbVerif.LoopTbl` gives a row its meaning, and the theorems
of Props/C01 / Props/C09 are re-checked against the regenerated table on every run.  A function outside the
fragment is NOT guessed at: it becomes a marker (`loopFailed`) and the run reports it."""
import ast
import os

from . import common

FILES = ['whittaker', 'spline', 'polynomial', 'morphological', 'smooth', 'classification', 'misc', 'optimizers',
         'two_d/whittaker', 'two_d/spline', 'two_d/polynomial', 'two_d/morphological', 'two_d/smooth', 'two_d/optimizers']
TH = 'tol_history'


class Unsupported(Exception):
    pass


# ----------------------------------------------------------------------------- small AST helpers
def _walk_no_defs(node):
    """ast.walk that does not descend into nested function / class definitions or lambdas"""
    todo = [node]
    while todo:
        n = todo.pop()
        yield n
        for c in ast.iter_child_nodes(n):
            if isinstance(c, (ast.FunctionDef, ast.AsyncFunctionDef, ast.ClassDef, ast.Lambda)):
                continue
            todo.append(c)


def _mentions(node, name):
    return any(isinstance(n, ast.Name) and n.id == name for n in _walk_no_defs(node))


def _stores(node, name):
    return any(isinstance(n, ast.Name) and n.id == name and isinstance(n.ctx, (ast.Store, ast.Del)) for n in _walk_no_defs(node))


def _has_jump(node):
    return any(isinstance(n, (ast.Break, ast.Continue, ast.Return, ast.Yield, ast.YieldFrom)) for n in _walk_no_defs(node))


def _affine(node, var):
    """node == coef * var + const  with integer coef, const; returns (coef, const)"""
    if isinstance(node, ast.Constant) and isinstance(node.value, int) and not isinstance(node.value, bool):
        return 0, node.value
    if isinstance(node, ast.Name) and node.id == var:
        return 1, 0
    if isinstance(node, ast.UnaryOp) and isinstance(node.op, ast.USub):
        a, b = _affine(node.operand, var)
        return -a, -b
    if isinstance(node, ast.BinOp) and isinstance(node.op, (ast.Add, ast.Sub)):
        a1, b1 = _affine(node.left, var)
        a2, b2 = _affine(node.right, var)
        return (a1 + a2, b1 + b2) if isinstance(node.op, ast.Add) else (a1 - a2, b1 - b2)
    if isinstance(node, ast.BinOp) and isinstance(node.op, ast.Mult):
        a1, b1 = _affine(node.left, var)
        a2, b2 = _affine(node.right, var)
        if a1 == 0:
            return b1 * a2, b1 * b2
        if a2 == 0:
            return a1 * b2, b1 * b2
    raise Unsupported(f'not affine in {var}: {ast.unparse(node)}')


def _aff_nat(node, var):
    a, b = _affine(node, var)
    if a < 0:
        raise Unsupported(f'negative coefficient of {var}: {ast.unparse(node)}')
    return a, b


def _is_th_write(st):
    return (isinstance(st, ast.Assign) and len(st.targets) == 1 and isinstance(st.targets[0], ast.Subscript)
            and isinstance(st.targets[0].value, ast.Name) and st.targets[0].value.id == TH)


def _names_of_value(v):
    if isinstance(v, ast.Name):
        return [v.id]
    if isinstance(v, ast.Tuple) and v.elts and all(isinstance(e, ast.Name) for e in v.elts):
        return [e.id for e in v.elts]
    raise Unsupported(f'recorded value is not a name or a tuple of names: {ast.unparse(v)}')


def _tol_compare(t, written, tols):
    """`x < tol…` with x one of the names just recorded and tol… a tolerance parameter: returns (column of x, tol name)"""
    if (isinstance(t, ast.Compare) and len(t.ops) == 1 and isinstance(t.ops[0], ast.Lt) and isinstance(t.left, ast.Name)
            and isinstance(t.comparators[0], ast.Name) and written and t.left.id in written and t.comparators[0].id in tols):
        return written.index(t.left.id), t.comparators[0].id
    return None


def _classify(test, written, tols, main_tol):
    """the break tests of the fragment: flag | x < tol | x < tol or e | x < tol and e"""
    if isinstance(test, ast.Name):
        return 'flag'
    c = _tol_compare(test, written, tols)
    if c is not None:
        if c != (0, main_tol):
            raise Unsupported(f'break test on a secondary value: {ast.unparse(test)}')
        return 'tol'
    if isinstance(test, ast.BoolOp) and len(test.values) >= 2:
        c = _tol_compare(test.values[0], written, tols)
        if c == (0, main_tol) and not any(isinstance(n, ast.NamedExpr) for v in test.values for n in ast.walk(v)):
            return 'tolOr' if isinstance(test.op, ast.Or) else 'tolAnd'
    raise Unsupported(f'break test outside the fragment: {ast.unparse(test)}')


def _scan_body(body, var, tols, main_tol, write_index, forbid=()):
    """events of one loop body.  `write_index(target_subscript) -> payload` parses the index of a tol_history write.
    returns a list of ('write', payload) | ('brk', kind, dec) | ('inner', for_node) | ('other', stmt)"""
    events = []
    written = None
    for st in body:
        if _is_th_write(st):
            names = _names_of_value(st.value)
            events.append(('write', write_index(st.targets[0]), names))
            written = names
            continue
        if isinstance(st, ast.If) and any(isinstance(s, ast.Break) for s in st.body):
            if st.orelse or not isinstance(st.body[-1], ast.Break):
                raise Unsupported('break that is not the last statement of a plain `if`')
            dec = 0
            for s in st.body[:-1]:
                if (isinstance(s, ast.AugAssign) and isinstance(s.target, ast.Name) and s.target.id == var
                        and isinstance(s.op, ast.Sub) and isinstance(s.value, ast.Constant) and isinstance(s.value.value, int)
                        and s.value.value >= 0):
                    dec += s.value.value
                elif _has_jump(s) or _mentions(s, TH) or _stores(s, var) or any(_stores(s, f) for f in forbid):
                    raise Unsupported(f'statement before break: {ast.unparse(s)[:60]}')
            if _mentions(st.test, TH):
                raise Unsupported('break test reads tol_history')
            events.append(('brk', _classify(st.test, written, tols, main_tol), dec))
            continue
        if isinstance(st, ast.For) and _mentions(st, TH):
            events.append(('inner', st))
            written = None
            continue
        # opaque numeric work
        if _has_jump(st) or _mentions(st, TH) or _stores(st, var) or any(_stores(st, f) for f in forbid):
            raise Unsupported(f'statement outside the fragment in the loop body: {ast.unparse(st)[:70]}')
        if written and any(_stores(st, w) for w in written):
            written = None
        events.append(('other', st))
    return events


def _range(node, bound_var):
    """for <v> in range([lo,] hi): returns (v, lo const, hi affine in bound_var)"""
    if not (isinstance(node.target, ast.Name) and isinstance(node.iter, ast.Call) and isinstance(node.iter.func, ast.Name)
            and node.iter.func.id == 'range' and not node.iter.keywords and len(node.iter.args) in (1, 2) and not node.orelse):
        raise Unsupported(f'loop header: for {ast.unparse(node.target)} in {ast.unparse(node.iter)}')
    args = node.iter.args
    lo = (0, 0) if len(args) == 1 else _affine(args[0], bound_var)
    if lo[0] != 0:
        raise Unsupported(f'lower bound of the range is not a constant: {ast.unparse(args[0])}')
    return node.target.id, lo[1], _aff_nat(args[-1], bound_var)


def _block_of(fn, stmt):
    """the statement list holding `stmt` and the guard `max_iter >= g` implied by the enclosing ifs"""
    def rec(stmts, guard):
        for s in stmts:
            if s is stmt:
                return stmts, guard
            if isinstance(s, ast.If):
                t = s.test
                if (isinstance(t, ast.Compare) and len(t.ops) == 1 and isinstance(t.left, ast.Name) and t.left.id == 'max_iter'
                        and isinstance(t.comparators[0], ast.Constant) and isinstance(t.comparators[0].value, int)
                        and isinstance(t.ops[0], (ast.Gt, ast.GtE))):
                    g = t.comparators[0].value + (1 if isinstance(t.ops[0], ast.Gt) else 0)
                    r = rec(s.body, max(guard, g))
                    if r:
                        return r
                    if any(n is stmt for n in ast.walk(s)):
                        raise Unsupported('allocation in the else branch of a guard')
                elif any(n is stmt for n in ast.walk(s)):
                    raise Unsupported(f'allocation under a condition outside the fragment: {ast.unparse(t)[:60]}')
            elif any(n is stmt for n in ast.walk(s)):
                raise Unsupported(f'allocation inside a {type(s).__name__}')
        return None
    r = rec(fn.body, 0)
    if r is None:
        raise Unsupported('allocation not found in a plain block')
    return r


def _alloc(fn):
    allocs = [n for n in _walk_no_defs(fn) if isinstance(n, ast.Assign) and any(isinstance(t, ast.Name) and t.id == TH for t in n.targets)]
    if len(allocs) != 1 or len(allocs[0].targets) != 1:
        raise Unsupported(f'{len(allocs)} assignments of tol_history')
    st = allocs[0]
    v = st.value
    if not (isinstance(v, ast.Call) and isinstance(v.func, ast.Attribute) and isinstance(v.func.value, ast.Name) and v.func.value.id == 'np'
            and v.func.attr in ('empty', 'zeros') and len(v.args) == 1 and not v.keywords):
        raise Unsupported(f'allocation: {ast.unparse(v)[:60]}')
    return st, v.func.attr == 'zeros', v.args[0]


def _slice_use(stmts, var):
    """the single later use `{'tol_history': tol_history[<slice>]}` / `params['tol_history'] = tol_history[<slice>]`"""
    found = []
    for st in stmts:
        for n in _walk_no_defs(st):
            if isinstance(n, ast.Dict):
                for k, v in zip(n.keys, n.values):
                    if isinstance(k, ast.Constant) and k.value == TH:
                        found.append(v)
            if (isinstance(n, ast.Assign) and len(n.targets) == 1 and isinstance(n.targets[0], ast.Subscript)
                    and isinstance(n.targets[0].slice, ast.Constant) and n.targets[0].slice.value == TH):
                found.append(n.value)
    if len(found) != 1:
        raise Unsupported(f'{len(found)} places hand tol_history back')
    v = found[0]
    if not (isinstance(v, ast.Subscript) and isinstance(v.value, ast.Name) and v.value.id == TH):
        raise Unsupported(f'returned record is not a slice of tol_history: {ast.unparse(v)[:60]}')
    return v.slice


def _upper(sl, var):
    if not (isinstance(sl, ast.Slice) and sl.lower is None and sl.step is None and sl.upper is not None):
        raise Unsupported(f'slice: {ast.unparse(sl)}')
    return sl.upper


def _count(fn, name, store=None):
    return sum(1 for n in _walk_no_defs(fn) if isinstance(n, ast.Name) and n.id == name
               and (store is None or isinstance(n.ctx, (ast.Store, ast.Del)) == store))


# ----------------------------------------------------------------------------- one function
def translate_function(fn):
    """returns ('single', {...}) or ('nested', {...}); raises Unsupported"""
    params = [a.arg for a in fn.args.posonlyargs + fn.args.args + fn.args.kwonlyargs]
    tols = [p for p in params if p == 'tol' or p.startswith('tol_')]
    if 'max_iter' not in params or 'tol' not in tols:
        raise Unsupported('no max_iter / tol parameter')
    alloc_st, zeroed, shape = _alloc(fn)
    block, guard = _block_of(fn, alloc_st)
    pos = next(i for i, s in enumerate(block) if s is alloc_st)
    loops = [(i, s) for i, s in enumerate(block) if i > pos and isinstance(s, ast.For) and _mentions(s, TH)]
    if len(loops) != 1:
        raise Unsupported(f'{len(loops)} loops use tol_history after its allocation')
    lpos, loop = loops[0]
    for s in block[pos + 1:lpos]:
        if _mentions(s, TH):
            raise Unsupported('tol_history used between allocation and loop')
    after = block[lpos + 1:]
    # everything after the loop in enclosing blocks is searched too (the record may be handed back outside a guard)
    rest = list(after)
    if block is not fn.body:
        seen = False
        for s in fn.body:
            if seen:
                rest.append(s)
            elif any(n is alloc_st for n in ast.walk(s)):
                seen = True
    sl = _slice_use(rest, None)
    if block is not fn.body:
        # the use must be inside the guarded block (otherwise the name may be unbound / stale): checked by requiring it in `after`
        _slice_use(after, None)
    nested = any(isinstance(s, ast.For) and _mentions(s, TH) for s in loop.body)
    if nested:
        return 'nested', _nested(fn, params, tols, alloc_st, zeroed, shape, guard, loop, sl)
    var, lo, hi = _range(loop, 'max_iter')
    # shape: E | (E, c)
    if isinstance(shape, ast.Tuple):
        if not (len(shape.elts) == 2 and isinstance(shape.elts[1], ast.Constant) and isinstance(shape.elts[1].value, int)
                and shape.elts[1].value >= 1):
            raise Unsupported(f'shape: {ast.unparse(shape)}')
        cols = shape.elts[1].value
        alloc = _aff_nat(shape.elts[0], 'max_iter')
    else:
        cols = 1
        alloc = _aff_nat(shape, 'max_iter')

    def widx(t):
        a, b = _affine(t.slice, var)
        if a != 1:
            raise Unsupported(f'write index: {ast.unparse(t.slice)}')
        return b
    evs = _scan_body(loop.body, var, tols, 'tol', widx, forbid=tols)
    body = []
    for e in evs:
        if e[0] == 'write':
            if len(e[2]) != cols:
                raise Unsupported(f'{len(e[2])} values recorded into {cols} column(s)')
            body.append(('write', e[1]))
        elif e[0] == 'brk':
            body.append(('brk', e[1], e[2]))
    a, b = _affine(_upper(sl, var), var)
    if a != 1:
        raise Unsupported(f'slice bound: {ast.unparse(sl)}')
    # every other mention of the loop variable's binding and of tol_history must be accounted for
    n_writes = sum(1 for e in body if e[0] == 'write')
    if _count(fn, TH) != 2 + n_writes:
        raise Unsupported('tol_history is used outside allocation / loop writes / final slice')
    n_dec = sum(1 for s in loop.body if isinstance(s, ast.If) for t in s.body
                if isinstance(t, ast.AugAssign) and isinstance(t.target, ast.Name) and t.target.id == var)
    if _count(fn, var, store=True) != 1 + n_dec:
        raise Unsupported(f'the loop variable {var} is also bound elsewhere in the function')
    if any(_stores(s, var) for s in after):
        raise Unsupported('loop variable changed after the loop')
    return 'single', dict(alloc=alloc, cols=cols, zeroed=zeroed, guard=guard, lo=lo, hi=hi, body=body, slice=b,
                          line=alloc_st.lineno, var=var)


def _max_of(node):
    """max(max_iter, max_iter_2) + c  ->  c"""
    c = 0
    if isinstance(node, ast.BinOp) and isinstance(node.op, (ast.Add, ast.Sub)) and isinstance(node.right, ast.Constant):
        c = node.right.value if isinstance(node.op, ast.Add) else -node.right.value
        node = node.left
    if not (isinstance(node, ast.Call) and isinstance(node.func, ast.Name) and node.func.id == 'max' and len(node.args) == 2
            and all(isinstance(a, ast.Name) for a in node.args)):
        raise Unsupported(f'not max(a, b) + c: {ast.unparse(node)}')
    return sorted(a.id for a in node.args), c


def _nested(fn, params, tols, alloc_st, zeroed, shape, guard, loop, sl):
    """two-level loops of brpls / goldindec:

        tol_history = np.zeros((max_iter_2 + R, max(max_iter, max_iter_2) + C))
        for i in range(max_iter_2 + A):
            ...
            for j in range(max_iter + B):
                <single-loop fragment over j writing tol_history[i + r, j + c]>
            j_max = max(j, j_max)
            ... tol_history[<const row>, i + c] = x ... if <test>: break ...      (tests of the outer level are opaque)
        ... tol_history[:i + S, :max(i, j_max) + T]
    """
    if 'max_iter_2' not in params:
        raise Unsupported('nested loop without max_iter_2')
    if guard:
        raise Unsupported('guarded nested loop')
    if not (isinstance(shape, ast.Tuple) and len(shape.elts) == 2):
        raise Unsupported(f'shape: {ast.unparse(shape)}')
    rows = _aff_nat(shape.elts[0], 'max_iter_2')
    if rows[0] != 1:
        raise Unsupported('row count is not max_iter_2 + c')
    mx, colc = _max_of(shape.elts[1])
    if mx != ['max_iter', 'max_iter_2']:
        raise Unsupported('column count is not max(max_iter, max_iter_2) + c')
    ivar, ilo, ihi = _range(loop, 'max_iter_2')
    if ilo != 0 or ihi[0] != 1:
        raise Unsupported('outer range')

    def outer_idx(t):
        s = t.slice
        if not (isinstance(s, ast.Tuple) and len(s.elts) == 2):
            raise Unsupported(f'write index: {ast.unparse(s)}')
        r = _affine(s.elts[0], ivar)
        c = _affine(s.elts[1], ivar)
        if r[0] != 0 or c[0] != 1:
            raise Unsupported(f'outer write index: {ast.unparse(s)}')
        return r[1], c[1]
    # outer body: tests of the outer level are treated as opaque flags (any `if …: break` / if-elif-else ending in break)
    outer = []
    inner = None
    jmax_seen = False
    for st in loop.body:
        if isinstance(st, ast.For) and _mentions(st, TH):
            if inner is not None:
                raise Unsupported('two inner loops')
            inner = st
            outer.append(('inner',))
            continue
        if _is_th_write(st):
            _names_of_value(st.value)
            outer.append(('write',) + outer_idx(st.targets[0]))
            continue
        if (isinstance(st, ast.Assign) and len(st.targets) == 1 and isinstance(st.targets[0], ast.Name) and st.targets[0].id == 'j_max'):
            if inner is None or jmax_seen:
                raise Unsupported('j_max updated before the inner loop / twice')
            jv = inner.target.id if isinstance(inner.target, ast.Name) else None
            mx2, c2 = _max_of(st.value)
            if mx2 != sorted([jv, 'j_max']) or c2 != 0:
                raise Unsupported(f'j_max update: {ast.unparse(st)}')
            jmax_seen = True
            outer.append(('jmax',))
            continue
        if isinstance(st, ast.If) and _has_jump(st):
            # if …: break   |   if …: … elif …: … else: break     -> one opaque outer break test; no tol_history / i / j_max inside
            if _mentions(st, TH) or _stores(st, ivar) or _stores(st, 'j_max') or any(isinstance(n, (ast.Continue, ast.Return)) for n in ast.walk(st)):
                raise Unsupported('outer break statement outside the fragment')
            outer.append(('brk',))
            continue
        if _has_jump(st) or _mentions(st, TH) or _stores(st, ivar) or _stores(st, 'j_max'):
            raise Unsupported(f'statement outside the fragment in the outer body: {ast.unparse(st)[:70]}')
    if inner is None or not jmax_seen:
        raise Unsupported('no inner loop / no j_max update')
    jvar, jlo, jhi = _range(inner, 'max_iter')
    if jlo != 0 or jhi[0] != 1:
        raise Unsupported('inner range')

    def inner_idx(t):
        s = t.slice
        if not (isinstance(s, ast.Tuple) and len(s.elts) == 2):
            raise Unsupported(f'write index: {ast.unparse(s)}')
        r = _affine(s.elts[0], ivar)
        c = _affine(s.elts[1], jvar)
        if r[0] != 1 or c[0] != 1:
            raise Unsupported(f'inner write index: {ast.unparse(s)}')
        return r[1], c[1]
    ievs = _scan_body(inner.body, jvar, tols, 'tol', inner_idx, forbid=('tol', ivar, 'j_max'))
    ibody = []
    for e in ievs:
        if e[0] == 'write':
            ibody.append(('write', e[1][0], e[1][1]))
        elif e[0] == 'brk':
            ibody.append(('brk', e[1], e[2]))
        elif e[0] == 'inner':
            raise Unsupported('three-level loop')
    # j_max initialised to a constant before the loop
    inits = [n for n in _walk_no_defs(fn) if isinstance(n, ast.Assign) and len(n.targets) == 1 and isinstance(n.targets[0], ast.Name)
             and n.targets[0].id == 'j_max' and isinstance(n.value, ast.Constant)]
    if len(inits) != 1 or not isinstance(inits[0].value.value, int) or inits[0].lineno > loop.lineno:
        raise Unsupported('j_max initialisation')
    jmax0 = inits[0].value.value
    if _count(fn, 'j_max', store=True) != 2:
        raise Unsupported('j_max bound elsewhere')
    # slice [:i + S, :max(i, j_max) + T]
    if not (isinstance(sl, ast.Tuple) and len(sl.elts) == 2):
        raise Unsupported(f'slice: {ast.unparse(sl)}')
    ra = _affine(_upper(sl.elts[0], ivar), ivar)
    if ra[0] != 1:
        raise Unsupported('row slice')
    mx3, tc = _max_of(_upper(sl.elts[1], ivar))
    if mx3 != sorted([ivar, 'j_max']):
        raise Unsupported('column slice')
    n_writes = sum(1 for e in ibody if e[0] == 'write') + sum(1 for e in outer if e[0] == 'write')
    if _count(fn, TH) != 2 + n_writes:
        raise Unsupported('tol_history is used outside allocation / loop writes / final slice')
    if _count(fn, ivar, store=True) != 1:
        raise Unsupported(f'the loop variable {ivar} is also bound elsewhere')
    n_dec = sum(1 for s in inner.body if isinstance(s, ast.If) for t in s.body
                if isinstance(t, ast.AugAssign) and isinstance(t.target, ast.Name) and t.target.id == jvar)
    if _count(fn, jvar, store=True) != 1 + n_dec:
        raise Unsupported(f'the loop variable {jvar} is also bound elsewhere')
    return dict(zeroed=zeroed, rows=rows[1], colc=colc, ohi=ihi[1], ihi=jhi[1], ibody=ibody, outer=outer, jmax0=jmax0,
                srow=ra[1], scol=tc, line=alloc_st.lineno)


# ----------------------------------------------------------------------------- whole package
def scan():
    """[(key, func, kind, row | error)] for every function assigning tol_history"""
    out = []
    for rel in FILES:
        path = os.path.join(common.REPO, 'pybaselines', rel + '.py')
        try:
            tree = ast.parse(open(path).read())
        except Exception as e:
            out.append((rel, rel + '.py', 'failed', f'cannot parse ({e})'))
            continue
        two_d = rel.startswith('two_d')
        fns = []
        for n in tree.body:
            if isinstance(n, ast.FunctionDef):
                fns.append((None, n))
            elif isinstance(n, ast.ClassDef):
                fns += [(n.name, m) for m in n.body if isinstance(m, ast.FunctionDef)]
        registered = {m.name: m for c, m in fns if c and any('_register' in ast.unparse(d) for d in m.decorator_list)}
        for cls, fn in fns:
            if not any(isinstance(n, ast.Assign) and any(isinstance(t, ast.Name) and t.id == TH for t in n.targets) for n in _walk_no_defs(fn)):
                continue
            # the public method the loop belongs to: the registered method itself, or the registered method(s) calling a helper
            if cls and fn.name in registered:
                keys = [fn.name]
            else:
                keys = sorted(m for m, node in registered.items()
                              if any(isinstance(c, ast.Call) and isinstance(c.func, ast.Name) and c.func.id == fn.name for c in ast.walk(node)))
            key = ('2d.' if two_d else '') + ('+'.join(keys) if keys else fn.name)
            func = f'{rel}.py:{fn.name}'
            try:
                kind, row = translate_function(fn)
                row['file'] = rel + '.py'
                row['name'] = fn.name
                out.append((key, func, kind, row))
            except Unsupported as e:
                out.append((key, func, 'failed', str(e)))
    return out


def budget_code(row):
    """'N+1' / 'N' / 'N-1' … : how many iterations max_iter allows, read off the loop header"""
    if row['hi'][0] != 1:
        return None
    c = row['hi'][1] - row['lo']
    return 'N' if c == 0 else f'N{c:+d}'


_CACHE = {}


def table():
    """cached scan (the harness reads the same rows the Lean table was generated from)"""
    if 'rows' not in _CACHE:
        _CACHE['rows'] = scan()
    return _CACHE['rows']


def _i(v):
    return f'({v})' if v < 0 else str(v)


def _ev(e):
    if e[0] == 'write':
        return f'.write {_i(e[1])}'
    return f'.brk .{e[1]} {e[2]}'


def _nev(e):
    if e[0] == 'write':
        return f'.write {_i(e[1])} {_i(e[2])}'
    return f'.brk .{e[1]} {e[2]}'


def _oev(e):
    return {'inner': '.inner', 'jmax': '.jmax', 'brk': '.brk'}.get(e[0]) or f'.write {_i(e[1])} {_i(e[2])}'


def gen_loops():
    _CACHE.clear()
    rows = table()
    fails = [f'Loops:{func} ({key}): outside the translated fragment ({r})' for key, func, kind, r in rows if kind == 'failed']
    if not rows:
        fails.append('Loops: no function assigning tol_history was found')
    b = (lambda v: 'true' if v else 'false')
    lines = ['import PbVerif.Model.LoopTbl',
             '/-! GENERATED on every run by harness/pbv/translate_loops.py from the iteration loops of pybaselines — do not edit. -/',
             'namespace PbVerif.Gen', 'open PbVerif.LoopTbl', '',
             '/-- one row per function with a single `for i in range(…)` loop recording into `tol_history` -/',
             'def loopTable : List Row := [']
    lines.append(',\n'.join(
        f'  {{ key := "{key}", func := "{func}", alloc := ⟨{r["alloc"][0]}, {_i(r["alloc"][1])}⟩, cols := {r["cols"]}, zeroed := {b(r["zeroed"])}, '
        f'guard := {r["guard"]}, lo := {_i(r["lo"])}, hi := ⟨{r["hi"][0]}, {_i(r["hi"][1])}⟩, body := [{", ".join(_ev(e) for e in r["body"])}], '
        f'sliceOff := {_i(r["slice"])} }}' for key, func, kind, r in rows if kind == 'single'))
    lines += [']', '', '/-- one row per function with the two-level loop of brpls / goldindec -/', 'def nestTable : List NestRow := [']
    lines.append(',\n'.join(
        f'  {{ key := "{key}", func := "{func}", zeroed := {b(r["zeroed"])}, rows := {_i(r["rows"])}, colc := {_i(r["colc"])}, ohi := {_i(r["ohi"])}, '
        f'ihi := {_i(r["ihi"])}, ibody := [{", ".join(_nev(e) for e in r["ibody"])}], outer := [{", ".join(_oev(e) for e in r["outer"])}], '
        f'jmax0 := {_i(r["jmax0"])}, srow := {_i(r["srow"])}, scol := {_i(r["scol"])} }}' for key, func, kind, r in rows if kind == 'nested'))
    lines += [']', '', '/-- functions assigning `tol_history` that are outside the translated fragment (translationFailed markers) -/',
              'def loopFailed : List String := [' + ', '.join(f'"{func}"' for key, func, kind, r in rows if kind == 'failed') + ']', '',
              f'def loopsTranslated : Bool := {b(bool(rows) and not fails)}', '', 'end PbVerif.Gen', '']
    from .translate import _write
    _write('Loops.lean', '\n'.join(lines))
    return fails, rows


if __name__ == '__main__':
    for key, func, kind, r in scan():
        print(kind, key, func, r if kind == 'failed' else {k: v for k, v in r.items() if k not in ('file', 'name')})
