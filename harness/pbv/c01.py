"""C01 — every baseline call returns a well-formed (baseline, params) pair or raises."""
import glob
import json
import os

import numpy as np

from . import cmp
from . import methods as M
from . import traj
from . import looptbl
from .common import Disagreement, drive, ROOT

PROP_MODULE = 'PbVerif.Props.C01'
GEN_TABLES = ('Registry', 'Loops')
RULE = ('cases = (method, dimension, data kind in {noise+peaks, large offset, tiny scale, negative, integer-valued, float32, int64, '
        'row/column/stack shapes, unsorted x}, size, output_dtype, parameter variation); each returning call is checked for baseline '
        'shape, dtype, order (against the sorted run), per-point parameter shapes, tol_history length/stop rule (trajectory replay '
        'through the Lean loop skeleton) and finiteness; loop table (Gen/Loops, read from the source by AST): every translated row is run by the '
        'Lean interpreter on the real difference stream of its method for a (max_iter, tol) grid incl. 0 and 1 and compared with the real call '
        'observed by LoopSpy (allocation, set of written indices, returned slice, never-written entries), two-level rows on their own records; '
        'non-trivial = the call returned; distinct by canonical tuple')
ASSUMPTIONS = [
    'that each numerical core preserves the length of its input and returns finite numbers on finite noisy data is decided on the explored inputs only (partial)',
    'golden/loop_budget.json records, per method, how many iterations max_iter allows (derived once from the unchanged tree); since the loop table is translated from the source it is only cross-checked (theorem loops_budget_code)',
    'translate_loops.py reads the loop fragment (allocation, range, writes, break tests, final slice) from the AST; everything else in a loop body is opaque numeric work, checked not to touch tol_history, the loop variable or tol; LoopSpy observes the real allocation / written set / returned slice on every replayed call',
]


def kinds_1d(rng, n):
    x, y = M.make_data(rng, n)
    yi = np.round(y * 4)
    out = [
        ('noisy', x, y, None),
        ('offset', x, y + 1e6, None),
        ('tiny', x, y * 1e-6, None),
        ('negative', x, -y, None),
        ('integer', x, yi, None),
        ('float32', x, y.astype(np.float32), None),
        ('int64', x, yi.astype(np.int64), None),
        ('column', x, y.reshape(-1, 1), None),
        ('row', x, y.reshape(1, -1), None),
        ('out-float32', x, y, np.float32),
        # noise-free data reach degenerate branches (empty / full masks, zero residuals); only the shape clauses apply to them
        ('smooth', x, 2 + 0.03 * x + 0.01 * np.cos(np.arange(n)), None),
        ('constant', x, np.full(n, 3.0), None),
    ]
    p = np.roll(np.arange(n), n // 3)
    out.append(('unsorted', x[p], y[p], None))
    return out


def kinds_2d(rng, m, n):
    x, z, Y = M.make_data2d(rng, m, n)
    Yi = np.round(Y * 4)
    px, pz = np.roll(np.arange(m), 2), np.roll(np.arange(n), 3)
    return [
        ('noisy', x, z, Y, None), ('offset', x, z, Y + 1e6, None), ('negative', x, z, -Y, None), ('integer', x, z, Yi, None),
        ('float32', x, z, Y.astype(np.float32), None), ('int64', x, z, Yi.astype(np.int64), None),
        ('stack', x, z, Y.reshape(m, n, 1), None), ('out-float32', x, z, Y, np.float32),
        ('unsorted', x[px], z[pz], Y[px][:, pz], None),
        ('smooth', x, z, 2 + 0.03 * x[:, None] + 0.01 * z[None, :] + 0.01 * np.cos(np.arange(m * n)).reshape(m, n), None),
    ]


FITTER_MODES = ['x', 'nox', 'second', 'nox-second', 'only-x', 'only-z']


def make_fitter(two_d, x, z, odt, fmode):
    from pybaselines import Baseline, Baseline2D
    if not two_d:
        return Baseline(None if fmode.startswith(('nox', 'only')) else x, output_dtype=odt)
    if fmode.startswith('nox'):
        return Baseline2D(None, None, output_dtype=odt)
    if fmode == 'only-x':
        return Baseline2D(x, None, output_dtype=odt)
    if fmode == 'only-z':
        return Baseline2D(None, z, output_dtype=odt)
    return Baseline2D(x, z, output_dtype=odt)


def well_formed(name, two_d, data, b, p, out_dtype, max_iter, tol, budget_code, exits=None):
    """list of defects of a returned pair"""
    probs = []
    d = np.asarray(data)
    if two_d:
        canon = tuple(s for s in d.shape if s != 1) if d.ndim == 3 else d.shape
    else:
        canon = (d.size,) if d.ndim == 2 else d.shape
    stack = name == 'collab_pls'
    if stack:
        canon = d.shape
    if not isinstance(b, np.ndarray):
        return [f'baseline is a {type(b).__name__}, not an array']
    if not isinstance(p, dict):
        return [f'params is a {type(p).__name__}, not a dict']
    if b.shape != canon:
        probs.append(f'baseline has shape {b.shape}, data (canonical) shape is {canon}')
    want_dt = np.dtype(out_dtype) if out_dtype is not None else d.dtype
    if b.dtype != want_dt:
        probs.append(f'baseline dtype is {b.dtype}, documented dtype is {want_dt}')
    pshape = canon[1:] if stack else canon
    pp, other = cmp.split(p, pshape, name)
    flat = cmp.flatten(p)
    for k, v in flat.items():
        if cmp.leaf_name(k) in ('weights', 'mask', 'alpha', 'signal') and isinstance(v, np.ndarray) and '.' not in k:
            if v.shape[-len(pshape):] != pshape:
                probs.append(f'per-point parameter {k} has shape {v.shape}, data shape is {pshape}')
    th = p.get('tol_history')
    if th is not None and max_iter is not None:
        th = np.asarray(th)
        if th.ndim == 1:
            if len(th) > max_iter + 1:
                probs.append(f'tol_history has {len(th)} entries for max_iter={max_iter}')
            # honest stop: a record shorter than the iteration budget must end below tol unless a documented early exit was taken
            if budget_code is not None and tol is not None and exits == 0 and len(th):
                budget = traj.budget_of(budget_code, max_iter)
                if len(th) < budget and np.isfinite(th[-1]) and not th[-1] < tol:
                    probs.append(f'tol_history stops after {len(th)} of {budget} allowed entries although its last value {th[-1]:.3g} is not below '
                                 f'tol={tol:g} and no early exit was signalled')
        # nested-loop methods (brpls family, goldindec, jbcd) keep a 2-D record: one row per outer iteration; its bounds are
        # checked by C09's host-specific replay, not here
    return probs


def correspond(ctx):
    from pybaselines import Baseline, Baseline2D
    rng = ctx.np_rng()
    dis = []
    for f in sorted(glob.glob(os.path.join(ROOT, 'corpus', 'C01_*.json'))):
        d = json.load(open(f))
        r = replay(ctx, d)
        ctx.case(('corpus', os.path.basename(f)))
        if r:
            dis.append(Disagreement('c01.corpus', d['signature'], f'corpus {os.path.basename(f)}: {r}', d['replay'], True))
    golden = traj.load_golden()
    sizes = [10, 13, 25, 60] + ([200, 2000] if ctx.thorough else [200])
    for two_d in (False, True):
        reg = M.registry(two_d)
        dim = '2d' if two_d else '1d'
        for name, e in reg.items():
            stack = name == 'collab_pls'
            kw0 = M.filter_kwargs(e, M.call_kwargs(name, two_d))
            has_mi = 'max_iter' in e['params']
            for n in (sizes if not two_d else ([(8, 7), (14, 11)] + ([(40, 33)] if ctx.thorough else []))):
                ks = kinds_2d(rng, *n) if two_d else kinds_1d(rng, n)
                if not ctx.thorough:
                    keep = {0} | set(rng.choice(np.arange(1, len(ks)), 3, replace=False).tolist()) | {len(ks) - 1}
                    ks = [k for i, k in enumerate(ks) if i in keep]
                ref = {}
                for kd in ks:
                    if two_d:
                        kind, x, z, Y, odt = kd
                    else:
                        kind, x, Y, odt = kd
                        z = None
                    if stack:
                        if kind in ('column', 'row', 'stack'):
                            continue
                        Y = np.array([Y, Y + 1], dtype=np.asarray(Y).dtype)
                    kw = dict(kw0)
                    variant = False
                    if rng.random() < 0.4:
                        # a non-default parameter value (code paths the default call never reaches)
                        vs = M.variants(name, e, two_d, rng, 1, base=kw0)
                        if vs:
                            kw = vs[0]
                            variant = True
                    mi = None
                    tol = None
                    if has_mi:
                        if 'max_iter' in kw and variant and kw.get('max_iter') != kw0.get('max_iter'):
                            mi = kw['max_iter']
                        else:
                            mi = int(rng.choice([0, 1, 3, 7])) if rng.random() < 0.5 else None
                            if mi is not None:
                                kw['max_iter'] = mi
                            else:
                                mi = e['params']['max_iter']
                        if 'tol' in e['params']:
                            tol = kw.get('tol', e['params']['tol'])
                    if 'baseline_points' in kw and kind in ('offset', 'tiny', 'negative'):
                        pass
                    # how the fitter came to be: created with the x (z) values or without some of them, and whether the checked call is
                    # its first one (the ordering clause needs the 'noisy' / 'unsorted' pair on the same given x)
                    fmode = 'x'
                    if kind not in ('noisy', 'unsorted') and rng.random() < 0.5:
                        fmode = FITTER_MODES[int(rng.integers(1, len(FITTER_MODES)))]
                    try:
                        with np.errstate(all='ignore'):
                            fit = make_fitter(two_d, x, z, odt, fmode)
                            if fmode.endswith('second'):
                                getattr(fit, name)(Y, **kw)
                            b, p = getattr(fit, name)(Y, **kw)
                        outcome = 'returned'
                    except Exception as ex:
                        outcome = 'raised'
                        ctx.count('raised:' + type(ex).__name__)
                        if isinstance(ex, (SystemExit, KeyboardInterrupt)):
                            raise
                    canon = (dim, name, kind, fmode, str(n), mi, repr(sorted((k, repr(v)) for k, v in kw.items() if kw0.get(k, None) is not v and k != 'max_iter')) if variant else '')
                    ctx.count('kwargs:' + ('variant' if variant else 'default'))
                    ctx.case(canon, nontrivial=outcome == 'returned',
                             sample={'method': f'{dim}:{name}', 'data': kind, 'size': n if not isinstance(n, tuple) else list(n), 'max_iter': mi, 'outcome': outcome}
                             if len(ctx.samples) < 6 and kind != 'noisy' else None)
                    ctx.count('kind:' + kind)
                    ctx.count('fitter:' + fmode)
                    if outcome != 'returned':
                        continue
                    meta = {'method': name, 'two_d': two_d, 'kind': kind, 'fitter': fmode, 'size': n if not isinstance(n, tuple) else list(n), 'max_iter': mi,
                            'kwargs': {k: (v if not isinstance(v, np.ndarray) else v.tolist()) for k, v in kw.items()}}
                    for pr in well_formed(name, two_d, Y, b, p, odt, mi if has_mi else None, tol, golden.get(('2d.' if two_d else '') + name)):
                        dis.append(Disagreement('c01.shape', f'{dim}:{name}:wellformed', f'{dim} {name} ({kind} data, size {n}): {pr}', meta, True))
                    if kind in ('noisy', 'negative', 'integer', 'float32', 'unsorted', 'column', 'row', 'stack', 'out-float32') and b.dtype.kind == 'f':
                        if not np.all(np.isfinite(b)):
                            dis.append(Disagreement('c01.finite', f'{dim}:{name}:nonfinite', f'{dim} {name} ({kind} data, size {n}, max_iter={mi}): the returned '
                                                    f'baseline contains {int(np.sum(~np.isfinite(b)))} non-finite values for finite noisy data', meta, True))
                    # ordering: the unsorted run must be the sorted run permuted (reference = the noisy run on sorted x with identical settings)
                    if kind == 'noisy':
                        ref['noisy'] = (x, z, Y, kw, b)
            # every single parameter moved to a non-default value (optional code paths), on plain noisy data
            svs = M.single_variants(name, e, two_d, base=kw0)
            if not ctx.thorough and len(svs) > 8:
                # the loop-control and window-boundary variants are always kept, the others sampled
                must = [kv for kv in svs if any(kv.get(k, kw0.get(k, e['params'].get(k))) != kw0.get(k, e['params'].get(k))
                                                for k in ('tol', 'max_iter', 'smooth_half_window', 'num_eigens'))]
                rest = [kv for kv in svs if kv not in must]
                svs = must + [rest[i] for i in sorted(rng.choice(len(rest), min(len(rest), max(0, 10 - len(must))), replace=False))]
            for kwv in svs:
                ds = int(rng.integers(0, 2 ** 31))
                nv = int(rng.choice([25, 60]))
                x, z, Y = variant_data(two_d, ds, nv)
                if stack:
                    Y = np.array([Y, Y + 1])
                rc = traj.RuleCounter()
                try:
                    with np.errstate(all='ignore'), rc:
                        fit = Baseline2D(x, z) if two_d else Baseline(x)
                        b, p = getattr(fit, name)(Y, **kwv)
                except Exception as ex:
                    ctx.count('raised:' + type(ex).__name__)
                    if isinstance(ex, (SystemExit, KeyboardInterrupt)):
                        raise
                    continue
                diffkeys = {k: v for k, v in kwv.items() if kw0.get(k, '<absent>') != v}
                ctx.case((dim, name, 'single-variant', repr(sorted((k, repr(v)) for k, v in diffkeys.items()))), nontrivial=True)
                ctx.count('kwargs:single-variant')
                meta = {'method': name, 'two_d': two_d, 'kind': 'noisy', 'size': list(np.asarray(Y).shape), 'max_iter': kwv.get('max_iter'),
                        'kwargs': {k: v for k, v in kwv.items()}, 'data_seed': ds, 'n': nv}
                mi_v = kwv.get('max_iter', e['params'].get('max_iter')) if has_mi else None
                tol_v = kwv.get('tol', e['params'].get('tol'))
                tol_v = tol_v if isinstance(tol_v, (int, float)) and not isinstance(tol_v, bool) else None
                # ria has a second, documented stop criterion (the integrated area overshoots), so its record may end above tol
                honest = name not in traj.SKIP and name != 'ria' and ('2d.' if two_d else '') + name in golden
                for pr in well_formed(name, two_d, Y, b, p, None, mi_v, tol_v, golden.get(('2d.' if two_d else '') + name) if honest else None,
                                      exits=rc.exits if honest else None):
                    dis.append(Disagreement('c01.shape', f'{dim}:{name}:wellformed', f'{dim} {name} ({diffkeys}, noisy data): {pr}', meta, True))
                if getattr(b, 'dtype', None) is not None and b.dtype.kind == 'f' and b.size and not np.all(np.isfinite(b)):
                    dis.append(Disagreement('c01.finite', f'{dim}:{name}:nonfinite', f'{dim} {name} ({diffkeys}, noisy data): the returned baseline contains '
                                            f'{int(np.sum(~np.isfinite(b)))} non-finite values for finite noisy data', meta, True))
            # order check on a dedicated pair of runs with identical settings
            try:
                if two_d:
                    x, z, Y = M.make_data2d(rng, 14, 11)
                    px, pz = np.roll(np.arange(14), 5), np.roll(np.arange(11), 4)
                    d0 = np.array([Y, Y + 1]) if stack else Y
                    with np.errstate(all='ignore'):
                        bs = getattr(Baseline2D(x, z), name)(d0, **kw0)[0]
                        bu = getattr(Baseline2D(x[px], z[pz]), name)(d0[..., px[:, None], pz[None, :]], **kw0)[0]
                    want = bs[..., px[:, None], pz[None, :]]
                else:
                    x, Y = M.make_data(rng, 60)
                    px = np.roll(np.arange(60), 23)
                    d0 = np.array([Y, Y + 1]) if stack else Y
                    with np.errstate(all='ignore'):
                        bs = getattr(Baseline(x), name)(d0, **kw0)[0]
                        bu = getattr(Baseline(x[px]), name)(d0[..., px], **kw0)[0]
                    want = bs[..., px]
                ctx.case((dim, name, 'order'), nontrivial=True)
                if bu.shape != want.shape or not np.allclose(bu, want, rtol=1e-8, atol=1e-8 * max(1.0, float(np.nanmax(np.abs(want)))), equal_nan=True):
                    dis.append(Disagreement('c01.order', f'{dim}:{name}:order', f'{dim} {name}: the baseline is not in the ordering of the input data '
                                            f'(x{" and z" if two_d else ""} rolled)', {'method': name, 'two_d': two_d, 'kind': 'order'}, True))
            except Exception:
                ctx.count('order:raised')
    # trajectory replay of the convergence record through the Lean loop skeleton
    for two_d in (False, True):
        its = traj.iterative_methods(two_d)
        names = list(its) if ctx.thorough else [list(its)[i] for i in sorted(rng.choice(len(its), min(len(its), 14), replace=False))]
        for name in names:
            e = its[name]
            if two_d:
                x, z, y = M.make_data2d(rng, 14, 11)
            else:
                x, y = M.make_data(rng, 60)
                z = None
            if rng.random() < 0.3:
                # nearly noise-free data provoke the documented early exit of some rules
                y = np.round(y) if not two_d else np.round(y)
            probs = traj.replay_method(ctx, two_d, name, e, x, z, y, K=8)
            ctx.case(('replay', two_d, name), nontrivial=True)
            for kind, detail, meta in probs:
                if kind == 'raises':
                    ctx.count('replay:raised')
                    continue
                dis.append(Disagreement('c01.loop', f'{"2d" if two_d else "1d"}:{name}:tol_history', detail,
                                        dict(meta, method=name, two_d=two_d, kind='replay'), True))
    # object-history fuzzer (hist.py): a call on a long-lived fitter must return the baseline in the caller's ordering, shape and with the
    # per-point parameters of the call — decided against the same call on a fresh fitter
    from . import hist
    for spec, f in hist.campaign(ctx, ctx.np_rng(), 'fresh', 50 if ctx.thorough else 20, 16 if ctx.thorough else 6):
        dis.append(Disagreement('c01.fuzz', f'fuzz:{spec["steps"][-1]["method"]}',
                                f'history on one fitter (x {"not given" if spec["mode"] == "none" else "given"}): {hist.describe(spec)[:700]} — call {f[0] + 1}: {f[2]}',
                                {'kind': 'fuzz', 'spec': spec}, True))
    # the loops AS TRANSLATED from the source (Gen/Loops): table cross-check, then every row run on real trajectories / records
    dis += looptbl.correspond(ctx, traj.load_golden_file(), rng)
    return dis


def search(ctx, hints, lean_failed):
    sub = type(ctx)(ctx.prop, 'thorough', ctx.seed + 1)
    return [d for d in correspond(sub) if d.property_level]


def variant_data(two_d, data_seed, n):
    g = np.random.default_rng(data_seed)
    if two_d:
        return M.make_data2d(g, 12, 10)
    x, Y = M.make_data(g, n)
    return x, None, Y


def replay(ctx, data):
    from pybaselines import Baseline, Baseline2D
    r = data['replay']
    if r.get('kind') == 'fuzz':
        from . import hist
        f = [x for x in hist.run(r['spec'], want=('fresh',)) if x[1] == 'fresh']
        return f'call {f[0][0] + 1}: {f[0][2]}' if f else None
    if 'data_seed' in r:
        x, z, Y = variant_data(r['two_d'], r['data_seed'], r.get('n', 25))
        if r['method'] == 'collab_pls':
            Y = np.array([Y, Y + 1])
        kw = {k: (tuple(v) if isinstance(v, list) and r['two_d'] else v) for k, v in r['kwargs'].items()}
        try:
            with np.errstate(all='ignore'):
                fit = Baseline2D(x, z) if r['two_d'] else Baseline(x)
                b, p = getattr(fit, r['method'])(Y, **kw)
        except Exception:
            return None
        if b.dtype.kind == 'f' and not np.all(np.isfinite(b)):
            return f'{r["method"]}: non-finite baseline for finite noisy data'
        pr = well_formed(r['method'], r['two_d'], Y, b, p, None, r.get('max_iter'), None, None)
        return pr[0] if pr else None
    if r.get('kind') == 'looptbl':
        return looptbl.replay(ctx, r)
    if r.get('kind') in ('replay', 'order', 'translate', 'table', 'rowok', 'rowshape', 'budget'):
        return None
    rng = np.random.default_rng(0)
    two_d = r['two_d']
    reg = M.registry(two_d)
    name = r['method']
    try:
        for _ in range(4):
            ks = kinds_2d(rng, *r['size']) if two_d else kinds_1d(rng, r['size'])
            for kd in ks:
                if kd[0] != r['kind']:
                    continue
                if two_d:
                    kind, x, z, Y, odt = kd
                else:
                    kind, x, Y, odt = kd
                    z = None
                kw = dict(r['kwargs'])
                with np.errstate(all='ignore'):
                    fit = make_fitter(two_d, x, z, odt, r.get('fitter', 'x'))
                    if r.get('fitter', 'x').endswith('second'):
                        getattr(fit, name)(Y, **kw)
                    b, p = getattr(fit, name)(Y, **kw)
                if b.dtype.kind == 'f' and not np.all(np.isfinite(b)):
                    return f'{name}: non-finite baseline for finite noisy data'
                pr = well_formed(name, two_d, Y, b, p, odt, r.get('max_iter'), None, None)
                if pr:
                    return pr[0]
    except Exception:
        return None
    return None
