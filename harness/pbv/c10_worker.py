"""C10 worker: runs a list of jobs in ONE back-end environment (numba / pentapy importable or genuinely blocked)
with each banded_solver value, and stores the baselines.  Usage:
    python -m pbv.c10_worker <block_numba 0|1> <block_pentapy 0|1> <jobs.json> <out.npz>"""
import json
import sys
import warnings

import numpy as np


def block(mods):
    import importlib.abc

    class Blocker(importlib.abc.MetaPathFinder):
        def find_spec(self, name, path=None, target=None):
            if name.split('.')[0] in mods:
                raise ImportError(f'{name} blocked for the back-end independence check')
            return None
    for m in list(sys.modules):
        if m.split('.')[0] in mods:
            del sys.modules[m]
    sys.meta_path.insert(0, Blocker())


def make_data(job):
    rng = np.random.default_rng(job['seed'])
    kind = job.get('data', 'noisy')
    if job.get('two_d'):
        m, n = job['shape']
        x = np.linspace(-20, 30, m)
        z = np.linspace(0, 50, n)
        X, Z = np.meshgrid(x, z, indexing='ij')
        base = 3 + 0.02 * X + 0.03 * Z + 1e-3 * X * Z
        peaks = 9 * np.exp(-0.5 * (((X - 5) / 6) ** 2 + ((Z - 25) / 5) ** 2))
        Y = base + peaks + rng.normal(0, 0.1, (m, n))
        if job.get('perturb'):
            Y = Y * (1 + np.random.default_rng(job['seed'] + 991).choice([-1.0, 1.0], (m, n)) * job['perturb'])
        return x, z, Y
    n = job['n']
    x = np.sort(rng.uniform(0, 100, n)) if kind == 'random_x' else np.linspace(0, 100, n)
    base = 5 + 0.05 * x + 1e-3 * (x - 40) ** 2
    peaks = 8 * np.exp(-0.5 * ((x - 30) / 3) ** 2) + 12 * np.exp(-0.5 * ((x - 65) / 4) ** 2)
    sigma = 0.01 if kind == 'lownoise' else 0.15
    y = base + peaks + rng.normal(0, sigma, n)
    if kind == 'lownoise':
        y = peaks + 0.2 + 0.002 * x + rng.normal(0, sigma, n)
    if kind == 'offset':        # a large constant offset with little noise: numerically delicate for one-pass variance formulas
        y = 1e6 + base + peaks + rng.normal(0, 0.01, n)
    if kind == 'tiny':
        y = 1e-6 * y
    if kind == 'huge':
        y = 1e6 * y
    if job.get('perturb'):
        y = y * (1 + np.random.default_rng(job['seed'] + 991).choice([-1.0, 1.0], n) * job['perturb'])
    # x-axes of unusual magnitude (the same data on a re-labelled axis): metres instead of nanometres, epoch seconds, a huge scale
    if kind == 'xsmall':
        x = x * 2.0 ** -30
    elif kind == 'xhuge':
        x = x * 2.0 ** 30
    elif kind == 'xoffset':
        x = x + 1.7e9
    return x, None, y


def run(job, solver):
    from pybaselines import Baseline, Baseline2D, utils
    x, z, y = make_data(job)
    kw = {k: (tuple(v) if isinstance(v, list) and job.get('two_d') else v) for k, v in job['kwargs'].items()}
    if 'baseline_points' in kw:
        kw['baseline_points'] = tuple(tuple(p) for p in kw['baseline_points'])
    name = job['name']
    if job.get('utils'):
        if name == 'whittaker_smooth':
            return np.asarray(utils.whittaker_smooth(y, **kw))
        if name == 'pspline_smooth':
            return np.asarray(utils.pspline_smooth(y, x, **kw)[0])
        if name == 'optimize_window':
            return np.asarray([utils.optimize_window(y, **kw)], dtype=float)
        raise ValueError(name)
    fit = Baseline2D(x, z) if job.get('two_d') else Baseline(x)
    fit.banded_solver = solver
    if job.get('perturb') and hasattr(fit, name):
        # structured perturbation of the matrix: every lam-like parameter moves by the same relative amount
        import inspect
        for pn, pv in inspect.signature(getattr(fit, name)).parameters.items():
            if pn.startswith('lam'):
                cur = kw.get(pn, pv.default)
                if isinstance(cur, (int, float)) and not isinstance(cur, bool):
                    kw[pn] = cur * (1 + job['perturb'])
                elif isinstance(cur, (tuple, list)) and all(isinstance(c, (int, float)) for c in cur):
                    kw[pn] = tuple(c * (1 + job['perturb']) for c in cur)
        if isinstance(kw.get('method_kwargs'), dict):
            kw['method_kwargs'] = {k: (v * (1 + job['perturb']) if k.startswith('lam') and isinstance(v, (int, float)) else v)
                                   for k, v in kw['method_kwargs'].items()}
    if name == 'collab_pls':
        yy = np.vstack([y, y * 1.1 + 0.3]) if not job.get('two_d') else np.stack([y, y * 1.1 + 0.3])
        return np.asarray(fit.collab_pls(yy, **kw)[0])
    if name == 'optimize_extended_range':
        return np.asarray(fit.optimize_extended_range(y, **kw)[0])
    return np.asarray(getattr(fit, name)(y, **kw)[0])


def main():
    bn, bp = int(sys.argv[1]), int(sys.argv[2])
    jobs = json.load(open(sys.argv[3]))
    mods = set()
    if bn:
        mods.add('numba')
    if bp:
        mods.add('pentapy')
    if mods:
        block(mods)
    warnings.simplefilter('ignore')
    from pybaselines import _compat
    assert _compat._HAS_NUMBA == (not bn), 'numba flag does not follow importability'
    assert _compat._HAS_PENTAPY == (not bp), 'pentapy flag does not follow importability'
    out = {}
    errs = {}
    routes = {}
    # record which solver PenalizedSystem.solve dispatches to and in which layout
    from pybaselines import _banded_utils as bu
    from pybaselines._spline_utils import PSpline
    current = []
    orig_solve = bu.PenalizedSystem.solve

    def solve(obj, lhs, rhs, *a, **k):
        if not isinstance(obj, PSpline):
            r = ('pentapy%d' % obj.pentapy_solver) if obj.using_pentapy else ('solveh' if obj.lower else 'solve_banded')
            current.append(f'{r} {int(obj.lower)} {int(obj.reversed)} {obj.diff_order} {np.asarray(lhs).shape[0]}')
        return orig_solve(obj, lhs, rhs, *a, **k)
    bu.PenalizedSystem.solve = solve
    for job in jobs:
        for solver in job.get('solvers', (1, 2, 3, 4)):
            key = f'{job["id"]}|{solver}'
            del current[:]
            try:
                with np.errstate(all='ignore'):
                    out[key] = np.asarray(run(job, solver), dtype=float)
            except Exception as ex:
                errs[key] = f'{type(ex).__name__}: {ex}'
            if current:
                routes[key] = sorted(set(current))
    np.savez(sys.argv[4], __errors__=np.array(json.dumps(errs)), __routes__=np.array(json.dumps(routes)), **out)


if __name__ == '__main__':
    main()
