"""Access to the Python source of the JIT kernels (`.py_func`) and a monitor that runs public calls
with the kernels' Python source substituted, so that an out-of-range scalar index inside a kernel
surfaces as an IndexError (compiled code would read/write foreign memory instead)."""
import contextlib
import importlib
import sys
import traceback

MODULES = ['pybaselines._spline_utils', 'pybaselines.polynomial', 'pybaselines.smooth', 'pybaselines.classification',
           'pybaselines.misc', 'pybaselines.spline', 'pybaselines.utils', 'pybaselines._banded_utils',
           'pybaselines.whittaker', 'pybaselines.morphological', 'pybaselines.optimizers', 'pybaselines._algorithm_setup',
           'pybaselines.two_d._spline_utils', 'pybaselines.two_d.spline', 'pybaselines.two_d._whittaker_utils']


def kernel_table():
    """{function name: (defining module, dispatcher)} for every compiled kernel"""
    out = {}
    for mn in MODULES:
        try:
            m = importlib.import_module(mn)
        except Exception:
            continue
        for k, v in list(vars(m).items()):
            if hasattr(v, 'py_func') and callable(getattr(v, 'py_func', None)):
                out.setdefault(v.py_func.__name__, (v.py_func.__module__, v))
    return out


@contextlib.contextmanager
def py_kernels():
    """replace every reference to a compiled kernel in the package's modules by its Python source"""
    saved = []
    for mn in MODULES:
        try:
            m = importlib.import_module(mn)
        except Exception:
            continue
        for k, v in list(vars(m).items()):
            if hasattr(v, 'py_func') and callable(getattr(v, 'py_func', None)):
                saved.append((m, k, v))
                setattr(m, k, v.py_func)
    try:
        yield
    finally:
        for m, k, v in saved:
            setattr(m, k, v)


def kernel_index_error(exc, names):
    """if `exc` is an IndexError raised while a kernel frame is active, return the kernel's name"""
    if not isinstance(exc, IndexError):
        return None
    tb = exc.__traceback__
    hit = None
    while tb is not None:
        nm = tb.tb_frame.f_code.co_name
        if nm in names:
            hit = nm
        tb = tb.tb_next
    return hit


def monitored(fn, names):
    """run fn() with Python-source kernels; returns ('ok', result) | ('exc', ExcName, msg) | ('oob', kernel, msg)"""
    import warnings
    with py_kernels():
        try:
            with warnings.catch_warnings():
                warnings.simplefilter('ignore')
                return ('ok', fn())
        except Exception as e:  # noqa
            k = kernel_index_error(e, names)
            if k:
                return ('oob', k, str(e))
            return ('exc', type(e).__name__, str(e)[:120])
