"""C04 — one fitter object may be shared by concurrent threads.

Two ties between the Lean protocol models (Model/Threads.lean) and the code:
 (a) access-trace correspondence: the real single-thread sequence of reads / writes of the shared fields, recorded for every
     public method, start state (created with / without x, cold / warm / differently-warm caches), is compared with the model
     programs' traces; any further shared WRITE is reported;
 (b) a deterministic scheduler runs real threads through chosen interleavings (pre-emption before every access to state
     reachable from the shared object) and compares every call's outcome bit-for-bit with the serial outcome; model schedules
     (including the witnesses of the negative theorems) are replayed on the real code and the predicted outcome compared."""
import concurrent.futures as cf
import glob
import json
import multiprocessing as mp
import os
import warnings

import numpy as np

from . import methods as M
from . import sched as SC
from .common import Disagreement, drive, ROOT

PROP_MODULE = 'PbVerif.Props.C04'
RULE = ('cases = (method, parameters, created with/without x (and z), cache state: cold / warmed by the same call / warmed by a call '
        'with another polynomial order or knot count, number of threads 2-3, schedule): each schedule is executed on REAL threads by a '
        'deterministic scheduler that can pre-empt before every read or write of a field reachable from the shared fitter (x, z, '
        '_size, _shape, _polynomial and the helper\'s fields, _spline_basis, ...); every call\'s (baseline, params) must equal the '
        'serial result bit for bit and no call may raise; schedules: every single pre-emption point in the first 30 accesses plus '
        'evenly spaced later ones, random double pre-emptions, random 3-thread interleavings; single-thread access traces of every '
        'method / start state against the Lean protocol programs; model schedules replayed on the real polynomial cache with equal and '
        'different orders (predicted outcome vs real); every array reachable from a warmed-up shared fitter is made read-only and each method '
        'called again (an in-place write into shared array CONTENTS is then located and turned into a concrete failing schedule by '
        'pre-emption before every line of the writing functions); non-trivial = the threads really interleaved (both took steps before either '
        'finished); distinct by canonical tuple')
ASSUMPTIONS = [
    'pre-emption is explored at attribute-access granularity on the shared fitter and its cache helpers (runtime subclasses report '
    'the accesses); pre-emption inside NumPy / LAPACK calls on thread-private arrays and the free-threaded memory model beyond '
    'sequentially consistent attribute accesses are outside the model',
    'in the protocol models values are abstracted by provenance (which polynomial order / knot parameters an array was built '
    'for); equal provenance gives bit-equal arrays because the builders are deterministic functions of x and the parameters',
]

POLY_FIELDS = {'_polynomial', 'vandermonde', 'poly_order', 'pinv_stale', '_pseudo_inverse', 'max_cross'}
ACT = {('R', '_polynomial'): 'rRef', ('W', '_polynomial'): 'wRef', ('R', 'vandermonde'): 'rV', ('W', 'vandermonde'): 'wV',
       ('R', 'poly_order'): 'rPo', ('W', 'poly_order'): 'wPo', ('R', 'pinv_stale'): 'rStale', ('W', 'pinv_stale'): 'wStale',
       ('R', '_pseudo_inverse'): 'rPinv', ('W', '_pseudo_inverse'): 'wPinv', ('R', 'max_cross'): 'rMc', ('W', 'max_cross'): 'wMc'}


# ---------------------------------------------------------------- jobs
def job_list(thorough, rng):
    jobs = []
    for two_d in (False, True):
        reg = M.registry(two_d)
        for name, e in sorted(reg.items()):
            kw = M.filter_kwargs(e, M.call_kwargs(name, two_d))
            if name == 'custom_bc':
                kw = {'method': 'asls', 'method_kwargs': {'max_iter': 2}}
            elif name == 'optimize_extended_range':
                kw = {'method': 'asls', 'side': 'both', 'method_kwargs': {'max_iter': 2}, 'min_value': 3, 'max_value': 4}
            elif name == 'collab_pls':
                kw = {'method': 'asls', 'method_kwargs': {'max_iter': 2}}
            elif name == 'individual_axes':
                kw = {'method': 'asls', 'method_kwargs': {'lam': 1e3, 'max_iter': 2}}
            elif name == 'interp_pts':
                kw = dict(kw)
            elif 'max_iter' in e['params'] and name not in ('adaptive_minmax',):
                kw['max_iter'] = 3
            if two_d and 'num_eigens' in e['params']:
                kw['num_eigens'] = (5, 5)
            if name == 'cwt_br':
                kw['scales'] = [2, 3, 4]
            fam = 'poly' if e['module'] in ('polynomial',) or name in ('iasls', 'pspline_iasls', 'adaptive_minmax', 'dietrich', 'cwt_br', 'fabc', 'snip') else \
                'spline' if ('pspline' in name or name in ('mixture_model', 'irsqr', 'corner_cutting', 'mpspline')) else 'other'
            for with_x in (True, False):
                if name == 'interp_pts' and not with_x:
                    continue
                # 'foreign': the caches of the shared fitter were filled by OTHER methods before the concurrent calls start
                scen = ['cold', 'warm', 'foreign']
                if 'poly_order' in e['params'] or name in ('pspline_iasls', 'iasls'):
                    scen.append('other-poly')
                if 'num_knots' in e['params']:
                    scen.append('other-knots')
                for sc in scen:
                    jobs.append({'two_d': two_d, 'name': name, 'kw': kw, 'with_x': with_x, 'scenario': sc, 'family': fam,
                                 'seed': int(rng.integers(0, 2 ** 31))})
            if two_d:
                # a Baseline2D created with only x or only z: the first call creates the missing axis (and completes the shape)
                for part in ('x', 'z'):
                    jobs.append({'two_d': True, 'name': name, 'kw': kw, 'with_x': part, 'scenario': 'cold', 'family': fam,
                                 'seed': int(rng.integers(0, 2 ** 31))})
    # parameter variants that change the shared-cache protocol
    for two_d in (False, True):
        for sc in ('cold', 'warm', 'other-poly'):
            for name, kw in (('poly', {'poly_order': 3}), ('modpoly', {'poly_order': 2, 'max_iter': 3}), ('imodpoly', {'poly_order': 4, 'max_iter': 2}),
                             ('penalized_poly', {'poly_order': 3, 'max_iter': 3}), ('quant_reg', {'poly_order': 2, 'max_iter': 3}),
                             ('poly', {'poly_order': 3, 'weights': 'ones'})):
                if two_d:
                    kw = dict(kw, poly_order=(kw['poly_order'], 2))
                    for mc in (None, 1):
                        jobs.append({'two_d': True, 'name': name, 'kw': dict(kw, max_cross=mc), 'with_x': True, 'scenario': sc, 'family': 'poly',
                                     'seed': int(rng.integers(0, 2 ** 31))})
                else:
                    jobs.append({'two_d': False, 'name': name, 'kw': kw, 'with_x': bool(rng.random() < 0.7), 'scenario': sc, 'family': 'poly',
                                 'seed': int(rng.integers(0, 2 ** 31))})
    return jobs


def data_for(job):
    rng = np.random.default_rng(1234)
    if job['two_d']:
        x, z, y = M.make_data2d(rng, 10, 9)
    else:
        x, y = M.make_data(rng, 40)
        z = None
    if job['name'] == 'collab_pls':
        y = np.stack([y, 1.1 * y + 0.2])
    return x, z, y


def thread_data(y, t):
    """the calls of one scenario have identical NON-DATA arguments; each thread fits its own data"""
    y = np.asarray(y, dtype=float)
    return y if t == 0 else y * (1 + 0.07 * t) + 0.3 * t + 0.05 * np.cos(np.arange(y.size) * (t + 1.0)).reshape(y.shape)


def thread_refs(job, nthreads=3):
    """serial outcome of each thread's call: on one object, one after another"""
    from pybaselines import Baseline, Baseline2D
    x, z, y = data_for(job)
    kw = kwargs_for(job, y)
    obj = make_obj(Baseline2D if job['two_d'] else Baseline, job, x, z)
    try:
        prepare(obj, job, y, kw)
    except Exception:          # noqa: BLE001
        return None
    refs = []
    for t in range(nthreads):
        try:
            refs.append(SC.canon(('ok', call(obj, job, thread_data(y, t), kw))))
        except Exception as ex:      # noqa: BLE001
            refs.append(('err', type(ex).__name__))
    return refs


def kwargs_for(job, y):
    kw = dict(job['kw'])
    if isinstance(kw.get('weights'), str):
        kw['weights'] = np.ones(np.asarray(y).shape[-2:] if job['two_d'] else np.asarray(y).shape[-1])
    if job['two_d']:
        kw = {k: (tuple(v) if isinstance(v, list) else v) for k, v in kw.items()}
    if 'baseline_points' in kw:
        kw['baseline_points'] = tuple(tuple(p) for p in kw['baseline_points'])
    return kw


def other_kwargs(job, kw):
    """a preparatory call that leaves the caches in a state built for OTHER parameters"""
    kw2 = dict(kw)
    if job['scenario'] == 'other-poly':
        if job['name'] in ('iasls', 'pspline_iasls'):
            return 'poly', {'poly_order': 4}
        po = kw.get('poly_order')
        if po is None:
            from pybaselines import Baseline, Baseline2D
            import inspect
            po = inspect.signature(getattr(Baseline2D if job['two_d'] else Baseline, job['name'])).parameters['poly_order'].default
        if po is None:
            po = 2
        if isinstance(po, (tuple, list)):
            kw2['poly_order'] = tuple(int(p) + (2 if job['seed'] % 2 else -1) for p in po)
            kw2['poly_order'] = tuple(max(0, p) for p in kw2['poly_order'])
        else:
            kw2['poly_order'] = max(0, int(po) + (2 if job['seed'] % 2 else -1))
        return job['name'], kw2
    if job['scenario'] == 'other-knots':
        nk = kw.get('num_knots', 12)
        kw2['num_knots'] = tuple(int(n) + 3 for n in nk) if isinstance(nk, (tuple, list)) else int(nk) + 3
        return job['name'], kw2
    return job['name'], kw2


def make_obj(cls, job, x, z):
    if job['two_d']:
        if job['with_x'] == 'x':
            return cls(x_data=x)
        if job['with_x'] == 'z':
            return cls(z_data=z)
        return cls(x, z) if job['with_x'] else cls()
    return cls(x) if job['with_x'] else cls()


def prepare(obj, job, y, kw):
    """runs un-scheduled preparatory calls according to the scenario"""
    if job['scenario'] == 'cold':
        return
    if job['scenario'] == 'foreign':
        yy = y[0] if job['name'] == 'collab_pls' else y
        with warnings.catch_warnings():
            warnings.simplefilter('ignore')
            with np.errstate(all='ignore'):
                if job['two_d']:
                    obj.poly(yy, poly_order=(3, 2))
                    obj.pspline_asls(yy, num_knots=(7, 6), max_iter=1)
                else:
                    obj.poly(yy, poly_order=3)
                    obj.pspline_asls(yy, num_knots=9, max_iter=1)
        return
    name, kw2 = other_kwargs(job, kw)
    with warnings.catch_warnings():
        warnings.simplefilter('ignore')
        with np.errstate(all='ignore'):
            getattr(obj, name)(y, **kw2)


def call(obj, job, y, kw):
    with warnings.catch_warnings():
        warnings.simplefilter('ignore')
        with np.errstate(all='ignore'):
            return getattr(obj, job['name'])(y, **kw)


def run_plan(job, plan, nthreads, only=None, focus=None, extra=()):
    x, z, y = data_for(job)
    kw = kwargs_for(job, y)
    s = SC.Sched(plan, only=only, focus=focus)
    with SC.instrumented(s, job['two_d'], extra) as cls:
        obj = make_obj(cls, job, x, z)
        try:
            prepare(obj, job, y, kw)
        except Exception as ex:          # noqa: BLE001
            return None, s, f'prepare raised {type(ex).__name__}: {ex}'
        res = s.run([(lambda t=t: call(obj, job, thread_data(y, t), kw)) for t in range(nthreads)])
    return res, s, None


def serial(job):
    x, z, y = data_for(job)
    kw = kwargs_for(job, y)
    s = SC.Sched([], record_only=True)
    with SC.instrumented(s, job['two_d']) as cls:
        obj = make_obj(cls, job, x, z)
        try:
            prepare(obj, job, y, kw)
        except Exception as ex:          # noqa: BLE001
            return None, None, 0, s, obj, f'prepare raised {type(ex).__name__}'
        state0 = cache_state(obj)
        SC._cur.tid = 0
        try:
            try:
                r1 = SC.canon(('ok', call(obj, job, y, kw)))
            except Exception as ex:      # noqa: BLE001
                r1 = ('err', type(ex).__name__)
            k = len(s.log)
            try:
                r2 = SC.canon(('ok', call(obj, job, y, kw)))
            except Exception as ex:      # noqa: BLE001
                r2 = ('err', type(ex).__name__)
        finally:
            SC._cur.tid = None
    return r1, r2, k, s, (obj, state0), None


def cache_state(obj):
    p = object.__getattribute__(obj, '_polynomial')
    st = {'poly': None, 'basis': None, 'poly_id': None if p is None else id(p)}
    if p is not None:
        po = object.__getattribute__(p, 'poly_order')
        st['poly'] = {'order': int(po) if isinstance(po, (int, np.integer)) else tuple(int(v) for v in np.atleast_1d(po)),
                      'max_cross': getattr(p, '__dict__', {}).get('max_cross', None),
                      'stale': bool(object.__getattribute__(p, 'pinv_stale')),
                      'pinv': object.__getattribute__(p, '_pseudo_inverse') is not None}
    b = object.__getattribute__(obj, '_spline_basis')
    if b is not None:
        st['basis'] = (b.num_knots, b.spline_degree)
    return st


# ---------------------------------------------------------------- exploration (runs in a worker process)
def explore_job(args):
    job, thorough = args
    warnings.simplefilter('ignore')
    out = {'job': job, 'fails': [], 'runs': 0, 'interleaved': 0, 'points': 0, 'note': None}
    r1, r2, k, s, _, err = serial(job)
    if err:
        out['note'] = err
        return out
    # fields the call WRITES on the shared object although no protocol model knows them become pre-emption points too
    xfields = sorted({nm for (ow, nm, oid) in s.unmodelled})
    if xfields:
        out['extra_fields'] = xfields
        s2 = SC.Sched([], record_only=True)
        try:
            x_, z_, y_ = data_for(job)
            kw_ = kwargs_for(job, y_)
            with SC.instrumented(s2, job['two_d'], xfields) as cls_:
                o_ = make_obj(cls_, job, x_, z_)
                prepare(o_, job, y_, kw_)
                SC._cur.tid = 0
                try:
                    call(o_, job, y_, kw_)
                finally:
                    SC._cur.tid = None
            k = len(s2.log)
        except Exception:          # noqa: BLE001
            pass
    out['points'] = k
    out['serial_ok'] = r1[0] == 'ok'
    if r1 != r2:
        out['note'] = 'serial: second call differs from the first'
    refs = thread_refs(job) or [r1, r1, r1]
    accept = [{refs[0], r1, r2}, {refs[1]}, {refs[2]}]
    rng = np.random.default_rng(job['seed'])
    plans = []
    head = min(k, 30 if not thorough else 80)
    for i in range(head + 1):
        plans.append((2, [0] * i + [1]))
    extra = 8 if not thorough else 30
    for i in np.unique(np.linspace(head, k, extra).astype(int)):
        plans.append((2, [0] * int(i) + [1]))
    for _ in range(8 if not thorough else 40):
        i = int(rng.integers(0, min(k, 60) + 1))
        j = int(rng.integers(1, min(k, 60) + 1))
        plans.append((2, [0] * i + [1] * j + [0]))
    for _ in range(5 if not thorough else 25):
        n = int(min(3 * k, 240))
        cur, pl = 0, []
        for _ in range(n):
            if rng.random() < 0.2:
                cur = int(rng.integers(0, 3))
            pl.append(cur)
        plans.append((3, pl))
    for nt, plan in plans:
        try:
            res, s, err = run_plan(job, plan, nt, extra=xfields)
        except SC.Deadlock as ex:
            out['fails'].append({'plan': plan, 'threads': nt, 'thread': -1, 'outcome': f'scheduler: {ex}'})
            continue
        if err:
            out['note'] = err
            break
        out['runs'] += 1
        tids = [e[0] for e in s.log]
        first_done = None
        # interleaved: some thread took a step after another thread had started and before it finished
        seen = []
        for t in tids:
            if not seen or seen[-1] != t:
                seen.append(t)
        if len(seen) > nt - 1 + 1 and len(set(seen)) > 1 and len(seen) > len(set(seen)):
            out['interleaved'] += 1
        for t, r in sorted(res.items()):
            c = SC.canon(r)
            if c not in accept[t]:
                out['fails'].append({'plan': plan, 'threads': nt, 'thread': t, 'extra': xfields,
                                     'outcome': (f'{r[1]}: {r[2]}' if r[0] == 'err' else 'returned a different baseline / params than the serial call')})
                break
        if len(out['fails']) >= 3:
            break
    return out


# ---------------------------------------------------------------- in-place writes into arrays reachable from the shared object
def reachable_arrays(obj, depth=0, seen=None, path='self'):
    import scipy.sparse as sp
    seen = set() if seen is None else seen
    out = []
    if id(obj) in seen or depth > 4:
        return out
    seen.add(id(obj))
    if isinstance(obj, np.ndarray):
        out.append((path, obj))
        if isinstance(obj.base, np.ndarray):
            out += reachable_arrays(obj.base, depth + 1, seen, path + '.base')
        return out
    if sp.issparse(obj):
        for a in ('data', 'indices', 'indptr', 'offsets'):
            if hasattr(obj, a):
                out += reachable_arrays(getattr(obj, a), depth + 1, seen, f'{path}.{a}')
        return out
    if isinstance(obj, (list, tuple)):
        for i, v in enumerate(obj):
            out += reachable_arrays(v, depth + 1, seen, f'{path}[{i}]')
        return out
    d = getattr(obj, '__dict__', None)
    if d is not None and type(obj).__module__.startswith('pybaselines'):
        for k, v in d.items():
            out += reachable_arrays(v, depth + 1, seen, f'{path}.{k}')
    return out


def shared_array_writes(ctx, jobs, dis):
    """Every array reachable from a warmed-up shared fitter is made read-only and the method is called again: a call that writes
    in place into such an array races with concurrent calls on its CONTENTS (attribute-level pre-emption cannot see that).  The
    location of the write is then used to search, with pre-emption before every line of the writing functions, for a concrete
    schedule on which a call's result differs from the serial one."""
    import traceback
    from pybaselines import Baseline, Baseline2D
    seen = set()
    for job in jobs:
        if job['scenario'] not in ('warm', 'foreign') or not job['with_x']:
            continue
        key = (job['two_d'], job['name'], json.dumps(job['kw'], sort_keys=True, default=str), job['scenario'])
        if key in seen:
            continue
        seen.add(key)
        x, z, y = data_for(job)
        kw = kwargs_for(job, y)
        obj = (Baseline2D(x, z) if job['two_d'] else Baseline(x))
        try:
            prepare(obj, job, y, kw)
        except Exception:          # noqa: BLE001
            continue
        arrs = reachable_arrays(obj)
        flags = [(a, a.flags.writeable) for _, a in arrs]
        for _, a in arrs:
            try:
                a.setflags(write=False)
            except ValueError:
                pass
        hit = None
        try:
            call(obj, job, y, kw)
        except ValueError as ex:
            if 'read-only' in str(ex):
                fr = [f for f in traceback.extract_tb(ex.__traceback__) if 'pybaselines' in f.filename]
                hit = [(os.path.basename(f.filename), f.name, f.lineno) for f in fr]
        except Exception:          # noqa: BLE001
            pass
        finally:
            for a, w in flags:
                try:
                    a.setflags(write=w)
                except ValueError:
                    pass
        ctx.case(('frozen-shared-arrays', job['two_d'], job['name']), nontrivial=len(arrs) > 1)
        ctx.count('frozen-call:' + ('writes-shared-array' if hit else 'ok'))
        if not hit:
            continue
        nm = ('2d.' if job['two_d'] else '') + job['name']
        where = f'{hit[-1][0]}:{hit[-1][2]} ({hit[-1][1]})'
        focus = sorted({(h[0], h[1]) for h in hit[-2:]})
        # concrete schedule: pre-emption before every line of the writing function(s)
        r1, r2, k, _, _, err = serial(job)
        refs_sa = thread_refs(job) or [r1, r1, r1]
        found = None
        if not err and r1 is not None:
            res, s0, err2 = run_plan(job, [0] * 100000, 2, focus=focus)
            npts = len([e for e in s0.log if e[0] == 0]) if not err2 else 0
            for i in list(range(0, min(npts, 400))):
                try:
                    res, s, e2 = run_plan(job, [0] * i + [1], 2, focus=focus)
                except SC.Deadlock:
                    continue
                if e2:
                    break
                bad = [t for t, r in sorted(res.items()) if SC.canon(r) not in ({refs_sa[t], r1, r2} if t == 0 else {refs_sa[t]})]
                if bad:
                    r = res[bad[0]]
                    found = (i, bad[0], (f'{r[1]}: {r[2]}' if r[0] == 'err' else 'returned a different baseline / params than the serial call'))
                    break
        if found:
            i, t, outcome = found
            dis.append(Disagreement('c04.shared-array', f'{nm}:shared-array-write', f'{nm}({job["kw"]}) writes in place into an array reachable from the shared fitter at '
                                    f'{where}; with pre-emption before every line of {focus}, schedule 0x{i} 1x1 makes thread {t} -> {outcome} (serial calls succeed)',
                                    {'job': job, 'plan': [0] * i + [1], 'threads': 2, 'focus': [list(f) for f in focus]}, True))
        else:
            dis.append(Disagreement('c04.shared-array', f'model:shared-array-write:{nm}', f'{nm}({job["kw"]}) writes in place into an array reachable from the shared fitter at '
                                    f'{where}: concurrent calls race on its contents, which no protocol model covers (no failing schedule was found by line-level '
                                    f'pre-emption)', {'job': job, 'where': where}, False))
        if len([d for d in dis if d.stage == 'c04.shared-array']) >= 3:
            break


# ---------------------------------------------------------------- trace correspondence
def project(log, shared_id, fields):
    """events of the shared fitter / of helpers published on it, restricted to `fields`, as (kind, name)"""
    pub = set()
    ev = []
    for (tid, kind, owner, name, oid, vid) in log:
        if owner == 'self':
            if oid != shared_id:
                continue
            if kind == 'W' and name == '_polynomial':
                pub.add(vid)
        elif oid not in pub:
            continue
        if name in fields:
            ev.append((kind, name))
    return ev


def trace_checks(ctx, jobs, dis):
    lines, metas = [], []
    for job in jobs:
        r1, r2, k, s, objst, err = serial(job)
        if err or r1 is None or r1[0] != 'ok':
            continue
        obj, st0 = objst
        log = s.log[:k]
        sid = id(obj)
        # helpers already published before the call count as shared
        p0 = st0['poly_id']
        full = list(log)
        if p0 is not None:
            full = [(0, 'W', 'self', '_polynomial', sid, p0)] + full
        ctx.count('trace:' + job['family'])
        # 0. writes to shared fields that no protocol model knows
        pubs = {vid for (_, kd, ow, nm, oid, vid) in full if ow == 'self' and oid == sid and kd == 'W' and nm == '_polynomial'}
        for (ow, nm, oid) in s.unmodelled:
            if (ow == 'self' and oid == sid) or (ow == 'poly' and oid in pubs):
                dis.append(Disagreement('c04.trace', f'model:unmodelled-write:{nm}', f'{job["name"]} ({"2-D" if job["two_d"] else "1-D"}): the call writes the shared field '
                                        f'{nm!r}, which no protocol model covers', {'job': job, 'field': nm}, False))
                break
        for (_, kd, ow, nm, oid, vid) in log:
            if kd == 'W' and ow == 'self' and oid == sid and nm in ('x_domain', 'z_domain', '_sort_order', '_inverted_order', '_banded_solver', '_pentapy_solver', '_dtype',
                                                                        '_check_finite'):
                dis.append(Disagreement('c04.trace', f'model:unmodelled-write:{nm}', f'{job["name"]}: the call writes the shared field {nm!r}, which the protocol models treat as '
                                        f'read-only', {'job': job, 'field': nm}, False))
                break
        # 1. first-call initialisation
        if not job['two_d']:
            ev = project(log, sid, {'x', '_Algorithm__size', '_shape'})
            toks = [{'R': {'x': 'rX', '_Algorithm__size': 'rSize', '_shape': 'rShapeBody'}, 'W': {'x': 'wX', '_Algorithm__size': 'wSize', '_shape': 'wShape'}}[kd][nm]
                    for kd, nm in ev]
            given = job['with_x'] or job['scenario'] != 'cold'
            lines.append(f'c04.trace lazy1 1 {int(given)}')
            metas.append(('lazy', job, toks))
        else:
            ev = project(log, sid, {'x', 'z', '_Algorithm2D__shape', '_size'})
            toks = [{'R': {'x': 'rX', 'z': 'rZ', '_Algorithm2D__shape': 'rShape', '_size': 'rSizeBody'},
                     'W': {'x': 'wX', 'z': 'wZ', '_Algorithm2D__shape': 'wShape', '_size': 'wSize'}}[kd][nm] for kd, nm in ev]
            gx = job['with_x'] in (True, 'x') or job['scenario'] != 'cold'
            gz = job['with_x'] in (True, 'z') or job['scenario'] != 'cold'
            lines.append(f'c04.trace lazy2 1 {int(gx)} {int(gz)}')
            metas.append(('lazy', job, toks))
        # 2. polynomial cache (1-D helper): the real trace must be one of the proven programs
        evp = project(full, sid, POLY_FIELDS)
        if p0 is not None:
            evp = evp[1:]
        if evp:
            toks = [ACT[e] for e in evp]
            p1 = object.__getattribute__(obj, '_polynomial')
            if p1 is None:
                # the call touched the shared polynomial cache although the object holds none afterwards: no proven program does that
                dis.append(Disagreement('c04.trace', 'model:poly-access-without-cache', f'{job["name"]} ({"2-D" if job["two_d"] else "1-D"}, {job["scenario"]}): the call '
                                        f'accesses the shared polynomial cache ({[ACT[e] for e in evp][:6]}) but leaves no helper on the object; no protocol model covers this',
                                        {'job': job}, False))
            elif not job['two_d']:
                k1 = int(object.__getattribute__(p1, 'poly_order'))
                if st0['poly'] is None:
                    init = 'cold'
                else:
                    init = f'warm:{int(st0["poly"]["order"])}:{int((not st0["poly"]["stale"]) and st0["poly"]["pinv"])}'
                metas.append(('poly', job, toks, init, k1))
                lines.append(f'c04.trace poly {init} {k1} 1 0')
                metas.append(('poly-aux', None))
                lines.append(f'c04.trace poly {init} {k1} 0 0')
            else:
                codes = {}

                def code(v):
                    v = None if v is None else (tuple(int(t) for t in np.atleast_1d(v)) if not isinstance(v, (int, np.integer)) else int(v))
                    return codes.setdefault(repr(v), len(codes) + 1)
                a1 = code(object.__getattribute__(p1, 'poly_order'))
                b1 = code(object.__getattribute__(p1, 'max_cross'))
                if st0['poly'] is None:
                    init = 'cold'
                else:
                    init = f'warm:{code(st0["poly"]["order"])}:{code(st0["poly"]["max_cross"])}:{int((not st0["poly"]["stale"]) and st0["poly"]["pinv"])}'
                metas.append(('poly', job, toks, init, (a1, b1)))
                lines.append(f'c04.trace poly2 {init} {a1} {b1} 1 0')
                metas.append(('poly-aux', None))
                lines.append(f'c04.trace poly2 {init} {a1} {b1} 0 0')
        # 3. spline-basis cache
        evb = project(log, sid, {'_spline_basis'})
        if evb:
            toks = ['rRef' if kd == 'R' else 'wRef' for kd, nm in evb]
            b1 = object.__getattribute__(obj, '_spline_basis')
            if b1 is not None:
                bcodes = {}

                def bcode(v):
                    # (num_knots, degree) as naturals; 2-D pairs are coded
                    v = tuple(int(t) for t in np.atleast_1d(v))
                    return v[0] if len(v) == 1 else bcodes.setdefault(v, 100 + len(bcodes))
                init = 'none' if st0['basis'] is None else f'{bcode(st0["basis"][0])}:{bcode(st0["basis"][1])}'
                lines.append(f'c04.trace basis {init} {bcode(b1.num_knots)}:{bcode(b1.spline_degree)}')
                metas.append(('basis', job, toks))
                ctx.count('basis-trace')
    res = drive(lines)
    ctx.traces += len(lines)
    i = 0
    while i < len(lines):
        mt = metas[i]
        out = [] if res[i] == '-' else res[i].split(' ')
        if mt[0] == 'lazy':
            _, job, toks = mt
            body = {'rShapeBody', 'rSizeBody'}
            pro = [t for t in toks if t not in body]
            # the model's writes, in order, and everything up to the last write must coincide; after the last write
            # (or when nothing is written) the real call may read the fields any number of times, the first reads being x (and z)
            lw_m = max([j for j, t in enumerate(out) if t.startswith('w')], default=-1)
            lw_r = max([j for j, t in enumerate(pro) if t.startswith('w')], default=-1)
            first = 2 if job['two_d'] else 1
            ok = pro[:lw_r + 1] == out[:lw_m + 1] and pro[:first] == out[:first]
            if not ok:
                dis.append(Disagreement('c04.trace', f'model:lazy:{"2d" if job["two_d"] else "1d"}', f'{job["name"]} ({"2-D" if job["two_d"] else "1-D"}, with_x={job["with_x"]}, '
                                        f'{job["scenario"]}): first-call access trace {pro[:14]} differs from the Lean program {out}',
                                        {'job': job, 'real': pro, 'model': out}, False))
            i += 1
        elif mt[0] == 'poly':
            _, job, toks, init, k1 = mt
            a, b = out, ([] if res[i + 1] == '-' else res[i + 1].split(' '))
            okm = False
            for pre in (a, b):
                rest = toks[len(pre):]
                if toks[:len(pre)] == pre and len(rest) % 2 == 0 and all(rest[j:j + 2] == ['rRef', 'rV'] for j in range(0, len(rest), 2)):
                    okm = True
            ctx.count('poly-trace:' + ('match' if okm else 'outside'))
            if not okm:
                # several set-ups in one call, or reads in another order: not one of the proven programs; report any WRITE
                # that the proven programs do not contain, otherwise leave it to the scheduler exploration
                note = f'{job["name"]} ({job["scenario"]}): polynomial-cache trace is not a single proven program ({len(toks)} accesses); covered by scheduler exploration only'
                if note not in ctx.notes:
                    ctx.notes.append(note)
            i += 2
        elif mt[0] == 'basis':
            _, job, toks = mt
            n = len(out)
            if not (toks[:n] == out and all(t == 'rRef' for t in toks[n:])):
                dis.append(Disagreement('c04.trace', 'model:basis', f'{job["name"]} ({job["scenario"]}): spline-basis access trace {toks} differs from the Lean program {out}',
                                        {'job': job, 'real': toks, 'model': out}, False))
            i += 1
        else:
            i += 1


# ---------------------------------------------------------------- model schedules on the real polynomial cache
def model_replay(ctx, rng, dis, n_rand):
    """two threads calling poly with orders (k0, k1) on an object warmed with order j: the model's outcome for a schedule
    (serial outcome kept or not) against the real calls scheduled at exactly the model's access points"""
    from pybaselines import Baseline
    x, y = M.make_data(np.random.default_rng(5), 30)
    cases = [((2, True), (2, 3), [0] * 10 + [1] * 7 + [0] * 3)]        # witness of PbVerif.C04.poly_different_orders_unsafe
    for _ in range(n_rand):
        j = int(rng.integers(1, 5))
        same = rng.random() < 0.5
        k0 = int(rng.integers(1, 5))
        k1 = k0 if same else int(rng.integers(1, 5))
        plan = [int(v) for v in (rng.random(44) < 0.5)]
        cases.append(((j, bool(rng.random() < 0.7)), (k0, k1), plan))
    lines = []
    for (j, pd), (k0, k1), plan in cases:
        lines.append(f'c04.run poly warm:{j}:{int(pd)} {k0},{k1} 1 1 {",".join(map(str, plan + [0] * 30 + [1] * 30))}')
    res = drive(lines)
    ctx.traces += len(lines)
    for ((j, pd), ks, plan), r in zip(cases, res):
        pred = []
        for t, k in zip(r.split(' '), ks):
            st, used, got = t.split(':')
            pred.append(st == 'done' and used == '1' and got == str(k))
        # real
        refs = []
        for k in ks:
            o = Baseline(x)
            o.poly(y, poly_order=j)
            refs.append(SC.canon(('ok', o.poly(y, poly_order=k))))
        # the first decision for a thread only brings it to its first access; afterwards one decision = one access = one model step
        s = SC.Sched([0, 1] + plan + [0] * 30 + [1] * 30, only=POLY_FIELDS)
        with SC.instrumented(s) as cls:
            obj = cls(x)
            if pd:
                obj.poly(y, poly_order=j)
            else:
                obj.poly(y, poly_order=j, weights=np.ones(len(y)))
            out = s.run([(lambda k=k: obj.poly(y, poly_order=k)) for k in ks])
        real = [SC.canon(out[t]) == refs[t] for t in range(2)]
        ctx.case(('model-replay', j, pd, ks, tuple(plan)), nontrivial=True)
        ctx.count('model-replay:' + ('same-order' if ks[0] == ks[1] else 'different-orders') + (':broken' if not all(pred) else ':serial'))
        if pred != real:
            dis.append(Disagreement('c04.model', 'model:poly:replay', f'poly cache, object warmed with order {j} (pinv {"computed" if pd else "not computed"}), two calls with orders {ks}, '
                                    f'schedule {plan}: the Lean model predicts serial outcome {pred}, the real calls give {real}',
                                    {'warm': [j, pd], 'orders': list(ks), 'plan': plan}, False))
        if ks[0] == ks[1] and not all(real):
            dis.append(Disagreement('c04.poly', 'poly:same-order', f'poly cache warmed with order {j}, two calls with the same order {ks[0]}, schedule {plan}: a call does not '
                                    f'return its serial result', {'warm': [j, pd], 'orders': list(ks), 'plan': plan}, True))


# ---------------------------------------------------------------- main
def correspond(ctx):
    rng = ctx.np_rng()
    dis = []
    jobs = job_list(ctx.thorough, rng)
    # corpus first
    for f in sorted(glob.glob(os.path.join(ROOT, 'corpus', 'C04_*.json'))):
        d = json.load(open(f))
        r = replay(ctx, d)
        ctx.case(('corpus', os.path.basename(f)), nontrivial=True)
        if r:
            dis.append(Disagreement('c04.corpus', d['signature'], f'corpus {os.path.basename(f)}: {r}', d['replay'], True))
    if not ctx.thorough:
        # quick tier: every method in one start state chosen at random + all poly / spline family jobs
        keep = []
        seen = {}
        for j in jobs:
            key = (j['two_d'], j['name'])
            if j['family'] in ('poly', 'spline') or rng.random() < 0.35 or key not in seen:
                keep.append(j)
                seen[key] = True
        jobs = keep
    workers = min(14, os.cpu_count() or 2)
    with cf.ProcessPoolExecutor(max_workers=workers, mp_context=mp.get_context('spawn')) as pool:
        results = list(pool.map(explore_job, [(j, ctx.thorough) for j in jobs], chunksize=2))
    total_runs = 0
    for out in results:
        job = out['job']
        total_runs += out['runs']
        ctx.case((job['two_d'], job['name'], json.dumps(job['kw'], sort_keys=True, default=str), job['with_x'], job['scenario']),
                 nontrivial=out['interleaved'] > 0,
                 sample={'method': ('2d.' if job['two_d'] else '') + job['name'], 'created_with_x': job['with_x'], 'cache': job['scenario'],
                         'access_points_per_call': out['points'], 'schedules_run': out['runs']} if len(ctx.samples) < 6 and out['runs'] > 20 else None)
        ctx.count('family:' + job['family'])
        ctx.count('start:' + ('only-' + job['with_x'] if isinstance(job['with_x'], str) else 'with-x' if job['with_x'] else 'without-x') + ':' + job['scenario'])
        if out['note']:
            ctx.count('note:' + out['note'][:40])
        for fl in out['fails'][:1]:
            nm = ('2d.' if job['two_d'] else '') + job['name']
            dis.append(Disagreement('c04.schedule', f'{nm}:{job["scenario"]}:{("only" + job["with_x"]) if isinstance(job["with_x"], str) else ("x" if job["with_x"] else "nox")}',
                                    f'{nm}({job["kw"]}) on a shared object created {("with only " + job["with_x"]) if isinstance(job["with_x"], str) else ("with x" if job["with_x"] else "without x")}, cache {job["scenario"]}, '
                                    f'{fl["threads"]} threads, schedule {compact(fl["plan"])}: thread {fl["thread"]} -> {fl["outcome"]} (serial calls succeed)',
                                    {'job': job, 'plan': fl['plan'], 'threads': fl['threads'], 'extra': fl.get('extra', [])}, True))
    ctx.traces += total_runs
    ctx.hist['schedules_run'] = total_runs
    # trace correspondence on a subset (all poly / spline jobs, others sampled)
    tj = [j for j in jobs if j['family'] in ('poly', 'spline') or rng.random() < 0.3]
    trace_checks(ctx, tj, dis)
    shared_array_writes(ctx, jobs, dis)
    model_replay(ctx, rng, dis, 12 if not ctx.thorough else 80)
    return dis


def compact(plan):
    out, i = [], 0
    while i < len(plan):
        j = i
        while j < len(plan) and plan[j] == plan[i]:
            j += 1
        out.append(f'{plan[i]}x{j - i}')
        i = j
    return ' '.join(out)


def search(ctx, hints, lean_failed):
    sub = type(ctx)(ctx.prop, 'thorough', ctx.seed + 1)
    return [d for d in correspond(sub) if d.property_level]


def replay(ctx, data):
    rp = data['replay']
    job = rp['job']
    r1, r2, k, _, _, err = serial(job)
    if err:
        return err
    refs_rp = thread_refs(job) or [r1, r1, r1]
    for plan in rp.get('plans') or [rp['plan']]:
        res, s, err = run_plan(job, plan, rp.get('threads', 2), focus=[tuple(f) for f in rp.get('focus', [])] or None, extra=rp.get('extra', ()))
        if err:
            return err
        for t, r in sorted(res.items()):
            if SC.canon(r) not in ({refs_rp[t], r1, r2} if t == 0 else {refs_rp[t]}):
                return f'schedule {compact(plan)}, thread {t}: ' + (f'{r[1]}: {r[2]}' if r[0] == 'err' else 'different result than the serial call')
    return None
