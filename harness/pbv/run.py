"""./check Cxx --tier quick|thorough [--replay f]   (see DESIGN.md section 2.3)"""
import argparse
import importlib
import json
import os
import signal
import subprocess
import sys
import time
import traceback
import warnings

from . import common
from .common import Ctx, Disagreement, log


def _timeout(signum, frame):
    log('TIMEOUT: check exceeded its time budget (exit 2, not a violation)')
    os._exit(2)


def setup():
    with common.build_lock():
        return _setup()


def _setup():
    from . import translate
    fails = translate.regenerate()
    for f in fails:
        log('translate:', f)
    p = subprocess.run(['lake', 'build', 'PbVerif', 'pbdriver'], cwd=common.LEAN)
    return p.returncode


def main(argv=None):
    ap = argparse.ArgumentParser()
    ap.add_argument('prop', nargs='?')
    ap.add_argument('--tier', default=os.environ.get('VERIF_TIER') or 'quick')
    ap.add_argument('--replay')
    ap.add_argument('--setup', action='store_true')
    args = ap.parse_args(argv)
    t_start = time.time()
    if args.setup:
        sys.exit(setup())
    prop = args.prop
    tier = args.tier if args.tier in ('quick', 'thorough') else 'quick'
    try:
        seed = int(os.environ.get('VERIF_SEED', '0') or 0)
    except ValueError:
        seed = 0
    signal.signal(signal.SIGALRM, _timeout)
    signal.alarm(int(os.environ.get('PBV_BUDGET_S', 1500 if tier == 'quick' else 3300)))
    warnings.simplefilter('ignore')
    mod = importlib.import_module(f'pbv.{prop.lower()}')
    ctx = Ctx(prop, tier, seed)

    if args.replay:
        data = json.load(open(args.replay))
        still = mod.replay(ctx, data)
        if still:
            log(f'replay: property {prop} still fails: {still}')
            log(f'VIOLATION property={prop} replay={args.replay}')
            sys.exit(1)
        log('replay: no failure on the current tree')
        sys.exit(0)

    # 1. regenerate the translated tables from /repo's working tree
    from . import translate
    with common.build_lock():        # checks may run in parallel: regeneration + build + audit are serialised
        gen_fail = translate.regenerate(prop)
        # 2./3. proofs + audit
        lean = common.lean_check(mod.PROP_MODULE, thorough=ctx.thorough)
    for g in gen_fail:
        if any(g.startswith(t) for t in getattr(mod, 'GEN_TABLES', ())):
            lean.ok = False
            lean.failed.append('translate:' + g)
    log(f'[{prop}] lean: obligations={lean.obligations} discharged={lean.discharged} ok={lean.ok} '
        f'({lean.wall:.1f}s)' + (f' failed={lean.failed}' if lean.failed else ''))
    # 4. correspondence (corpus first)
    dis = []
    try:
        if os.path.exists(common.DRIVER):
            dis = list(mod.correspond(ctx) or [])
            # thorough tier: further rounds with fresh random streams (the context's generator advances) until a round
            # reports something, the round limit is reached or about a third of the time budget is used
            rounds = 1
            max_rounds = int(os.environ.get('VERIF_THOROUGH_ROUNDS', '6')) if ctx.thorough else 1
            while not dis and rounds < max_rounds and time.time() - t_start < 1100:
                dis = list(mod.correspond(ctx) or [])
                rounds += 1
            ctx.hist['rounds'] = rounds
            ctx.notes = list(dict.fromkeys(ctx.notes))
        else:
            lean.failed.append('driver:not-built')
    except common.DriverError as e:
        lean.ok = False
        lean.failed.append(f'driver:{e}')
    log(f'[{prop}] correspondence: evaluations={ctx.evaluations} distinct_nontrivial={len(ctx.nontrivial)} '
        f'disagreements={len(dis)}')
    # 5. failing-input search when a proof or the correspondence broke
    found = [d for d in dis if d.property_level]
    model_level = [d for d in dis if not d.property_level]
    unresolved = []
    if lean.failed or model_level:
        hints = model_level
        try:
            more = list(mod.search(ctx, hints, lean.failed) or [])
        except Exception:
            traceback.print_exc()
            more = []
        found += more
        if not more:
            for f in lean.failed:
                unresolved.append(Disagreement('lean', f'unchecked:{f.split(" ")[0]}', f'proof obligation no longer checks: {f}',
                                               {'kind': 'broken-obligation', 'what': f, 'log': lean.log[-2000:]}))
            for d in model_level:
                unresolved.append(d)
    # 6. known findings
    kf = common.load_findings()
    known = {(k['property'], k['signature']): k for k in kf.get('known', [])}
    violations = 0
    seen = set()
    for d in found:
        if d.signature in seen:
            continue
        seen.add(d.signature)
        k = known.get((prop, d.signature))
        if k is not None:
            log(f'KNOWN-FINDING: property={prop} {k["what"]}')
            continue
        path = common.write_replay(prop, {'property': prop, 'stage': d.stage, 'signature': d.signature,
                                          'detail': d.detail, 'replay': d.replay})
        log(f'[{prop}] {d.stage}: {d.detail}')
        log(f'VIOLATION property={prop} replay={path}')
        violations += 1
    for d in unresolved:
        if d.signature in seen:
            continue
        seen.add(d.signature)
        path = common.write_replay(prop, {'property': prop, 'stage': d.stage, 'signature': d.signature,
                                          'detail': d.detail, 'replay': d.replay,
                                          'note': 'no input on which the real code violates the property was found; '
                                                  'the named theorem / correspondence stage no longer checks'})
        log(f'[{prop}] {d.stage}: {d.detail}')
        log(f'VIOLATION property={prop} replay={path} no-failing-input-found')
        violations += 1
    common.write_evidence(ctx, lean, list(getattr(mod, 'ASSUMPTIONS', [])), violations, getattr(mod, 'RULE', ''),
                          extra=getattr(ctx, 'extra', None))
    log(f'[{prop}] done in {time.time() - ctx.t0:.1f}s violations={violations}')
    sys.exit(1 if violations else 0)


if __name__ == '__main__':
    main()
