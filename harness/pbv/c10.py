"""C10 — answers do not depend on the linear-algebra back end or the optional dependencies."""
import glob
import json
import os
import shutil
import subprocess
import sys
import tempfile

import numpy as np

from . import methods as M
from .common import Disagreement, drive, qs, parse_qs, ROOT

PROP_MODULE = 'PbVerif.Props.C10'
RULE = ('cases = (method, parameters, data set) each executed in 16 configurations: banded_solver 1..4 x {numba importable, import '
        'blocked} x {pentapy importable, import blocked} in four worker processes (the blocked packages raise ImportError, so the real '
        'fallback code runs); all 16 baselines of a case must agree within max(1e-11, 200 x the change of the result under a relative '
        'perturbation of 1e-12 of the data and of every lam-like parameter) (= rounding error consistent with the conditioning), and no '
        'configuration may raise where another returns; the solver route and band layout recorded inside PenalizedSystem.solve are '
        'compared with the Lean dispatch model for every (method kind, solver, pentapy, diff_order); pentapy\'s row-wise storage '
        'convention is compared with the Lean denotation; non-trivial = at least two configurations took different code paths '
        '(different route or a numba-dependent kernel); distinct by canonical tuple')
ASSUMPTIONS = [
    'rounding error consistent with the conditioning is measured, per case, by a structured perturbation experiment (data and lam '
    'moved by 1e-12 relative, in every one of the 16 configurations, the largest change counts); iterative methods are run with at most 3 iterations so that rounding differences are not amplified by '
    'discontinuous reweighting',
    'import blocking through a meta-path finder is equivalent to the package not being installed (pybaselines._compat sees ImportError)',
]
FACTOR = 200.0
FLOOR = 1e-11
PERTURB = 1e-12

WHIT_STD = ['asls', 'airpls', 'arpls', 'iarpls', 'psalsa', 'derpsalsa', 'lsrpls', 'brpls']
KIND_OF = {h: 'std' for h in WHIT_STD}
KIND_OF.update(iasls='iasls', aspls='aspls', drpls='drpls')
NUMBA_DEPENDENT = {'beads', 'loess', 'fastchrom', 'std_distribution', 'corner_cutting', 'ipsa', 'ria', 'swima', 'snip', 'mpspline',
                   'mixture_model', 'irsqr', 'dietrich', 'golotvin', 'cwt_br', 'fabc', 'rubberband', 'interp_pts'}


def build_jobs(ctx, rng):
    jobs = []

    def add(name, kw, two_d=False, n=140, data='noisy', shape=(18, 15), utils=False, tag=''):
        jid = f'{"2d." if two_d else ""}{"utils." if utils else ""}{name}#{len(jobs)}{tag}'
        j = {'id': jid, 'two_d': two_d, 'name': name, 'kwargs': kw, 'seed': int(rng.integers(0, 2 ** 31)), 'data': data, 'utils': utils}
        if two_d:
            j['shape'] = list(shape)
        else:
            j['n'] = n
        jobs.append(j)

    # A. every public method
    for two_d in (False, True):
        reg = M.registry(two_d)
        for name, e in sorted(reg.items()):
            kw = M.filter_kwargs(e, M.call_kwargs(name, two_d))
            if name == 'custom_bc':
                kw = {'method': 'asls', 'method_kwargs': {'lam': 1e5, 'max_iter': 3}}
            elif name == 'optimize_extended_range':
                kw = {'method': 'asls', 'side': 'both', 'method_kwargs': {'max_iter': 3}, 'min_value': 3, 'max_value': 5}     # lam is the searched parameter
            elif name == 'collab_pls':
                kw = {'method': 'asls', 'method_kwargs': {'lam': 1e5, 'max_iter': 3}}
            elif name == 'individual_axes':
                kw = {'method': 'asls', 'method_kwargs': {'lam': 1e3, 'max_iter': 3}}
            elif name == 'adaptive_minmax':
                pass
            elif 'max_iter' in e['params']:
                kw['max_iter'] = 3
            if name == 'beads':
                kw['tol'] = 0
            if two_d and not ctx.thorough and rng.random() < 0.5 and name not in ('individual_axes', 'asls', 'pspline_asls'):
                continue
            add(name, kw, two_d=two_d, data='random_x' if (not two_d and rng.random() < 0.3) else 'noisy')
    # A2. every method with single parameters moved to non-default values (optional code paths)
    for two_d in (False, True):
        reg = M.registry(two_d)
        for name, e in sorted(reg.items()):
            if name in ('custom_bc', 'optimize_extended_range', 'collab_pls', 'individual_axes', 'adaptive_minmax', 'cwt_br'):
                continue
            base = M.filter_kwargs(e, M.call_kwargs(name, two_d))
            if 'max_iter' in e['params']:
                base['max_iter'] = 3
            svs = [kw for kw in M.single_variants(name, e, two_d, base=base) if kw.get('max_iter', 0) <= 5 and kw.get('tol', 1) != 0.0]
            k = len(svs) if ctx.thorough else min(len(svs), 1 if two_d else 5)
            picked = set(int(i) for i in (rng.choice(len(svs), k, replace=False) if svs else []))
            # parameters for which nobody listed alternative values (their variants are derived from the default: the neutral value 1,
            # half, twice) are reached by no other generator: those variants are always kept
            if not two_d:
                picked |= {i for i, kwv in enumerate(svs) if any(pn not in M.ALT_VALUES and pn not in M.STR_VALUES and not isinstance(v, bool) and base.get(pn, e['params'].get(pn)) != v
                                                               for pn, v in kwv.items() if pn in e['params'])}
            for i in sorted(picked):
                add(name, svs[int(i)], two_d=two_d, tag='.var')
    # A3. every 1-D method on other data kinds: a 1e6 offset with little noise, and data scaled by 1e-6 / 1e6 (the fall-back
    # implementations must be as accurate as the accelerated ones, not only algebraically equal)
    reg = M.registry(False)
    for name, e in sorted(reg.items()):
        if name in ('custom_bc', 'optimize_extended_range', 'collab_pls', 'adaptive_minmax', 'interp_pts'):
            continue
        kw = M.filter_kwargs(e, M.call_kwargs(name, False))
        if 'max_iter' in e['params']:
            kw['max_iter'] = 3
        if name == 'beads':
            kw['tol'] = 0
        kinds = ('offset', 'tiny', 'huge')
        for kind in (kinds if ctx.thorough else (kinds[int(rng.integers(0, 3))], 'offset')[:2 if rng.random() < 0.5 else 1]):
            add(name, kw, data=kind, tag='.' + kind)
        # ... and on x-axes of unusual magnitude (the accelerated and the fall-back paths must treat the axis alike)
        xkinds = ('xsmall', 'xhuge', 'xoffset')
        for kind in (xkinds if ctx.thorough else (xkinds[int(rng.integers(0, 3))],)):
            add(name, kw, data=kind, tag='.' + kind)
    for host in WHIT_STD + ['iasls', 'aspls', 'drpls']:
        for d in (1, 2, 3):
            if host in ('iasls', 'drpls') and d < 2:
                continue
            if not ctx.thorough and rng.random() < 0.4 and d != 2:
                continue
            lam = float(10.0 ** int(rng.integers(1, 7)))
            kw = {'lam': lam, 'diff_order': d, 'max_iter': int(rng.integers(1, 4))}
            if host == 'brpls':
                kw['max_iter_2'] = 2
            add(host, kw, n=int(rng.choice([9, 40, 140])), tag=f'.d{d}')
    # C. penalised splines: degree / diff_order
    for host in ('pspline_asls', 'pspline_arpls', 'pspline_iasls', 'pspline_drpls', 'pspline_aspls', 'pspline_mpls', 'mixture_model', 'irsqr'):
        for _ in range(2 if ctx.thorough else 1):
            deg = int(rng.integers(1, 5))
            d = int(rng.integers(2, 4))
            kw = {'lam': float(10.0 ** int(rng.integers(0, 5))), 'diff_order': d, 'spline_degree': deg, 'num_knots': int(rng.integers(6, 20))}
            if host != 'pspline_mpls':
                kw['max_iter'] = 2
            else:
                kw['half_window'] = 4
            add(host, kw, data='random_x' if rng.random() < 0.5 else 'noisy')
    # D. beads: banded (numba) versus sparse (fallback) implementation
    for ft in (1, 2):
        for cf in (1, 2):
            for (e0, e1) in ((1e-6, 1e-6), (0.05, 1e-3), (0.2, 1e-3), (1e-3, 0.1)):
                if not ctx.thorough and rng.random() < 0.45:
                    continue
                kw = {'filter_type': ft, 'cost_function': cf, 'eps_0': e0, 'eps_1': e1, 'max_iter': int(rng.integers(1, 4)), 'tol': 0,
                      'freq_cutoff': float(rng.choice([0.005, 0.02])), 'lam_0': float(rng.choice([0.5, 1.0])), 'lam_1': float(rng.choice([0.5, 2.0])),
                      'lam_2': float(rng.choice([0.4, 1.0])), 'asymmetry': float(rng.choice([1.0, 3.0, 6.0])),
                      'fit_parabola': bool(rng.random() < 0.5)}
                if rng.random() < 0.4:
                    kw['smooth_half_window'] = 2
                add('beads', kw, data='lownoise', n=int(rng.choice([120, 200])), tag=f'.ft{ft}')
    # E. loess, rolling std, Bezier, interpolation kernels (compiled with numba, plain Python without)
    for _ in range(4 if ctx.thorough else 2):
        add('loess', {'fraction': float(rng.choice([0.2, 0.4, 0.7])), 'poly_order': int(rng.integers(0, 4)), 'max_iter': int(rng.integers(0, 4)),
                      'use_threshold': bool(rng.random() < 0.4), 'conserve_memory': bool(rng.random() < 0.5),
                      'delta': float(rng.choice([0.0, 2.0]))}, data='random_x' if rng.random() < 0.5 else 'noisy', n=90)
    for name, kw in (('fastchrom', {'half_window': 5}), ('std_distribution', {'half_window': 6}), ('corner_cutting', {'max_iter': 5}),
                     ('swima', {}), ('ipsa', {'half_window': 5}), ('ria', {'half_window': 5}), ('cwt_br', {}), ('jbcd', {'half_window': 4, 'max_iter': 3}),
                     ('fabc', {'lam': 1e4}), ('mpls', {'half_window': 4, 'lam': 1e4}), ('rubberband', {'segments': 3, 'lam': 1e2}),
                     ('rubberband', {'segments': 1, 'smooth_half_window': 3}), ('dietrich', {'smooth_half_window': 4}),
                     ('snip', {'max_half_window': 8, 'smooth_half_window': 2, 'decreasing': True}),
                     ('mpspline', {'half_window': 4, 'num_knots': 15}), ('peak_filling', {'half_window': 3, 'sections': 8})):
        add(name, kw, data='random_x' if rng.random() < 0.3 else 'noisy')
    # utils
    for d in (1, 2, 3):
        add('whittaker_smooth', {'lam': float(10.0 ** int(rng.integers(0, 6))), 'diff_order': d}, utils=True)
    add('pspline_smooth', {'lam': 10.0, 'num_knots': 12, 'spline_degree': 3, 'diff_order': 2}, utils=True, data='random_x')
    # 2-D extras
    add('individual_axes', {'method': 'pspline_asls', 'method_kwargs': {'lam': 1e2, 'num_knots': 6, 'max_iter': 2}}, two_d=True)
    add('individual_axes', {'method': 'arpls', 'axes': 0, 'method_kwargs': {'lam': 1e3, 'max_iter': 2}}, two_d=True)
    # perturbed twins (sensitivity of the result to a relative change of 1e-12 of data and lam)
    twins = [dict(j, id=j['id'] + '~p', perturb=PERTURB) for j in jobs]
    return jobs, twins


def run_workers(jobs, tmp):
    jf = os.path.join(tmp, 'jobs.json')
    json.dump(jobs, open(jf, 'w'))
    env = dict(os.environ, PYTHONPATH=os.pathsep.join([os.path.join(ROOT, 'harness'), os.environ.get('PBV_REPO', '/repo')]),
               NUMBA_CACHE_DIR=os.path.join(tmp, 'nbcache'))
    procs = {}
    for bn in (0, 1):
        for bp in (0, 1):
            out = os.path.join(tmp, f'out_{bn}{bp}.npz')
            procs[(bn, bp)] = (subprocess.Popen([sys.executable, '-m', 'pbv.c10_worker', str(bn), str(bp), jf, out], env=env,
                                                stdout=subprocess.PIPE, stderr=subprocess.STDOUT), out)
    res, errs, routes, fails = {}, {}, {}, {}
    for (bn, bp), (p, out) in procs.items():
        txt = p.communicate(timeout=2400)[0].decode(errors='replace')
        if p.returncode != 0 or not os.path.exists(out):
            fails[(bn, bp)] = txt[-2000:]
            continue
        d = np.load(out)
        for k in d.files:
            if not k.startswith('__'):
                res[(k, bn, bp)] = d[k]
        for k, v in json.loads(str(d['__errors__'])).items():
            errs[(k, bn, bp)] = v
        for k, v in json.loads(str(d['__routes__'])).items():
            routes[(k, bn, bp)] = v
    return res, errs, routes, fails


def env_name(bn, bp):
    return f'{"no-" if bn else ""}numba/{"no-" if bp else ""}pentapy'


def compare(ctx, jobs, res, errs, routes, dis, label=''):
    worst_ratio = 0.0
    top = []
    for j in jobs:
        jid = j['id']
        cfgs = [(s, bn, bp) for s in (1, 2, 3, 4) for bn in (0, 1) for bp in (0, 1)]
        got = {c: res.get((f'{jid}|{c[0]}', c[1], c[2])) for c in cfgs}
        bad = {c: errs.get((f'{jid}|{c[0]}', c[1], c[2])) for c in cfgs}
        arrs = {c: v for c, v in got.items() if v is not None}
        raised = {c: v for c, v in bad.items() if v is not None}
        rts = {tuple(routes.get((f'{jid}|{c[0]}', c[1], c[2]), ())) for c in cfgs}
        nontrivial = len(rts) > 1 or j['name'] in NUMBA_DEPENDENT or 'pspline' in j['name']
        ctx.case((jid.split('#')[0], json.dumps(j['kwargs'], sort_keys=True), j.get('data'), j.get('n', tuple(j.get('shape', ())))), nontrivial=nontrivial,
                 sample={'method': jid.split('#')[0], 'kwargs': j['kwargs'], 'configurations': 16, 'routes': sorted({r.split(' ')[0] for t in rts for r in t})}
                 if len(ctx.samples) < 6 and len(rts) > 1 else None)
        ctx.count('family:' + ('2d' if j['two_d'] else 'utils' if j.get('utils') else j['name'] if j['name'] in ('beads', 'loess') else
                               'whittaker' if j['name'] in KIND_OF else 'spline' if ('pspline' in j['name'] or j['name'] in ('mixture_model', 'irsqr')) else 'other'))
        meta = {'job': j, 'label': label}
        if raised and arrs:
            c0 = sorted(raised)[0]
            dis.append(Disagreement('c10.raises', f'{jid.split("#")[0]}:raises', f'{jid.split("#")[0]}({j["kwargs"]}) raises {raised[c0]} with banded_solver={c0[0]}, '
                                    f'{env_name(c0[1], c0[2])} but returns a baseline in {len(arrs)} other configurations', dict(meta, config=list(c0)), True))
            continue
        if not arrs:
            ctx.count('raises-everywhere')
            ctx.notes.append(f'{jid.split("#")[0]}({j["kwargs"]}) raises in every configuration: {sorted(set(raised.values()))[0][:120]}')
            continue
        ref_c = (3, 0, 0) if (3, 0, 0) in arrs else sorted(arrs)[0]
        ref = arrs[ref_c]
        if not np.all(np.isfinite(ref)):
            ctx.count('nonfinite-reference')
            if any(np.all(np.isfinite(a)) for a in arrs.values()):
                dis.append(Disagreement('c10.finite', f'{jid.split("#")[0]}:nonfinite', f'{jid.split("#")[0]}({j["kwargs"]}): non-finite baseline in some configurations only',
                                        meta, True))
            continue
        scale = float(np.max(np.abs(ref))) or 1.0
        sens = 0.0
        for (sv, bn, bp) in cfgs:
            a, b = res.get((f'{jid}~p|{sv}', bn, bp)), res.get((f'{jid}|{sv}', bn, bp))
            if a is not None and b is not None and a.shape == b.shape and np.all(np.isfinite(a)):
                sens = max(sens, float(np.max(np.abs(a - b))))
        tol = max(FLOOR * scale, FACTOR * sens)
        for c, a in sorted(arrs.items()):
            if a.shape != ref.shape:
                dis.append(Disagreement('c10.shape', f'{jid.split("#")[0]}:shape', f'{jid.split("#")[0]}: shape {a.shape} vs {ref.shape}', dict(meta, config=list(c)), True))
                break
            diff = float(np.max(np.abs(a - ref))) if np.all(np.isfinite(a)) else float('inf')
            worst_ratio = max(worst_ratio, diff / tol)
            top.append((diff / tol, jid.split('#')[0]))
            if diff > tol:
                dis.append(Disagreement('c10.diff', f'{jid.split("#")[0]}:backend', f'{jid.split("#")[0]}({j["kwargs"]}, {j.get("data")} data): banded_solver={c[0]}, '
                                        f'{env_name(c[1], c[2])} differs from banded_solver={ref_c[0]}, {env_name(ref_c[1], ref_c[2])} by {diff / scale:.3g} (relative); '
                                        f'the result moves by {sens / scale:.3g} under a 1e-12 relative perturbation (allowed {tol / scale:.3g})',
                                        dict(meta, config=list(c), reference=list(ref_c), diff=diff / scale, allowed=tol / scale), True))
                break
    ctx.notes.append('largest difference/allowed: ' + ', '.join(f'{n} {r:.2g}' for r, n in sorted(top, reverse=True)[:6]))
    return worst_ratio


def route_check(ctx, jobs, routes, dis):
    lines, metas = [], []
    for j in jobs:
        kind = KIND_OF.get(j['name'])
        if kind is None or j['two_d'] or j.get('utils'):
            continue
        d = j['kwargs'].get('diff_order', 1 if j['name'] in ('arpls_', ) else 2)
        if j['name'] in ('iasls', 'drpls', 'aspls') and 'diff_order' not in j['kwargs']:
            d = 2
        for s in (1, 2, 3, 4):
            for bn in (0, 1):
                for bp in (0, 1):
                    r = routes.get((f'{j["id"]}|{s}', bn, bp))
                    if not r:
                        continue
                    lines.append(f'c10.route {kind} {s} {0 if bp else 1} {d}')
                    metas.append((j, s, bn, bp, r, d))
    if not lines:
        return
    preds = drive(lines)
    ctx.traces += len(lines)
    for (j, s, bn, bp, r, d), pr in zip(metas, preds):
        route, lower, rev = pr.split(' ')
        nrows = (d + 1) if lower == '1' else (2 * d + 1)
        # drpls reverses by hand on the pentapy branch; its `reversed` flag follows reverse_penalty()
        want_rev = rev if not (KIND_OF[j['name']] == 'drpls' and route.startswith('pentapy')) else '1'
        want = f'{route} {lower} {want_rev} {d} {nrows}'
        ctx.count('route:' + route)
        if list(r) != [want]:
            dis.append(Disagreement('c10.route', f'model:route:{j["name"]}', f'{j["name"]} (diff_order={d}, banded_solver={s}, {env_name(bn, bp)}): PenalizedSystem.solve '
                                    f'dispatched as {list(r)} but the Lean dispatch model gives [{want}] (route lower reversed diff_order rows)',
                                    {'job': j, 'config': [s, bn, bp]}, False))


def rowwise_check(ctx, rng, dis):
    try:
        import pentapy
        from pentapy import tools
    except ImportError:
        ctx.notes.append('pentapy not importable in the harness process: storage-convention tie skipped')
        return
    lines, metas = [], []
    for n in (5, 6, 9):
        A = np.zeros((n, n))
        for k in range(-2, 3):
            A += np.diag(np.round(rng.uniform(1, 9, n - abs(k))), k)
        A += 40 * np.eye(n)
        flat = tools.create_banded(A, col_wise=False)
        lines.append(f'c10.rowwise 2 {n} {";".join(qs(r) for r in flat)}')
        metas.append((A, flat))
    res = drive(lines)
    ctx.traces += len(lines)
    for (A, flat), r in zip(metas, res):
        dense = np.array([[float(v) for v in parse_qs(row)] for row in r.split(';')])
        ctx.case(('rowwise', A.shape[0]))
        if not np.array_equal(dense, A):
            dis.append(Disagreement('c10.rowwise', 'model:rowwise', 'pentapy\'s row-wise flattened storage differs from the Lean denotation denRowwise',
                                    {'A': A.tolist(), 'flat': flat.tolist()}, False))
        b = A @ np.arange(1.0, A.shape[0] + 1)
        for sv in (1, 2):
            x = pentapy.solve(flat, b, is_flat=True, index_row_wise=True, solver=sv)
            if not np.allclose(x, np.arange(1.0, A.shape[0] + 1), rtol=1e-10):
                dis.append(Disagreement('c10.rowwise', 'model:pentapy-solve', f'pentapy.solve(solver={sv}) on the row-wise array does not solve the denoted system',
                                        {'A': A.tolist()}, False))


def bandmul_check(ctx, rng, dis):
    """`_banded_dot_banded` (the loops the banded beads implementation relies on) against the Lean model, exactly, on integer bands"""
    from pybaselines.misc import _banded_dot_banded
    lines, metas = [], []
    for _ in range(12 if not ctx.thorough else 60):
        al, au, bl, bu = (int(v) for v in rng.integers(0, 4, 4))
        n = int(rng.integers(max(al + bl, au + bu) + 1, max(al + bl, au + bu) + 9))
        a = np.round(rng.uniform(-9, 9, (al + au + 1, n)))
        b = np.round(rng.uniform(-9, 9, (bl + bu + 1, n)))
        real = _banded_dot_banded(a, b, (al, au), (bl, bu), (n, n), (n, n))
        lines.append(f'c10.bandmul {al} {au} {bl} {bu} {n} {";".join(qs(r) for r in a)} {";".join(qs(r) for r in b)}')
        metas.append((al, au, bl, bu, n, a, b, real))
    res = drive(lines)
    ctx.traces += len(lines)
    for (al, au, bl, bu, n, a, b, real), r in zip(metas, res):
        model = np.array([[float(v) for v in parse_qs(row)] for row in r.split(';')])
        ctx.case(('bandmul', al, au, bl, bu, n), nontrivial=True)
        ctx.count('bandmul')
        # entries of the real array that correspond to matrix positions (the corners outside the matrix are never written by either)
        if model.shape != real.shape or not np.array_equal(model, real):
            dis.append(Disagreement('c10.bandmul', 'model:bandmul', f'_banded_dot_banded with (lower, upper) = ({al}, {au}) x ({bl}, {bu}), n = {n}: differs from the Lean '
                                    f'model of the three accumulation loops', {'al': al, 'au': au, 'bl': bl, 'bu': bu, 'n': n, 'a': a.tolist(), 'b': b.tolist()}, False))
            dense = lambda t, l, u: sum(np.diag(t[u - k, max(0, k):n + min(0, k)], k) for k in range(-l, u + 1))      # noqa: E731
            A, B = dense(a, al, au), dense(b, bl, bu)
            C = dense(real, min(al + bl, n - 1), min(au + bu, n - 1))
            if not np.array_equal(C, A @ B):
                dis.append(Disagreement('c10.bandmul', 'bandmul:product', f'_banded_dot_banded with (lower, upper) = ({al}, {au}) x ({bl}, {bu}), n = {n} is not the matrix '
                                        f'product', {'al': al, 'au': au, 'bl': bl, 'bu': bu, 'n': n, 'a': a.tolist(), 'b': b.tolist()}, True))


def correspond(ctx):
    rng = ctx.np_rng()
    dis = []
    jobs, twins = build_jobs(ctx, rng)
    for f in sorted(glob.glob(os.path.join(ROOT, 'corpus', 'C10_*.json'))):
        d = json.load(open(f))
        j = dict(d['replay']['job'], id=f'{d["replay"]["job"]["id"].split("#")[0]}#{len(jobs)}.corpus')
        jobs.append(j)
        twins.append(dict(j, id=j['id'] + '~p', perturb=PERTURB))
    tmp = tempfile.mkdtemp(prefix='pbv_c10_')
    try:
        res, errs, routes, fails = run_workers(jobs + twins, tmp)
    finally:
        shutil.rmtree(tmp, ignore_errors=True)
    for (bn, bp), txt in fails.items():
        dis.append(Disagreement('c10.worker', f'worker:{bn}{bp}', f'the worker process for {env_name(bn, bp)} failed: {txt[-600:]}', {'env': [bn, bp]}, True))
    if fails:
        return dis
    worst = compare(ctx, jobs, res, errs, routes, dis)
    route_check(ctx, jobs, routes, dis)
    rowwise_check(ctx, rng, dis)
    bandmul_check(ctx, rng, dis)
    ctx.traces += len(jobs) * 16
    ctx.notes.append(f'worst (difference between configurations) / (allowed) = {worst:.3g}')
    ctx.hist['worst_ratio_x1000'] = int(worst * 1000)
    return dis


def search(ctx, hints, lean_failed):
    sub = type(ctx)(ctx.prop, 'thorough', ctx.seed + 1)
    return [d for d in correspond(sub) if d.property_level]


def replay(ctx, data):
    return None
