"""C18 — padding and kernel helpers preserve the data and its length."""
import glob
import json
import os

import numpy as np

from .common import Disagreement, drive, q, qs, parse_qs, ROOT

PROP_MODULE = 'PbVerif.Props.C18'
RULE = ('cases = (function, N or shape, pad length, mode, extrapolate window(s), kernel length); model comparison in exact rationals '
        'for the extrapolate mode and padded_convolve; direct checks of length/interior/linear continuation/constant preservation/'
        'kernel laws on the real functions; non-trivial = pad > 0 and N >= 2; distinct by canonical tuple')
ASSUMPTIONS = [
    'np.pad implements the NumPy modes (its length/interior contract is checked, not proved)',
    'np.polynomial.Polynomial.fit / np.linalg.pinv compute the least-squares line (compared with the exact model to 1e-9 relative)',
    'scipy.signal.convolve(mode="same") is the centred full convolution (compared with the exact index model)',
]
NP_MODES = ['edge', 'reflect', 'symmetric', 'constant', 'linear_ramp', 'maximum', 'mean', 'median', 'minimum', 'wrap']


def mat(a):
    return ';'.join(qs(r) for r in a)


def close(a, b, tol=1e-9):
    a, b = np.asarray(a, float), np.asarray(b, float)
    return a.shape == b.shape and bool(np.allclose(a, b, rtol=0, atol=tol * max(1.0, float(np.max(np.abs(b))) if b.size else 1.0)))


def _spec_forms(rng, m, n):
    """(pad argument, window argument, pad ints, window ints or None, label) for pad_edges2d(..., 'extrapolate'):
    pad_length scalar / one item / pair / four values, windows default / scalar / pair / four / nested 2x2,
    with windows from 1 to beyond the data, plus the malformed ones (0, negative, length 3)."""
    wvals = sorted({1, 2, 3, m, n, m + 2, n + 3})
    forms = []
    pick = lambda vals: int(vals[int(rng.integers(0, len(vals)))])
    pvals = [1, 2, 3, m, n + 1, 2 * n]
    for _ in range(4):
        p, q_ = pick(pvals), pick(pvals)
        pads = [(p, [p], 'scalar'), (np.int64(p), [p], 'np scalar'), ([p], [p], 'one item'), ((p, q_), [p, q_], 'pair'),
                (np.array([p, q_]), [p, q_], 'pair array'), ([p, p, q_, q_], [p, p, q_, q_], 'four equal pairs'),
                ([p, pick(pvals), q_, pick(pvals)], None, 'four')]
        for parg, pints, plabel in pads:
            if pints is None:
                pints = [int(v) for v in parg]
            w1, w2, w3, w4 = pick(wvals), pick(wvals), pick(wvals), pick(wvals)
            wins = [(None, None, 'default'), (w1, [w1], 'scalar'), ((w1, w3), [w1, w3], 'pair'),
                    ([w1, w2, w3, w4], [w1, w2, w3, w4], 'four'), ([[w1, w2], [w3, w4]], [w1, w2, w3, w4], 'nested')]
            sel = wins if plabel in ('pair', 'scalar') else [wins[int(rng.integers(0, len(wins)))]]
            for warg, wints, wlabel in sel:
                forms.append((parg, warg, pints, wints, f'pad {plabel}, window {wlabel}'))
    p = pick(pvals)
    for parg, pints in [(0, [0]), ((p, 0), [p, 0]), ((0, p), [0, p]), ((-1, p), [-1, p]), ((p, -2), [p, -2]), ((0, -1), [0, -1]),
                        ([p, p, p], [p, p, p]), ([p, 0, p, p], [p, 0, p, p]), ([p, p, p, -1], [p, p, p, -1]), ([p] * 5, [p] * 5)]:
        forms.append((parg, None, pints, None, 'malformed pad'))
        forms.append((parg, 2, pints, [2], 'malformed pad'))
    for warg, wints in [(0, [0]), ((2, 0), [2, 0]), ((-1, 2), [-1, 2]), ([2, 2, 2], [2, 2, 2]), ([1, 2, 3, 0], [1, 2, 3, 0]),
                        ([2] * 5, [2] * 5)]:
        forms.append(((p, 1), warg, [p, 1], wints, 'malformed window'))
    return forms


def _pad2d_outcome(utils, Y, parg, warg):
    """'ok' + array, or the name of the documented exception; anything else propagates"""
    try:
        return 'ok', utils.pad_edges2d(Y, parg, 'extrapolate', extrapolate_window=warg)
    except NotImplementedError:
        return 'NotImplementedError', None
    except ValueError:
        return 'ValueError', None


def _jsonable(v):
    if v is None:
        return None
    return np.asarray(v).tolist()



def _rows1d(utils, Y, pr_, pc_, w4):
    """rows pr..pr+M-1 of the 2-D result are pad_edges of the rows (windows truncated to the row, one point = constant),
    columns pc..pc+N-1 are pad_edges of the columns"""
    m, n = Y.shape
    out = utils.pad_edges2d(Y, (pr_, pc_), 'extrapolate', extrapolate_window=[w4[:2], w4[2:]])
    tol = 1e-8 * (1 + pr_ + pc_)
    if out.shape != (m + 2 * pr_, n + 2 * pc_):
        return f'pad_edges2d({m}x{n}, pad={pr_, pc_}, windows={w4}) has shape {out.shape}'
    for i in range(m):
        want = utils.pad_edges(Y[i], pc_, 'extrapolate', extrapolate_window=[min(w4[2], n), min(w4[3], n)])
        if not close(out[pr_ + i], want, tol):
            return (f'row {pr_ + i} of pad_edges2d({m}x{n}, pad={pr_, pc_}, windows={w4}) is not pad_edges of row {i}: '
                    f'max diff {float(np.max(np.abs(out[pr_ + i] - want))):.3g}')
    for j in range(n):
        want = utils.pad_edges(Y[:, j], pr_, 'extrapolate', extrapolate_window=[min(w4[0], m), min(w4[1], m)])
        if not close(out[:, pc_ + j], want, tol):
            return (f'column {pc_ + j} of pad_edges2d({m}x{n}, pad={pr_, pc_}, windows={w4}) is not pad_edges of column {j}: '
                    f'max diff {float(np.max(np.abs(out[:, pc_ + j] - want))):.3g}')
    # pad2d_all_rows_are_1d / extrap2d_corner_orders_agree: the whole result, corners included, is "columns, then rows"
    # and "rows, then columns" of the 1-D function
    wr_, wc_ = [min(w4[0], m), min(w4[1], m)], [min(w4[2], n), min(w4[3], n)]
    cols = np.array([utils.pad_edges(Y[:, j], pr_, 'extrapolate', extrapolate_window=wr_) for j in range(n)]).T
    cr = np.array([utils.pad_edges(cols[k], pc_, 'extrapolate', extrapolate_window=wc_) for k in range(m + 2 * pr_)])
    rows = np.array([utils.pad_edges(Y[i], pc_, 'extrapolate', extrapolate_window=wc_) for i in range(m)])
    rc = np.array([utils.pad_edges(rows[:, l], pr_, 'extrapolate', extrapolate_window=wr_) for l in range(n + 2 * pc_)]).T
    for name, full in (('columns then rows', cr), ('rows then columns', rc)):
        if not close(out, full, 1e-7 * (1 + pr_ + pc_) ** 2):
            return (f'pad_edges2d({m}x{n}, pad={pr_, pc_}, windows={w4}) is not pad_edges applied to {name} (corners): '
                    f'max diff {float(np.max(np.abs(out - full))):.3g}')
    return None


def correspond(ctx):
    from pybaselines import utils
    rng = ctx.np_rng()
    dis = []
    for f in sorted(glob.glob(os.path.join(ROOT, 'corpus', 'C18_*.json'))):
        d = json.load(open(f))
        r = replay(ctx, d)
        ctx.case(('corpus', os.path.basename(f)))
        if r:
            dis.append(Disagreement('c18.corpus', d['signature'], f'corpus {os.path.basename(f)}: {r}', d['replay'], True))
    lines, exp, metas = [], [], []
    sizes = [2, 3, 4, 7, 12] + ([40] if ctx.thorough else [])
    # ---- 1-D pad_edges
    for n in sizes:
        for pad in sorted({0, 1, 2, n, 3 * n}):
            y = rng.integers(-9, 10, n).astype(float)
            for mode in NP_MODES:
                if mode in ('reflect',) and n < 2:
                    continue
                try:
                    out = utils.pad_edges(y, pad, mode)
                except Exception as e:
                    ctx.count('np.pad raises:' + mode)
                    continue
                ctx.case(('pad', n, pad, mode), nontrivial=pad > 0)
                ctx.count('mode:' + mode)
                if len(out) != n + 2 * pad or not np.array_equal(out[pad:pad + n], y):
                    dis.append(Disagreement('c18.pad', f'pad:{mode}', f'pad_edges(N={n}, pad={pad}, mode={mode}) changes the length or the interior',
                                            {'fn': 'pad_edges', 'y': y.tolist(), 'pad': pad, 'mode': mode}, True))
            wins = sorted({1, 2, 3, max(1, pad), n, n + 2})
            for wl in wins:
                for wr in (wins if ctx.thorough else [wl, wins[int(rng.integers(0, len(wins)))]]):
                    meta = {'fn': 'pad_edges', 'y': y.tolist(), 'pad': pad, 'mode': 'extrapolate', 'window': [wl, wr]}
                    try:
                        out = utils.pad_edges(y, pad, 'extrapolate', extrapolate_window=[wl, wr])
                    except Exception as e:
                        dis.append(Disagreement('c18.pad', 'pad:extrapolate:raises', f'pad_edges raised {type(e).__name__}: {e}', meta, True))
                        continue
                    ctx.case(('padx', n, pad, wl, wr, tuple(y.tolist())), nontrivial=pad > 0,
                             sample={'fn': 'pad_edges', 'N': n, 'pad': pad, 'window': [wl, wr]} if n == 4 and pad == 2 else None)
                    ctx.count('mode:extrapolate')
                    if len(out) != n + 2 * pad or not np.array_equal(out[pad:pad + n], y):
                        dis.append(Disagreement('c18.pad', 'pad:extrapolate', f'pad_edges(N={n}, pad={pad}, extrapolate, window={wl, wr}) changes length/interior',
                                                meta, True))
                    lines.append(f'c18.pad {pad} {wl} {wr} {qs(y)}')
                    exp.append(out)
                    metas.append(('pad', meta))
                    # the same (integer-valued) numbers in another container / dtype are padded with the same values
                    for dlabel, yv in (('int64', y.astype(np.int64)), ('int32', y.astype(np.int32)), ('list of int', [int(v) for v in y]),
                                       ('float32', y.astype(np.float32))):
                        try:
                            outv = np.asarray(utils.pad_edges(yv, pad, 'extrapolate', extrapolate_window=[wl, wr]), dtype=float)
                        except Exception as e:
                            dis.append(Disagreement('c18.pad', 'pad:extrapolate:dtype:raises', f'pad_edges raised {type(e).__name__}: {e} for {dlabel} data '
                                                    f'(float64 data are padded)', dict(meta, dtype=dlabel), True))
                            continue
                        ctx.count('dtype:' + dlabel)
                        tolv = 1e-9 if dlabel != 'float32' else 1e-4
                        if outv.shape != out.shape or not np.allclose(outv, out, rtol=tolv, atol=tolv * (1 + float(np.max(np.abs(out))))):
                            dis.append(Disagreement('c18.pad', 'pad:extrapolate:dtype', f'pad_edges(N={n}, pad={pad}, extrapolate, window={wl, wr}): {dlabel} data are '
                                                    f'padded differently from the same numbers as float64 (max diff '
                                                    f'{float(np.max(np.abs(outv - out))) if outv.shape == out.shape else "shape"})', dict(meta, dtype=dlabel), True))
                    # exactly linear data is continued exactly
                    a, b = float(rng.integers(-5, 6)), float(rng.integers(-4, 5)) / 2
                    yl = a + b * np.arange(n)
                    outl = utils.pad_edges(yl, pad, 'extrapolate', extrapolate_window=[wl, wr])
                    want = a + b * (np.arange(n + 2 * pad) - pad)
                    if wl == 1:
                        want[:pad] = yl[0]
                    if wr == 1:
                        want[pad + n:] = yl[-1]
                    if not close(outl, want, 1e-9 * (1 + pad)):
                        dis.append(Disagreement('c18.linear', 'linear:1d', f'pad_edges does not continue linear data exactly (N={n}, pad={pad}, '
                                                f'window={wl, wr}): max err {float(np.max(np.abs(outl - want))):.3g}',
                                                dict(meta, y=yl.tolist(), check='linear'), True))
    # ---- 2-D
    for (m, n) in [(2, 3), (3, 4), (5, 2), (4, 4)] + ([(9, 7)] if ctx.thorough else []):
        Y = rng.integers(-9, 10, (m, n)).astype(float)
        for (pr, pc) in [(1, 1), (2, 3), (m + 1, 1), (1, 2 * n)]:
            for mode in ('edge', 'reflect', 'constant', 'symmetric'):
                try:
                    out = utils.pad_edges2d(Y, [pr, pc], mode)
                except Exception:
                    continue
                ctx.case(('pad2d', m, n, pr, pc, mode), nontrivial=True)
                if out.shape != (m + 2 * pr, n + 2 * pc) or not np.array_equal(out[pr:pr + m, pc:pc + n], Y):
                    dis.append(Disagreement('c18.pad2d', f'pad2d:{mode}', f'pad_edges2d({m}x{n}, pad={pr, pc}, {mode}) changes shape/interior',
                                            {'fn': 'pad_edges2d', 'Y': Y.tolist(), 'pad': [pr, pc], 'mode': mode}, True))
            for ws in [None, (2, 2, 2, 2), (3, 2, 2, 4), (m, m, n, n), (1, 2, 2, 2), (2, 2, 1, 1), (1, 1, 1, 1)]:
                if ws is None:
                    w4 = (pr, pr, pc, pc)
                    kw = {}
                else:
                    w4 = ws
                    kw = {'extrapolate_window': [[ws[0], ws[1]], [ws[2], ws[3]]]}
                meta = {'fn': 'pad_edges2d', 'Y': Y.tolist(), 'pad': [pr, pc], 'mode': 'extrapolate', 'window': list(w4), 'default_window': ws is None}
                try:
                    out = utils.pad_edges2d(Y, [pr, pc], 'extrapolate', **kw)
                except Exception as e:
                    dis.append(Disagreement('c18.pad2d', 'pad2d:extrapolate:raises', f'pad_edges2d raised {type(e).__name__}: {e}', meta, True))
                    continue
                ctx.case(('pad2dx', m, n, pr, pc, w4, tuple(Y.ravel().tolist())), nontrivial=True,
                         sample={'fn': 'pad_edges2d', 'shape': [m, n], 'pad': [pr, pc], 'window': list(w4)} if (m, n) == (3, 4) and pr == 2 else None)
                ctx.count('2d:extrapolate' + (':window1' if 1 in w4 else ''))
                if out.shape != (m + 2 * pr, n + 2 * pc) or not np.array_equal(out[pr:pr + m, pc:pc + n], Y):
                    dis.append(Disagreement('c18.pad2d', 'pad2d:extrapolate', 'pad_edges2d (extrapolate) changes shape/interior', meta, True))
                lines.append(f'c18.pad2d {pr} {pc} {w4[0]} {w4[1]} {w4[2]} {w4[3]} {mat(Y)}')
                exp.append(out)
                metas.append(('pad2d', meta))
                # planar data is continued exactly (window 1: the edge row/column is repeated)
                a, b, c = float(rng.integers(-5, 6)), float(rng.integers(-4, 5)) / 2, float(rng.integers(-4, 5)) / 4
                ii, jj = np.meshgrid(np.arange(m), np.arange(n), indexing='ij')
                Yp = a + b * ii + c * jj
                outp = utils.pad_edges2d(Yp, [pr, pc], 'extrapolate', **kw)
                I, J = np.meshgrid(np.arange(m + 2 * pr) - pr, np.arange(n + 2 * pc) - pc, indexing='ij')
                if w4[0] == 1:
                    I = np.maximum(I, 0)
                if w4[1] == 1:
                    I = np.minimum(I, m - 1)
                if w4[2] == 1:
                    J = np.maximum(J, 0)
                if w4[3] == 1:
                    J = np.minimum(J, n - 1)
                wantp = a + b * I + c * J
                if not close(outp, wantp, 1e-8 * (1 + pr + pc)):
                    dis.append(Disagreement('c18.linear', 'linear:2d' + (':window1' if 1 in w4 else ''),
                                            f'pad_edges2d does not continue planar data exactly ({m}x{n}, pad={pr, pc}, windows={w4}'
                                            f'{" (default)" if ws is None else ""}): '
                                            + (f'max err {float(np.max(np.abs(outp - wantp))):.3g}' if outp.shape == wantp.shape else f'shape {outp.shape}'),
                                            dict(meta, Y=Yp.tolist(), check='planar'), True))
    # ---- 2-D: the argument forms of pad_edges2d (scalar / pair / four-valued pad_length and windows), single-row and
    # single-column data, windows beyond the data, and the malformed forms (which raise), against `padEdges2dExtrap`
    for (m, n) in [(1, 1), (1, 4), (3, 1), (2, 2), (2, 3), (4, 3)] + ([(6, 5), (1, 9)] if ctx.thorough else []):
        Y = rng.integers(-9, 10, (m, n)).astype(float)
        for parg, warg, pints, wints, label in _spec_forms(rng, m, n):
            meta = {'fn': 'pad_edges2d', 'check': 'spec', 'Y': Y.tolist(), 'pad_arg': _jsonable(parg), 'window_arg': _jsonable(warg),
                    'pad_ints': pints, 'window_ints': wints, 'form': label}
            try:
                kind, out = _pad2d_outcome(utils, Y, parg, warg)
            except Exception as e:
                dis.append(Disagreement('c18.pad2d', 'pad2d:spec:raises', f'pad_edges2d({m}x{n}, {label}, pad_length={pints}, extrapolate_window={wints}) '
                                        f'raised {type(e).__name__}: {e}', meta, True))
                continue
            ctx.case(('pad2dspec', m, n, label, tuple(pints), tuple(wints or ()), tuple(Y.ravel().tolist())), nontrivial=True,
                     sample={'fn': 'pad_edges2d', 'shape': [m, n], 'pad_length': pints, 'extrapolate_window': wints, 'form': label}
                     if (m, n) == (1, 4) and kind == 'ok' and label.startswith('pad pair') else None)
            ctx.count('2d:spec:' + kind)
            ctx.count('2d:form:' + label)
            if m == 1 or n == 1:
                ctx.count('2d:single row/column')
            if len(pints) == 4 and (pints[0] != pints[1] or pints[2] != pints[3]) and kind == 'ok':
                ctx.count('2d:four-valued pad_length with unequal sides (second and fourth entries ignored)')
            if kind == 'ok' and len(pints) <= 2:
                pr_, pc_ = pints[0], pints[-1]
                if out.shape != (m + 2 * pr_, n + 2 * pc_) or not np.array_equal(out[pr_:pr_ + m, pc_:pc_ + n], Y):
                    dis.append(Disagreement('c18.pad2d', 'pad2d:extrapolate', f'pad_edges2d({m}x{n}, {label}, pad_length={pints}) changes shape/interior '
                                            f'(shape {out.shape})', meta, True))
            lines.append(f'c18.pad2dspec {",".join(str(v) for v in pints)} {"none" if wints is None else ",".join(str(v) for v in wints)} {mat(Y)}')
            exp.append((kind, out))
            metas.append(('pad2dspec', meta))
        # the strips are the 1-D pad_edges of the rows / columns (theorems pad2d_rows_are_1d / pad2d_cols_are_1d): the
        # real 2-D code (pseudo-inverse of the Vandermonde matrix) against the real 1-D code (Polynomial.fit)
        for _ in range(4):
            pr_, pc_ = int(rng.integers(1, 4)), int(rng.integers(1, 2 * n + 2))
            w4 = [int(rng.integers(1, m + 3)), int(rng.integers(1, m + 3)), int(rng.integers(1, n + 3)), int(rng.integers(1, n + 3))]
            meta = {'fn': 'pad_edges2d', 'check': 'rows1d', 'Y': Y.tolist(), 'pad': [pr_, pc_], 'window': w4}
            ctx.case(('rows1d', m, n, pr_, pc_, tuple(w4), tuple(Y.ravel().tolist())), nontrivial=True)
            r = _rows1d(utils, Y, pr_, pc_, w4)
            if r:
                dis.append(Disagreement('c18.pad2d', 'pad2d:rows1d', r, meta, True))
            # planar data against the right-hand side of extrap2d_planar_clamped computed by the model driver
            a, b, c = float(rng.integers(-5, 6)), float(rng.integers(-4, 5)) / 2, float(rng.integers(-4, 5)) / 4
            ii, jj = np.meshgrid(np.arange(m) + pr_, np.arange(n) + pc_, indexing='ij')
            Yp = a + b * ii + c * jj
            metap = {'fn': 'pad_edges2d', 'check': 'planar_clamped', 'abc': [a, b, c], 'shape': [m, n], 'pad': [pr_, pc_], 'window': w4}
            try:
                outp = utils.pad_edges2d(Yp, (pr_, pc_), 'extrapolate', extrapolate_window=[w4[:2], w4[2:]])
            except Exception as e:
                dis.append(Disagreement('c18.pad2d', 'pad2d:extrapolate:raises', f'pad_edges2d raised {type(e).__name__}: {e}', metap, True))
                continue
            ctx.case(('planar_clamped', m, n, pr_, pc_, tuple(w4), a, b, c), nontrivial=True)
            lines.append(f'c18.planar {q(a)} {q(b)} {q(c)} {m} {n} {pr_} {pc_} {w4[0]} {w4[1]} {w4[2]} {w4[3]}')
            exp.append(outp)
            metas.append(('planar', metap))
    # ---- padded_convolve
    for n in [2, 3, 5, 8, 13]:
        for k in [1, 2, 3, 4, 5, 6, 7, 10, 20]:
            y = rng.integers(-9, 10, n).astype(float)
            ker = rng.integers(1, 6, k).astype(float)
            ker = ker / ker.sum() if rng.random() < 0.5 else ker
            for mode in ('reflect', 'edge', 'extrapolate'):
                meta = {'fn': 'padded_convolve', 'y': y.tolist(), 'kernel': ker.tolist(), 'mode': mode}
                try:
                    out = utils.padded_convolve(y, ker, mode)
                except Exception as e:
                    dis.append(Disagreement('c18.conv', 'conv:raises', f'padded_convolve raised {type(e).__name__}: {e}', meta, True))
                    continue
                ctx.case(('conv', n, k, mode, tuple(y.tolist()), tuple(ker.tolist())), nontrivial=True,
                         sample={'fn': 'padded_convolve', 'N': n, 'K': k, 'mode': mode} if n == 5 and k == 4 else None)
                ctx.count('conv:K' + ('<' if k < n else '=' if k == n else '>') + 'N')
                if len(out) != n:
                    dis.append(Disagreement('c18.conv', 'conv:length', f'padded_convolve returns length {len(out)} for N={n}, K={k}', meta, True))
                p = -(-min(n, k) // 2)
                padded = utils.pad_edges(y, p, mode)
                lines.append(f'c18.conv {p} {qs(padded)} {qs(ker)}')
                exp.append(out)
                metas.append(('conv', meta))
                if k <= n:
                    kn = ker / ker.sum()
                    cst = float(rng.integers(-9, 10)) / 2
                    outc = utils.padded_convolve(np.full(n, cst), kn, mode)
                    if not close(outc, np.full(n, cst), 1e-12 * k):
                        dis.append(Disagreement('c18.conv', 'conv:const', f'padded_convolve changes constant data {cst} (N={n}, K={k}, mode={mode}): {outc[:3]}',
                                                dict(meta, y=[cst] * n, kernel=kn.tolist(), check='const'), True))
    # ---- kernels
    for w in list(range(1, 12)) + [25, 101]:
        for sigma in (0.3, 1.0, 5.0):
            g = utils.gaussian_kernel(w, sigma)
            ctx.case(('gauss', w, sigma), nontrivial=True)
            if len(g) != max(1, w) or np.any(g < 0) or not np.array_equal(g, g[::-1]) or abs(g.sum() - 1) > 1e-12:
                dis.append(Disagreement('c18.kernel', 'kernel:gaussian', f'gaussian_kernel({w}, {sigma}) is not non-negative/symmetric/normalised',
                                        {'fn': 'gaussian_kernel', 'w': w, 'sigma': sigma}, True))
        mk = utils._mollifier_kernel(w)
        ctx.case(('moll', w), nontrivial=True)
        if len(mk) != 2 * w + 1 or np.any(mk < 0) or not np.allclose(mk, mk[::-1], rtol=0, atol=1e-15) or abs(mk.sum() - 1) > 1e-12:
            dis.append(Disagreement('c18.kernel', 'kernel:mollifier', f'_mollifier_kernel({w}) is not non-negative/symmetric/normalised',
                                    {'fn': '_mollifier_kernel', 'w': w}, True))
    # ---- optimize_window
    for n in [3, 5, 10, 41]:
        for kind in ('noise', 'const', 'line', 'peaks'):
            t = np.arange(n, dtype=float)
            y = {'noise': rng.normal(0, 1, n), 'const': np.full(n, 3.0), 'line': t * 0.5,
                 'peaks': np.exp(-((t - n / 2) / max(1, n / 8)) ** 2)}[kind]
            for kw in ({}, {'min_half_window': 2}, {'max_half_window': 2}, {'increment': 3}, {'max_hits': 1}, {'min_half_window': 5, 'max_half_window': 3}):
                try:
                    hw = utils.optimize_window(y, **kw)
                except Exception as e:
                    dis.append(Disagreement('c18.optwin', 'optwin:raises', f'optimize_window raised {type(e).__name__}: {e}', {'fn': 'optimize_window', 'y': y.tolist(), 'kw': kw}, True))
                    continue
                ctx.case(('optwin', n, kind, tuple(kw.items())), nontrivial=True)
                if not (isinstance(hw, (int, np.integer)) and hw >= 1):
                    dis.append(Disagreement('c18.optwin', 'optwin:value', f'optimize_window returned {hw!r}', {'fn': 'optimize_window', 'y': y.tolist(), 'kw': kw}, True))
    res = drive(lines)
    ctx.traces += len(lines)
    for ln, r, e, (kind, meta) in zip(lines, res, exp, metas):
        if kind == 'pad2dspec':
            rk, rout = e
            mk, _, mbody = r.partition(' ')
            bad = None
            if mk != rk:
                bad = f'the code gives {rk}, the model {mk}'
            elif rk == 'ok':
                pred = np.array([[float(v) for v in parse_qs(row)] for row in mbody.split(';')])
                if not close(rout, pred, 1e-8):
                    bad = (f'differs from the exact model by {float(np.max(np.abs(rout - pred)))}' if rout.shape == pred.shape
                           else f'shape {rout.shape}, model {pred.shape}')
            if bad:
                dis.append(Disagreement('c18.model', 'model:pad2dspec', f'pad_edges2d(pad_length={meta["pad_ints"]}, extrapolate_window='
                                        f'{meta["window_ints"]}; {meta["form"]}) on {len(meta["Y"])}x{len(meta["Y"][0])} data: {bad}', meta, False))
            continue
        if kind == 'planar':
            pred = np.array([[float(v) for v in parse_qs(row)] for row in r.split(';')])
            if not close(e, pred, 1e-8 * (1 + sum(meta['pad']))):
                dis.append(Disagreement('c18.linear', 'linear:2d:clamped', f'pad_edges2d does not pad planar data as extrap2d_planar_clamped states '
                                        f'({meta["shape"]}, pad={meta["pad"]}, windows={meta["window"]}): max err '
                                        f'{float(np.max(np.abs(e - pred))) if e.shape == pred.shape else "shape"}', meta, True))
            continue
        if kind == 'pad2d':
            pred = np.array([[float(v) for v in parse_qs(row)] for row in r.split(';')])
        else:
            pred = np.array([float(v) for v in parse_qs(r)])
        if not close(e, pred, 1e-8 if kind != 'conv' else 1e-10):
            w1 = kind == 'pad2d' and 1 in meta['window']
            dis.append(Disagreement('c18.model', f'model:{kind}' + (':window1' if w1 else ''),
                                    f'{meta["fn"]} differs from the exact model by '
                                    f'{float(np.max(np.abs(np.asarray(e) - pred))) if np.shape(e) == pred.shape else "shape"} ({ {k: v for k, v in meta.items() if k not in ("y", "Y", "kernel")} })',
                                    meta, False))
    return dis


def search(ctx, hints, lean_failed):
    sub = type(ctx)(ctx.prop, 'thorough', ctx.seed + 1)
    return [d for d in correspond(sub) if d.property_level]


def replay(ctx, data):
    from pybaselines import utils
    r = data['replay']
    try:
        if r.get('check') == 'rows1d':
            return _rows1d(utils, np.array(r['Y']), r['pad'][0], r['pad'][1], r['window'])
        if r.get('check') == 'planar_clamped':
            a, b, c = r['abc']
            (m, n), (pr_, pc_), w4 = r['shape'], r['pad'], r['window']
            ii, jj = np.meshgrid(np.arange(m) + pr_, np.arange(n) + pc_, indexing='ij')
            out = utils.pad_edges2d(a + b * ii + c * jj, (pr_, pc_), 'extrapolate', extrapolate_window=[w4[:2], w4[2:]])
            res = drive([f'c18.planar {q(a)} {q(b)} {q(c)} {m} {n} {pr_} {pc_} {w4[0]} {w4[1]} {w4[2]} {w4[3]}'])[0]
            pred = np.array([[float(v) for v in parse_qs(row)] for row in res.split(';')])
            return None if close(out, pred, 1e-8 * (1 + pr_ + pc_)) else 'planar data not padded as extrap2d_planar_clamped states'
        if r.get('check') == 'spec':
            Y = np.array(r['Y'])
            try:
                kind, out = _pad2d_outcome(utils, Y, r['pad_arg'], r['window_arg'])
            except Exception as e:
                return f'{type(e).__name__}: {e}'
            pints, wints = r['pad_ints'], r['window_ints']
            res = drive([f'c18.pad2dspec {",".join(str(v) for v in pints)} {"none" if wints is None else ",".join(str(v) for v in wints)} {mat(Y)}'])[0]
            mk, _, mbody = res.partition(' ')
            if mk != kind:
                return f'the code gives {kind}, the model {mk}'
            if kind == 'ok':
                pred = np.array([[float(v) for v in parse_qs(row)] for row in mbody.split(';')])
                return None if close(out, pred, 1e-8) else 'differs from the exact model'
            return None
        if r.get('check') == 'planar':
            Y = np.array(r['Y'])
            m, n = Y.shape
            pr, pc = r['pad']
            w4 = r['window']
            kw = {} if r.get('default_window') else {'extrapolate_window': [[w4[0], w4[1]], [w4[2], w4[3]]]}
            out = utils.pad_edges2d(Y, [pr, pc], 'extrapolate', **kw)
            # recover the plane from the data
            b = Y[1, 0] - Y[0, 0] if m > 1 else 0.0
            c = Y[0, 1] - Y[0, 0] if n > 1 else 0.0
            I, J = np.meshgrid(np.arange(m + 2 * pr) - pr, np.arange(n + 2 * pc) - pc, indexing='ij')
            if w4[0] == 1:
                I = np.maximum(I, 0)
            if w4[1] == 1:
                I = np.minimum(I, m - 1)
            if w4[2] == 1:
                J = np.maximum(J, 0)
            if w4[3] == 1:
                J = np.minimum(J, n - 1)
            want = Y[0, 0] + b * I + c * J
            return None if close(out, want, 1e-8 * (1 + pr + pc)) else f'planar data not continued exactly (max err {float(np.max(np.abs(out - want))):.3g})'
        if r.get('check') == 'linear':
            y = np.array(r['y'])
            n, pad = len(y), r['pad']
            out = utils.pad_edges(y, pad, 'extrapolate', extrapolate_window=r['window'])
            b = y[1] - y[0]
            want = y[0] + b * (np.arange(n + 2 * pad) - pad)
            if r['window'][0] == 1:
                want[:pad] = y[0]
            if r['window'][1] == 1:
                want[pad + n:] = y[-1]
            return None if close(out, want, 1e-9 * (1 + pad)) else 'linear data not continued exactly'
        if r.get('check') == 'const':
            y = np.array(r['y'])
            out = utils.padded_convolve(y, np.array(r['kernel']), r['mode'])
            return None if close(out, y, 1e-12 * len(r['kernel'])) else f'constant data changed: {out[:3]}'
    except Exception as e:
        return f'{type(e).__name__}: {e}'
    return None
