"""C17 — optimizer methods are the documented composition of the underlying method."""
import glob
import importlib
import json
import os
from math import ceil

import numpy as np

from .common import Disagreement, drive, q, qs, parse_qs, ROOT

PROP_MODULE = 'PbVerif.Props.C17'
RULE = ('cases = (optimizer, wrapped method, options, interface (class/functional), x ordering (sorted/rotated/shuffled)); each output '
        'is recomposed from direct calls of the real wrapped method with the reported weights/orders/parameters and must agree; the '
        'plans (sections, padding, roll-and-slice, first minimum, edge constraints) are diffed with the Lean planners; collab_pls (1-D and 2-D, 1-4 data '
        'sets, user weights/tol in method_kwargs, error precedence): the Lean plan is executed on the real wrapped method, compared call by call with '
        'the recorded calls of the real collab_pls (data, keyword names in order, values bit-exact) and its Lean semantics is run with the recorded '
        'fits as oracle; non-trivial = '
        'non-default option or unsorted x; distinct by canonical tuple')
ASSUMPTIONS = [
    'the wrapped method is a black box (recomposition feeds it the same arrays, so equality is expected to rounding 1e-9)',
    'np.linspace(..., dtype=intp) truncation equals exact floor on the generated integer regions',
    'np.mean(rows, axis=0) adds the rows in order and divides by their number (checked bit-exactly on every average_dataset=False case)',
    'method.lower() is modelled for ASCII names (String.toLower)',
]
TOL = 1e-9

COLLAB = ['asls', 'iasls', 'airpls', 'arpls', 'drpls', 'iarpls', 'aspls', 'psalsa', 'derpsalsa', 'brpls', 'lsrpls',
          'pspline_asls', 'pspline_airpls', 'pspline_arpls', 'pspline_aspls', 'pspline_brpls', 'mixture_model', 'irsqr',
          'mpls', 'pspline_mpls', 'fabc']
CUSTOM = ['asls', 'arpls', 'modpoly', 'poly', 'mor', 'snip', 'pspline_asls', 'rubberband', 'std_distribution', 'noise_median',
          'imodpoly', 'airpls', 'tophat']
EXTENDED = ['asls', 'arpls', 'aspls', 'modpoly', 'imodpoly', 'poly', 'mor', 'pspline_asls', 'mpls', 'fabc', 'dietrich']


def data(rng, n, k=1):
    t = np.linspace(0, 1, n)
    out = []
    for j in range(k):
        out.append(5 + 3 * t + (6 + j) * np.exp(-((t - 0.35 - 0.1 * j) / 0.05) ** 2) + 4 * np.exp(-((t - 0.7) / 0.08) ** 2)
                   + rng.normal(0, 0.1, n))
    return t * 90 + 5, (out[0] if k == 1 else np.array(out))


def order_of(rng, n, kind):
    p = np.arange(n)
    if kind == 'rotated':
        p = np.roll(p, int(rng.integers(1, n)))
    elif kind == 'shuffled':
        rng.shuffle(p)
    return p


def close(a, b, tol=TOL):
    a, b = np.asarray(a, float), np.asarray(b, float)
    return a.shape == b.shape and bool(np.allclose(a, b, rtol=tol, atol=tol * max(1.0, float(np.nanmax(np.abs(b))) if b.size else 1.0), equal_nan=True))


def kw_for(method, n):
    kw = {}
    if 'pspline' in method or method in ('mixture_model', 'irsqr'):
        kw['num_knots'] = 12
    if method in ('mpls', 'pspline_mpls', 'mor', 'tophat', 'noise_median', 'std_distribution'):
        kw['half_window'] = 5
    if method == 'snip':
        kw['max_half_window'] = 8
    if method in ('asls', 'arpls', 'airpls', 'iasls', 'drpls', 'iarpls', 'aspls', 'psalsa', 'derpsalsa', 'brpls', 'lsrpls'):
        kw['lam'] = 1e4
    return kw


def caller(iface, module, x):
    from pybaselines import Baseline
    if iface == 'class':
        fit = Baseline(x)
        return lambda name, y, **kw: getattr(fit, name)(y, **kw)
    return lambda name, y, **kw: getattr(importlib.import_module('pybaselines.' + module[name]), name)(y, x_data=x, **kw)


def correspond(ctx):
    from pybaselines import Baseline, Baseline2D
    from . import methods as M
    rng = ctx.np_rng()
    reg = M.registry(False)
    module = {k: v['module'] for k, v in reg.items()}
    dis = []
    for f in sorted(glob.glob(os.path.join(ROOT, 'corpus', 'C17_*.json'))):
        d = json.load(open(f))
        r = replay(ctx, d)
        ctx.case(('corpus', os.path.basename(f)))
        if r:
            dis.append(Disagreement('c17.corpus', d['signature'], f'corpus {os.path.basename(f)}: {r}', d['replay'], True))
    lines, exp, metas = [], [], []
    orders = ['sorted', 'rotated', 'shuffled']
    n = 60

    def report(stage, sig, detail, meta):
        dis.append(Disagreement(stage, sig, detail, meta, True))

    # ------------------------------------------------------------------ collab_pls
    # the Lean planner (Model/Collab.lean) says which calls of the wrapped method are made; the plan is (1) executed with direct calls
    # of the real wrapped method and compared with the output of the real collab_pls, (2) compared call by call with the calls the real
    # collab_pls makes (a recorder is put around the wrapped method), (3) its Lean semantics (runCollab) is run with the recorded fits as
    # the oracle and must predict the recorded arguments
    cases = collab_cases(ctx, rng, module, n, orders)
    plans = drive([c['line'] for c in cases])
    ctx.traces += len(cases)
    for c, r in zip(cases, plans):
        collab_check(ctx, c, parse_plan(r), module, report, dis, lines, exp, metas)
    # ------------------------------------------------------------------ adaptive_minmax
    reg1 = M.registry(False)
    mm_count = ctx.seed
    cfgs = []
    for method in ('modpoly', 'imodpoly'):
        # the wrapped method's own options (every single-parameter variant of it) are forwarded through method_kwargs
        mk_list = [{}] + [{k: v for k, v in kwv.items()} for kwv in M.single_variants(method, reg1[method], False, base={})
                          if not ({'poly_order', 'weights', 'return_coef'} & set(kwv))]
        for po in (None, 2, (1, 3)):
            for cf, cw in ((0.01, 1e5), (0.1, 50.0), ((0.05, 0.2), (10.0, 20.0)), (0.0, 1e5), (1.0, 2.0), ((0.08, 0.0), 1e4), ((0.0, 0.06), (5.0, 1e4)),
                           ((0.0, 0.0), 1e5)):
                for iface in ('class', 'func'):
                    okind = orders[int(rng.integers(0, 3))] if iface == 'class' else ['rotated', 'shuffled'][int(rng.integers(0, 2))]
                    if not ctx.thorough and rng.random() < 0.15:
                        continue
                    mm_count += 1
                    cfgs.append((method, po, cf, cw, iface, okind, dict(mk_list[mm_count % len(mk_list)]), None))
        # ... and every option once on SORTED x through the fitter (nothing is copied on the way in), with and without caller weights
        for mk in mk_list:
            for use_w in (False, True):
                cfgs.append((method, None, 0.01, 1e5, 'class', orders[0], dict(mk), use_w))
    if True:
        if True:
            if True:
                for (method, po, cf, cw, iface, okind, mk, use_w) in cfgs:
                    xs, ys = data(rng, n)
                    perm = order_of(rng, n, okind)
                    x, y = xs[perm], ys[perm]
                    w = (np.round(rng.uniform(0.2, 1, n) * 32) / 32) if (use_w is True or (use_w is None and rng.random() < 0.5)) else None
                    ctx.count('minmax-method_kwargs:' + (','.join(sorted(mk)) or 'none'))
                    call = caller(iface, module, x)
                    meta = {'optimizer': 'adaptive_minmax', 'method': method, 'poly_order': po, 'constrained_fraction': cf, 'constrained_weight': cw,
                            'iface': iface, 'order': okind, 'x': x.tolist(), 'data': y.tolist(), 'weights': None if w is None else w.tolist(), 'method_kwargs': mk}
                    try:
                        b, p = call('adaptive_minmax', y, poly_order=po, method=method, weights=w, constrained_fraction=cf, constrained_weight=cw,
                                    method_kwargs=dict(mk))
                    except Exception as e:
                        try:        # the wrapped method itself may reject the forwarded options (e.g. max_iter=0): then raising is right
                            caller('class', module, x)(method, y, poly_order=2, **mk)
                        except Exception:
                            ctx.count('minmax:wrapped-method-raises-too')
                            continue
                        report('c17.minmax', 'minmax:raises', f'adaptive_minmax raised {type(e).__name__}: {e}', meta)
                        continue
                    ctx.case(('minmax', method, str(po), str(cf), iface, okind, w is not None), nontrivial=True,
                             sample={'optimizer': 'adaptive_minmax', 'method': method, 'poly_order': po, 'constrained_fraction': cf, 'x': okind}
                             if len(ctx.samples) < 4 else None)
                    ctx.count('adaptive_minmax')
                    direct = caller('class', module, x)
                    fits = [direct(method, y, poly_order=int(o), weights=np.array(wt, copy=True), **mk)[0] for o in p['poly_order'] for wt in (p['weights'], p['constrained_weights'])]
                    want = np.maximum.reduce(fits)
                    if not close(b, want):
                        report('c17.minmax', f'minmax:{method}', f'adaptive_minmax({method}, poly_order={po}, {iface}, x {okind}): baseline is not the '
                               f'point-wise maximum of the four fits defined by the reported orders and weights (max diff {float(np.max(np.abs(b - want))):.3g})', meta)
                    # edge constraints vs the planner (in sorted order)
                    inv = np.argsort(x, kind='mergesort')
                    ws = np.ones(n) if w is None else w[inv]
                    fr = np.atleast_1d(cf) if np.ndim(cf) else np.array([cf, cf])
                    cwv = np.atleast_1d(cw) if np.ndim(cw) else np.array([cw, cw])
                    c0, c1 = ceil(n * fr[0]), ceil(n * fr[1])
                    lines.append(f'c17.cw {c0} {c1} {q(cwv[0])} {q(cwv[1])} {qs(ws)}')
                    exp.append(np.asarray(p['constrained_weights'])[inv])
                    metas.append(('cw', meta))
    # ------------------------------------------------------------------ custom_bc
    methods = CUSTOM if ctx.thorough else [CUSTOM[i] for i in sorted(rng.choice(len(CUSTOM), 7, replace=False))]
    for method in methods:
        for iface in ('class', 'func'):
            okind = orders[int(rng.integers(0, 3))]
            xs, ys = data(rng, n)
            perm = order_of(rng, n, okind)
            x, y = xs[perm], ys[perm]
            mk = kw_for(method, n)
            call = caller(iface, module, x)
            meta = {'optimizer': 'custom_bc', 'method': method, 'iface': iface, 'order': okind, 'x': x.tolist(), 'data': y.tolist(), 'method_kwargs': mk}
            try:
                b, p = call('custom_bc', y, method=method, method_kwargs=dict(mk))
                want = caller('class', module, x)(method, y, **mk)[0]
            except Exception as e:
                report('c17.custom', f'custom:{method}:raises', f'custom_bc({method}) raised {type(e).__name__}: {e}', meta)
                continue
            ctx.case(('custom-id', method, iface, okind), nontrivial=True,
                     sample={'optimizer': 'custom_bc', 'method': method, 'regions': 'all', 'sampling': 1, 'x': okind} if len(ctx.samples) < 5 else None)
            ctx.count('custom_bc:identity')
            if not close(b, want):
                report('c17.custom', f'custom:{method}', f'custom_bc({method}) with no region restriction and unit sampling differs from {method} itself '
                       f'by {float(np.max(np.abs(b - want))):.3g} ({iface}, x {okind})', meta)
    # section plans for general regions vs the Lean planner (sorted x so that indices are positions)
    for _ in range(40 if ctx.thorough else 15):
        nn = int(rng.choice([10, 23, 60]))
        xs, ys = data(rng, nn)
        nreg = int(rng.integers(1, 4))
        cuts = sorted(rng.choice(np.arange(0, nn + 1), 2 * nreg, replace=False).tolist())
        regions = [(int(cuts[2 * i]), int(cuts[2 * i + 1])) for i in range(nreg)]
        steps = [int(rng.integers(1, 6)) for _ in range(nreg)]
        try:
            b, p = Baseline(xs).custom_bc(ys, method='poly', regions=regions, sampling=steps, method_kwargs={'poly_order': 2})
        except Exception as e:
            ctx.count('custom:plan:raises')
            continue
        ctx.case(('custom-plan', nn, tuple(regions), tuple(steps)), nontrivial=True)
        ctx.count('custom_bc:regions')
        lines.append(f'c17.plan {nn} ' + ';'.join(f'{a},{bb},{s}' for (a, bb), s in zip(regions, steps)))
        exp.append((xs, ys, p['x_fit'], p['y_fit']))
        metas.append(('plan', {'n': nn, 'regions': regions, 'steps': steps}))
    # ------------------------------------------------------------------ optimize_extended_range
    methods = EXTENDED if ctx.thorough else [EXTENDED[i] for i in sorted(rng.choice(len(EXTENDED), 6, replace=False))]
    for method in methods:
        for side in ('left', 'right', 'both'):
            okind = orders[int(rng.integers(0, 3))]
            iface = 'class' if rng.random() < 0.6 else 'func'
            xs, ys = data(rng, n)
            perm = order_of(rng, n, okind)
            x, y = xs[perm], ys[perm]
            mk = kw_for(method, n)
            mk.pop('lam', None)
            poly_like = module[method] == 'polynomial' or method in ('dietrich', 'cwt_br')
            rangekw = dict(min_value=1, max_value=4, step=1) if poly_like else dict(min_value=2, max_value=5, step=1)
            ws = float(rng.choice([0.1, 0.2, 0.33]))
            uw = None
            if 'weights' in reg[method]['params'] and rng.random() < 0.4 and method not in ('mpls', 'fabc'):
                uw = np.round(rng.uniform(0.3, 1, n) * 32) / 32
                mk['weights'] = uw
            call = caller(iface, module, x)
            meta = {'optimizer': 'optimize_extended_range', 'method': method, 'side': side, 'width_scale': ws, 'iface': iface, 'order': okind,
                    'x': x.tolist(), 'data': y.tolist(), 'method_kwargs': {k: (v.tolist() if isinstance(v, np.ndarray) else v) for k, v in mk.items()},
                    'range': rangekw}
            try:
                b, p = call('optimize_extended_range', y, method=method, side=side, width_scale=ws, method_kwargs=dict(mk), **rangekw)
            except Exception as e:
                report('c17.extended', f'extended:{method}:raises', f'optimize_extended_range({method}, {side}) raised {type(e).__name__}: {e}', meta)
                continue
            ctx.case(('extended', method, side, ws, iface, okind, uw is not None), nontrivial=True,
                     sample={'optimizer': 'optimize_extended_range', 'method': method, 'side': side, 'width_scale': ws, 'x': okind}
                     if len(ctx.samples) < 6 else None)
            ctx.count('optimize_extended_range:' + side)
            fails = []
            if np.shape(b) != (n,):
                fails.append(f'baseline has shape {np.shape(b)}, data has {n} points')
            rm = np.asarray(p['rmse'], float)
            istar = int(np.argmin(rm))
            if not (p['min_rmse'] == rm[istar]):
                fails.append('min_rmse is not the minimum of the reported rmse values')
            variables = (np.arange(rangekw['min_value'], rangekw['max_value'] + 1, 1) if poly_like
                         else np.logspace(rangekw['min_value'], rangekw['max_value'], 3, base=10.0))
            # (for polynomial methods the reported rmse is stored in an integer array and therefore truncated - an observation,
            #  see DESIGN.md; truncation is monotone, so the chosen parameter must still be A minimiser of the reported values)
            hit = [i for i, v in enumerate(variables) if np.isclose(p['optimal_parameter'], v)] if len(rm) == len(variables) else []
            if not hit or rm[hit[0]] != rm.min():
                fails.append(f'optimal_parameter {p["optimal_parameter"]} does not minimise the reported rmse {rm.tolist()} over {variables.tolist()}')
            for key in ('weights', 'alpha'):
                if key in p['method_params'] and np.shape(p['method_params'][key]) != (n,):
                    fails.append(f'method_params[{key}] has shape {np.shape(p["method_params"][key])}, not the data length')
            # recomposition: rebuild the extended data set as documented and fit it directly with the optimal parameter
            try:
                want, wantw = reference_extended(module, x, y, method, side, ws, mk, poly_like, p['optimal_parameter'])
                if np.shape(b) == (n,) and not close(b, want, 1e-8):
                    fails.append(f'baseline differs from the direct fit of the extended data with the optimal parameter by {float(np.max(np.abs(b - want))):.3g}')
                if wantw is not None and 'weights' in p['method_params'] and np.shape(p['method_params']['weights']) == (n,) and \
                        not close(p['method_params']['weights'], wantw, 1e-8):
                    fails.append('method_params[weights] are not the weights of the direct fit cut back to the data')
            except Exception as e:
                ctx.notes.append(f'reference_extended failed for {method}: {type(e).__name__}: {e}')
            for fl in fails:
                report('c17.extended', f'extended:{method}', f'optimize_extended_range({method}, side={side}, width_scale={ws}, {iface}, x {okind}): {fl}', meta)
            # roll-and-slice plan vs the Lean planner on integer data
            k = int(n * ws)
            if k > 0:
                L = n + (2 * k if side == 'both' else k)
                fb = np.arange(1, L + 1, dtype=float)
                upper = 0 if side == 'left' else k
                added = 2 * k if side == 'both' else k
                lines.append(f'c17.added {side} {k} {qs(fb)}')
                exp.append(np.roll(fb, upper)[:added])
                metas.append(('added', meta))
    res = drive(lines)
    ctx.traces += len(lines)
    for ln, r, e, (kind, meta) in zip(lines, res, exp, metas):
        if kind in ('cw', 'added'):
            pred = np.array([float(v) for v in parse_qs(r)])
            if not close(e, pred, 1e-12):
                # for the constrained weights the real values are the object of the property (reported weights define the four fits);
                # a difference from the planner is a model-level disagreement
                dis.append(Disagreement('c17.model', f'model:{kind}', f'{meta.get("optimizer")}: {kind} differs from the Lean planner',
                                        {k: v for k, v in meta.items() if k not in ('x', 'data')}, False))
        elif kind == 'collabrun':
            msg = collabrun_compare(r, e)
            if msg:
                dis.append(Disagreement('c17.model', 'model:collabrun', f'collab_pls({meta["method"]}, average_dataset={meta["average_dataset"]}'
                                        f'{", 2-D" if meta.get("two_d") else ""}): {msg}', {k: v for k, v in meta.items() if k not in ('x', 'z', 'data')}, False))
        elif kind == 'mean':
            pred = np.array([float(v) for v in parse_qs(r)])
            if not close(e, pred, 1e-14):
                dis.append(Disagreement('c17.model', 'model:mean', 'np.mean(rows, axis=0) differs from the exact mean of the Lean model', {}, False))
        elif kind == 'plan':
            xs, ys, xfit, yfit = e
            secs, mask = r.split('|')
            pairs = [] if secs == '-' else [tuple(int(t) for t in s.split(',')) for s in secs.split(';')]
            xv = [float(np.mean(xs[a:b])) for a, b in pairs] + [float(v) for v, m in zip(xs, mask) if m == '1']
            yv = [float(np.mean(ys[a:b])) for a, b in pairs] + [float(v) for v, m in zip(ys, mask) if m == '1']
            o = np.argsort(xv, kind='mergesort')
            if len(xv) != len(xfit) or not close(np.array(xv)[o], xfit, 1e-12) or not close(np.array(yv)[o], yfit, 1e-12):
                dis.append(Disagreement('c17.model', 'model:plan', f'custom_bc x_fit/y_fit differ from the Lean section plan for {meta}', meta, False))
    # object-history fuzzer (hist.py) over the optimizers: on a long-lived fitter, a later optimizer call (another wrapped method, other
    # options) must return what the same call returns on a fresh fitter — the composition the property states, not a remembered one
    from . import hist
    for spec, f in hist.campaign(ctx, ctx.np_rng(), 'fresh', 50 if ctx.thorough else 20, 16 if ctx.thorough else 6,
                                 pool1=list(hist.WRAPPED[False]), pool2=list(hist.WRAPPED[True])):
        dis.append(Disagreement('c17.fuzz', f'fuzz:{spec["steps"][-1]["method"]}',
                                f'history on one fitter: {hist.describe(spec)[:700]} — call {f[0] + 1}: {f[2]}', {'kind': 'fuzz', 'spec': spec}, True))
    return dis


# ---------------------------------------------------------------------------------------------------------------- collab_pls helpers
COLLAB2D = ['asls', 'iasls', 'airpls', 'arpls', 'drpls', 'iarpls', 'aspls', 'psalsa', 'brpls', 'lsrpls', 'pspline_asls', 'pspline_airpls',
            'pspline_arpls', 'pspline_brpls', 'mixture_model', 'irsqr']


def kw2d_for(method):
    kw = {}
    if 'pspline' in method or method in ('mixture_model', 'irsqr'):
        kw['num_knots'] = 6
    else:
        kw['lam'] = 1e2
    return kw


def data2d(rng, m, n, k):
    x, z = np.linspace(0, 1, m), np.linspace(0, 1, n)
    X, Z = np.meshgrid(x, z, indexing='ij')
    out = [3 + 2 * X + Z + (4 + j) * np.exp(-((X - 0.4) ** 2 + (Z - 0.5 - 0.05 * j) ** 2) / 0.02) + rng.normal(0, 0.05, (m, n)) for j in range(k)]
    return x * 50 + 1, z * 20 + 2, np.array(out)


def seq_mean(rows):
    """np.mean(rows, axis=0) as NumPy evaluates it: the rows are added in order, then divided by their number (bit-exact)"""
    acc = np.array(rows[0], dtype=float, copy=True)
    for r in rows[1:]:
        acc = acc + r
    return acc / len(rows)


def parse_plan(r):
    parts = r.split('#')
    if parts[0] == 'error':
        return {'error': parts[1]}
    calls = []
    for c in ([] if parts[1] == '-' else parts[1].split(';')):
        d, kw = c.split('|')
        calls.append((d, [] if kw == '-' else [tuple(t.split('=', 1)) for t in kw.split(',')]))
    return {'calls': calls, 'results': [int(t) for t in parts[2].split(',')] if parts[2] != '-' else [], 'avg_weights': parts[3],
            'avg_alpha': None if parts[4] == 'none' else parts[4]}


def resolve(val, hist, user):
    """the value of a symbolic keyword value of the plan; hist = [(baseline, params)] of the fits made so far"""
    if val.startswith('u:'):
        return user[val[2:]]
    if val == 'inf':
        return np.inf
    if val == 'true':
        return True
    kind, arg = val.split(':')
    key = 'weights' if kind in ('fw', 'mw') else 'alpha'
    if kind in ('fw', 'fa'):
        return hist[int(arg)][1][key]
    return seq_mean([hist[int(t)][1][key] for t in arg.split('+')])


def resolve_data(d, dset):
    return seq_mean(list(dset)) if d == 'mean' else dset[int(d[1:])]


class Recorder:
    """records every call of one public method (the function stored on its defining class, i.e. what `_get_function` hands to the
    optimizer) while the real optimizer runs"""

    def __init__(self, klass, name):
        self.owner = next(c for c in klass.__mro__ if name in vars(c))
        self.name = name
        self.calls = []

    def __enter__(self):
        import functools
        orig = self.orig = vars(self.owner)[self.name]
        rec = self.calls

        @functools.wraps(orig)
        def spy(obj, data, *args, **kwargs):
            entry = {'data': np.array(data, copy=True), 'nargs': len(args), 'keys': list(kwargs),
                     'kw': {k: (np.array(v, copy=True) if isinstance(v, np.ndarray) else v) for k, v in kwargs.items()}}
            rec.append(entry)
            out = orig(obj, data, *args, **kwargs)
            entry['out'] = (np.array(out[0], copy=True), {k: np.array(v, copy=True) for k, v in out[1].items() if k in ('weights', 'alpha')})
            return out
        setattr(self.owner, self.name, spy)
        return self

    def __exit__(self, *exc):
        setattr(self.owner, self.name, self.orig)
        return False


def collab_cases(ctx, rng, module, n, orders):
    cases = []

    def add(**c):
        user = c['mk']
        c['line'] = (f'c17.collabplan {int(c["two_d"])} {int(c.get("known", True))} {np.ndim(c["dset"])} {c["mname"]} {len(c["dset"])} '
                     f'{int(c["avg"])} {",".join(user) if user else "-"}')
        cases.append(c)

    methods = COLLAB if ctx.thorough else [COLLAB[i] for i in sorted(rng.choice(len(COLLAB), 9, replace=False))] + ['aspls', 'fabc', 'brpls', 'mpls']
    for method in dict.fromkeys(methods):
        for avg in (True, False):
            for iface in ('class', 'func'):
                okind = orders[int(rng.integers(0, 3))] if iface == 'class' else ['rotated', 'shuffled'][int(rng.integers(0, 2))]
                k = int(rng.choice([1, 2, 3, 3, 4]))
                xs, ds = data(rng, n, max(k, 2))
                ds = ds[:k]
                perm = order_of(rng, n, okind)
                x, dset = xs[perm], ds[:, perm]
                mk = kw_for(method, n)
                if rng.random() < 0.35 and method not in ('mpls', 'pspline_mpls', 'fabc'):
                    mk['weights'] = np.round(rng.uniform(0.2, 1, n) * 32) / 32      # the user's own starting weights: used by the first pass only
                if rng.random() < 0.3 and method not in ('mpls', 'pspline_mpls', 'fabc'):
                    mk['tol'] = 1e-2                                               # a user's tol: honoured in the first pass, overridden in the final fits
                mname = method if rng.random() < 0.7 else (method.upper() if rng.random() < 0.5 else method.title())   # any letter case
                add(two_d=False, method=method, mname=mname, avg=avg, iface=iface, order=okind, x=x, z=None, dset=dset, mk=mk)
    m2 = COLLAB2D if ctx.thorough else [COLLAB2D[i] for i in sorted(rng.choice(len(COLLAB2D), 3, replace=False))] + ['aspls', 'pspline_brpls']
    for method in dict.fromkeys(m2):
        for avg in (True, False):
            k = int(rng.choice([1, 2, 3]))
            mm, nn = (8, 7) if 'pspline' in method or method in ('mixture_model', 'irsqr') else (12, 11)   # default num_eigens is (10, 10)
            x, z, dset = data2d(rng, mm, nn, k)
            if rng.random() < 0.5:
                px, pz = rng.permutation(mm), rng.permutation(nn)
                x, z, dset = x[px], z[pz], dset[:, px][:, :, pz]
            add(two_d=True, method=method, mname=method if rng.random() < 0.7 else method.upper(), avg=avg, iface='class', order='-', x=x, z=z,
                dset=dset, mk=kw2d_for(method))
    # what is raised before any fit
    xs, ds = data(rng, n, 2)
    add(two_d=False, method='nope', mname='nope', avg=True, iface='class', order='sorted', x=xs, z=None, dset=ds, mk={}, known=False)
    add(two_d=False, method='nope', mname='Nope', avg=False, iface='class', order='sorted', x=xs, z=None, dset=ds[0], mk={'x_data': xs}, known=False)
    add(two_d=False, method='asls', mname='asls', avg=True, iface='class', order='sorted', x=xs, z=None, dset=ds, mk={'lam': 1e3, 'x_data': xs})
    add(two_d=False, method='asls', mname='ASLS', avg=False, iface='class', order='sorted', x=xs, z=None, dset=ds[0], mk={'x_data': xs})
    add(two_d=False, method='asls', mname='asls', avg=True, iface='class', order='sorted', x=xs, z=None, dset=ds[0], mk={})
    add(two_d=False, method='arpls', mname='arpls', avg=False, iface='class', order='sorted', x=xs, z=None, dset=ds[None], mk={})
    x2, z2, d2 = data2d(rng, 7, 6, 2)
    add(two_d=True, method='asls', mname='asls', avg=True, iface='class', order='-', x=x2, z=z2, dset=d2[0], mk={})
    add(two_d=True, method='fabc', mname='fabc', avg=True, iface='class', order='-', x=x2, z=z2, dset=d2, mk={}, known=False)
    add(two_d=True, method='asls', mname='asls', avg=False, iface='class', order='-', x=x2, z=z2, dset=d2, mk={'x_data': x2})
    return cases


def collab_objects(c, module):
    """(call of the real collab_pls, fresh direct fitter, class that owns the wrapped method)"""
    from pybaselines import Baseline, Baseline2D
    if c['two_d']:
        real = lambda **kw: Baseline2D(c['x'], c['z']).collab_pls(c['dset'], **kw)
        fitter = Baseline2D(c['x'], c['z'])
        klass = Baseline2D
    else:
        call = caller(c['iface'], module, c['x'])
        real = lambda **kw: call('collab_pls', c['dset'], **kw)
        fitter = Baseline(c['x'])
        klass = Baseline
    return real, fitter, klass


def same(a, b):
    a, b = np.asarray(a), np.asarray(b)
    return a.shape == b.shape and bool(np.array_equal(a, b, equal_nan=True))


def collab_check(ctx, c, plan, module, report, dis, lines, exp, metas):
    method, mname, avg, mk, dset = c['method'], c['mname'], c['avg'], c['mk'], c['dset']
    meta = {'optimizer': 'collab_pls', 'method': method, 'mname': mname, 'average_dataset': avg, 'iface': c['iface'], 'order': c['order'], 'two_d': c['two_d'],
            'x': c['x'].tolist(), 'z': None if c['z'] is None else c['z'].tolist(), 'data': dset.tolist(),
            'method_kwargs': {k: (v.tolist() if isinstance(v, np.ndarray) else v) for k, v in mk.items()}}
    what = f'collab_pls({mname}, average_dataset={avg}, {"2-D" if c["two_d"] else c["iface"]}, x {c["order"]}, {len(dset)} sets, kwargs {sorted(mk)})'
    real, fitter, klass = collab_objects(c, module)
    rec = None
    try:
        owner_has = any(method in vars(k) for k in klass.__mro__)
        if owner_has:
            with Recorder(klass, method) as rec:
                b, p = real(average_dataset=avg, method=mname, method_kwargs=dict(mk))
        else:
            b, p = real(average_dataset=avg, method=mname, method_kwargs=dict(mk))
        raised = None
    except Exception as e:
        raised = e
    ctx.case(('collab', c['two_d'], method, avg, c['iface'], c['order'], mname == method, len(dset), tuple(sorted(mk))), nontrivial=True,
             sample={'optimizer': 'collab_pls', 'method': mname, 'average_dataset': avg, 'interface': c['iface'], 'x': c['order'], 'sets': len(dset)}
             if len(ctx.samples) < 2 else None)
    ctx.count('collab_pls' + (':2d' if c['two_d'] else '') + (':raises' if raised is not None else ''))
    if 'error' in plan:
        if raised is None or type(raised).__name__ != plan['error']:
            dis.append(Disagreement('c17.model', f'model:collab:error:{plan["error"]}', f'{what}: the Lean planner says {plan["error"]} is raised before any fit, '
                                    f'the real call {"returned" if raised is None else "raised " + type(raised).__name__}', meta, False))
        return
    # ---- (1) execute the plan with direct calls of the real wrapped method on one fresh fitter
    hist, direct_err = [], None
    try:
        for d, kw in plan['calls']:
            hist.append(getattr(fitter, method)(resolve_data(d, dset), **{k: resolve(v, hist, mk) for k, v in kw}))
    except Exception as e:
        direct_err = e
    if raised is not None or direct_err is not None:
        if raised is None or direct_err is None or type(raised) is not type(direct_err):
            report('c17.collab', f'collab:{method}:raises', f'{what}: the real call {"returned" if raised is None else "raised " + type(raised).__name__ + ": " + str(raised)[:80]}'
                   f', the planned direct calls {"returned" if direct_err is None else "raised " + type(direct_err).__name__ + ": " + str(direct_err)[:80]}', meta)
        else:
            ctx.count('collab:plan-and-real-both-raise:' + type(raised).__name__)
        return
    fails = []
    if np.shape(b) != np.shape(dset):
        fails.append(f'baselines have shape {np.shape(b)}, the data set {np.shape(dset)}')
    else:
        for i, ci in enumerate(plan['results']):
            if not close(b[i], hist[ci][0]):
                fails.append(f'baseline {i} is not the single-pass {method} fit of data set {i} with the reported average weights '
                             f'(max diff {float(np.max(np.abs(b[i] - hist[ci][0]))):.3g})')
                break
            if not same(b[i], hist[ci][0]):
                ctx.count('collab:baseline-not-bit-exact')
    if not close(p['average_weights'], resolve(plan['avg_weights'], hist, mk)):
        fails.append('average_weights are not the ' + ('weights of the fit of the mean data' if avg else 'mean of the individual weights'))
    if (plan['avg_alpha'] is None) != ('average_alpha' not in p):
        fails.append('average_alpha is ' + ('not reported' if 'average_alpha' not in p else 'reported for a method without alpha'))
    elif plan['avg_alpha'] is not None and not close(p['average_alpha'], resolve(plan['avg_alpha'], hist, mk)):
        fails.append('average_alpha is not the ' + ('alpha of the fit of the mean data' if avg else 'mean of the individual alpha'))
    mp = p['method_params']
    want_keys = list(hist[plan['results'][0]][1]) if plan['results'] else []
    if list(mp) != want_keys:
        fails.append(f'method_params has keys {list(mp)}, the wrapped method returns {want_keys}')
    else:
        for key in want_keys:
            if len(mp[key]) != len(plan['results']) or not all(close(mp[key][i], hist[ci][1][key]) for i, ci in enumerate(plan['results'])
                                                               if np.ndim(hist[ci][1][key]) > 0 and np.asarray(hist[ci][1][key]).dtype.kind == 'f'):
                fails.append(f'method_params[{key}] is not the list of that parameter of the {len(plan["results"])} final fits in order')
    for fl in fails:
        report('c17.collab', f'collab:{method}', f'{what}: {fl}', meta)
    # ---- (2) the calls the real collab_pls made vs the plan
    if rec is None:
        return
    tr = rec.calls
    if len(tr) != len(plan['calls']):
        dis.append(Disagreement('c17.model', 'model:collab:ncalls', f'{what}: {len(tr)} calls of the wrapped method, the Lean planner says {len(plan["calls"])}', meta, False))
        return
    outs = [t['out'] for t in tr]
    for j, (t, (d, kw)) in enumerate(zip(tr, plan['calls'])):
        bad = None
        if t['nargs'] != 0:
            bad = 'extra positional arguments'
        elif not same(t['data'], resolve_data(d, dset)):
            bad = f'data is not {"the mean data set" if d == "mean" else "data set " + d[1:]}'
        elif t['keys'] != [k for k, _ in kw]:
            bad = f'keyword arguments {t["keys"]}, the planner says {[k for k, _ in kw]}'
        else:
            for k_, v in kw:
                got, want_v = t['kw'][k_], resolve(v, outs, mk)
                ok = (got is True) if v == 'true' else (isinstance(got, float) and got == np.inf) if v == 'inf' else \
                    same(got, want_v) if isinstance(want_v, np.ndarray) else got == want_v
                if not ok:
                    bad = f'keyword {k_} is not {v}'
                    break
        if bad:
            dis.append(Disagreement('c17.model', 'model:collab:trace', f'{what}: call {j} of the wrapped method: {bad}', meta, False))
            return
    ctx.count('collab:trace-checked')
    # ---- (3) the Lean semantics of the plan with the recorded fits as the oracle predicts the recorded arguments (exact rationals)
    if len(dset) and dset[0].size <= 64 or ctx.thorough or ctx.rng.random() < 0.5:
        flat = [np.ravel(e) for e in dset]
        fits = ';'.join('~'.join(qs(np.ravel(v)) for v in (o[0], o[1]['weights'], o[1].get('alpha', np.zeros(0)))) for o in outs)
        lines.append(f'c17.collabrun {int(c["two_d"])} {mname} {int(avg)} {",".join(mk) if mk else "-"} {";".join(qs(e) for e in flat)} {fits}')
        exp.append((tr, b, p, mk))
        metas.append(('collabrun', meta))
    if avg is False and len(dset) > 1 and ctx.rng.random() < 0.5:
        rows = [o[1]['weights'].ravel() for o in outs[:len(dset)]]
        lines.append('c17.mean ' + ';'.join(qs(r) for r in rows))
        exp.append(np.mean(np.array(rows), axis=0))
        metas.append(('mean', meta))


def collabrun_compare(r, e):
    """the trace predicted by Collab.runCollab (oracle = the recorded fits) vs the recorded calls of the real collab_pls"""
    tr, b, p, mk = e
    trace_s, base_s, avgw_s, avga_s = r.split('#')
    recs = [] if trace_s == '-' else trace_s.split(';')
    if len(recs) != len(tr):
        return f'{len(tr)} calls were made, the model makes {len(recs)}'

    def arr(s):
        return np.array([float(v) for v in parse_qs(s)])

    def arg_ok(s, got, key):
        if s.startswith('arr:'):
            return isinstance(got, np.ndarray) and close(np.ravel(got), arr(s[4:]), 1e-14)
        if s == 'inf':
            return isinstance(got, float) and got == np.inf
        if s == 'true':
            return got is True
        return s == 'u:' + key and (same(got, mk[key]) if isinstance(mk[key], np.ndarray) else got == mk[key])
    for j, (t, rs) in enumerate(zip(tr, recs)):
        d_s, kw_s = rs.split('~')
        if not close(np.ravel(t['data']), arr(d_s), 1e-14):
            return f'call {j}: the data argument differs from the model'
        kws = [] if kw_s == '-' else [tuple(x.split('=', 1)) for x in kw_s.split('&')]
        if [k for k, _ in kws] != t['keys']:
            return f'call {j}: keyword arguments {t["keys"]}, the model says {[k for k, _ in kws]}'
        for k_, v in kws:
            if not arg_ok(v, t['kw'][k_], k_):
                return f'call {j}: keyword {k_} differs from the model ({v[:12]}…)'
    mb = np.array([[float(v) for v in parse_qs(row)] for row in base_s.split(';')]) if base_s != '-' else np.zeros((0,))
    if not same(mb.reshape(np.shape(b)) if mb.size == np.size(b) else mb, b):
        return 'the returned baselines are not the baselines of the fits the model reports'
    if not close(np.ravel(p['average_weights']), arr(avgw_s[4:]), 1e-14):
        return 'average_weights differ from the model'
    if (avga_s == 'none') != ('average_alpha' not in p) or (avga_s != 'none' and not close(np.ravel(p['average_alpha']), arr(avga_s[4:]), 1e-14)):
        return 'average_alpha differs from the model'
    return None


def reference_extended(module, x, y, method, side, ws, mk, poly_like, optimal):
    """the documented construction, executed in sorted order with direct calls of the wrapped method"""
    from pybaselines import Baseline
    from pybaselines.utils import _get_edges, gaussian
    n = len(x)
    so = np.argsort(x, kind='mergesort')
    xs_, ys_ = x[so], y[so]
    k = int(n * ws)
    left, right = _get_edges(ys_, k)
    g = gaussian(np.linspace(-k / 2, k / 2, k), 1.0 * abs(y.max()), 0, k * (1 / 12))
    xr = xs_[-1] - xs_[0]
    fx, fy = xs_, ys_
    lower = upper = 0
    if side in ('right', 'both'):
        fx = np.concatenate((fx, np.linspace(xs_[-1], xs_[-1] + xr * (ws / 2), k + 1)[1:]))
        fy = np.concatenate((fy, g + right))
        upper = k
    if side in ('left', 'both'):
        fx = np.concatenate((np.linspace(xs_[0] - xr * (ws / 2), xs_[0], k + 1)[:-1], fx))
        fy = np.concatenate((g + left, fy))
        lower = k
    kw = dict(mk)
    for key in ('weights', 'alpha'):
        if key in kw:
            kw[key] = np.pad(np.asarray(kw[key])[so], [0 if side == 'right' else k, 0 if side == 'left' else k], 'constant', constant_values=1)
    kw['poly_order' if poly_like else 'lam'] = int(optimal) if poly_like else optimal
    b, p = getattr(Baseline(fx), method)(fy, **kw)
    inv = np.argsort(so)
    out = b[lower:len(fy) - upper][inv]
    w = p.get('weights')
    if w is not None and np.shape(w) == np.shape(b):
        w = np.asarray(w)[lower:len(fy) - upper][inv]
    else:
        w = None
    return out, w


def search(ctx, hints, lean_failed):
    sub = type(ctx)(ctx.prop, 'thorough', ctx.seed + 1)
    return [d for d in correspond(sub) if d.property_level]


def replay(ctx, data):
    from . import methods as M
    r = data['replay']
    if r.get('kind') == 'fuzz':
        from . import hist
        f = [x for x in hist.run(r['spec'], want=('fresh',)) if x[1] == 'fresh']
        return f'call {f[0][0] + 1}: {f[0][2]}' if f else None
    reg = M.registry(False)
    module = {k: v['module'] for k, v in reg.items()}
    try:
        x = np.array(r['x'])
        d = np.array(r['data'])
        call = caller(r['iface'], module, x)
        direct = caller('class', module, x)
        if r['optimizer'] == 'collab_pls':
            mk = {k: (np.array(v) if isinstance(v, list) else v) for k, v in r['method_kwargs'].items()}
            method = r['method']
            if r.get('two_d'):
                from pybaselines import Baseline2D
                z = np.array(r['z'])
                call = direct = lambda name, y, **kw: getattr(Baseline2D(x, z), name)(y, **kw)
            b, p = call('collab_pls', d, average_dataset=r['average_dataset'], method=r.get('mname', method), method_kwargs=dict(mk))
            kws = dict(mk, weights=p['average_weights'])
            if method in ('aspls', 'pspline_aspls'):
                kws['alpha'] = p['average_alpha']
            if r.get('two_d') or method not in ('mpls', 'pspline_mpls', 'fabc'):
                kws['tol'] = np.inf
            if method in ('brpls', 'pspline_brpls'):
                kws['tol_2'] = np.inf
            if method == 'fabc':
                kws['weights_as_mask'] = True
            for i in range(len(d)):
                if not close(b[i], direct(method, d[i], **kws)[0]):
                    return f'collab_pls baseline {i} is not the single-pass fit with the reported weights'
        elif r['optimizer'] == 'adaptive_minmax':
            w = None if r['weights'] is None else np.array(r['weights'])
            po = r['poly_order']
            po = tuple(po) if isinstance(po, list) else po
            cf = tuple(r['constrained_fraction']) if isinstance(r['constrained_fraction'], list) else r['constrained_fraction']
            cw = tuple(r['constrained_weight']) if isinstance(r['constrained_weight'], list) else r['constrained_weight']
            mk = dict(r.get('method_kwargs') or {})
            b, p = call('adaptive_minmax', d, poly_order=po, method=r['method'], weights=w, constrained_fraction=cf, constrained_weight=cw, method_kwargs=dict(mk))
            fits = [direct(r['method'], d, poly_order=int(o), weights=np.array(wt, copy=True), **mk)[0] for o in p['poly_order'] for wt in (p['weights'], p['constrained_weights'])]
            if not close(b, np.maximum.reduce(fits)):
                return 'adaptive_minmax baseline is not the maximum of the four fits'
        elif r['optimizer'] == 'custom_bc':
            b, _ = call('custom_bc', d, method=r['method'], method_kwargs=dict(r['method_kwargs']))
            if not close(b, direct(r['method'], d, **r['method_kwargs'])[0]):
                return 'custom_bc (identity plan) differs from the wrapped method'
        elif r['optimizer'] == 'optimize_extended_range':
            mk = {k: (np.array(v) if isinstance(v, list) else v) for k, v in r['method_kwargs'].items()}
            b, p = call('optimize_extended_range', d, method=r['method'], side=r['side'], width_scale=r['width_scale'], method_kwargs=dict(mk), **r['range'])
            poly_like = module[r['method']] == 'polynomial' or r['method'] in ('dietrich', 'cwt_br')
            want, _ = reference_extended(module, x, d, r['method'], r['side'], r['width_scale'], mk, poly_like, p['optimal_parameter'])
            if np.shape(b) != np.shape(d) or not close(b, want, 1e-8):
                return 'optimize_extended_range baseline differs from the direct fit of the extended data'
    except Exception as e:
        return f'{type(e).__name__}: {e}'
    return None
