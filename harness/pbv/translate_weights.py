"""Route A for C09: translate the FINAL WEIGHT EXPRESSION of every rule of `pybaselines/_weighting.py` into the
deep-embedded expression type of `lean/PbVerif/Model/WExpr.lean` (written to `Gen/WeightExprs.lean` on every run).

The translator is a small symbolic executor over the function body's AST.  It understands exactly this fragment:

* `residual = y - baseline` (the per-point residual `r`), `y > baseline` (read as `r > 0`);
* single assignments of local names, which are inlined; `weights = np.full(shape_y, v, dtype=float)` / `np.zeros_like(y)`
  defaults; masked assignment `weights[mask] = e` and `weights[mask] /= e` over such a default; `weights *= e`;
* masks `residual < 0`, `residual > 0` (named or inline) and masked reads `residual[mask]`;
* + - * /, unary minus, `**` with an integer exponent, decimal constants (kept exactly, as rationals), integer constants;
* `np.exp`, `np.sqrt`, `np.abs`, `expit`, builtin `min` / `max`, `np.clip(x, lo, hi)`, `np.where(c, a, b)`;
* the step statistics the hand model (`Model/Weighting.lean`) takes as parameters, recognised STRUCTURALLY:
  `_safe_std(residual[residual < 0], ddof=1)` -> `std`, `np.mean(residual[residual < 0])` -> `meanNeg`,
  `residual[residual < 0].sum()` -> `sumNeg`, `weights[neg_mask].max()` -> `maxNegW`; the machine constant
  `log_max - np.spacing(log_max)` with `log_max = np.log(np.finfo(y.dtype).max)` -> `clipMax`; `_MIN_FLOAT` -> `minFloat`;
* the documented early-exit guard `if neg_residual.size < 2: ... return ...` (recorded, not part of the expression),
  `if <param> is None: <param> = ...` (the parameter stays a named input), `if <flag parameter>:` under a fixed
  value of the flag (one translated variant per value).

Anything else raises `Unsupported`: the rule gets a `translationFailed` marker (its expression becomes the literal 0,
so `gen_<rule>_eq_model` cannot be proved) and the failure is reported to the runner (`GEN_TABLES` of c09.py).

The source file is `$PBV_WEIGHTING_SRC` if set (used to demonstrate, on a scratch COPY, that edits of the source
break the named theorems), else `<repo>/pybaselines/_weighting.py`."""
import ast
import os
from fractions import Fraction

from . import common


class Unsupported(Exception):
    pass


# ----------------------------------------------------------------------------- what the inputs are
SCALARS = {'p', 'k', 'asymmetric_coef', 'quantile', 'eps', 'beta'}
NATS = {'iteration'}
FLAGS = {'normalize_weights'}
POINTWISE = {'partial_weights'}
SHAPES = {'shape_y'}
MODULE_INPUTS = {'_MIN_FLOAT': 'minFloat'}
MACHINE = {'np.log(np.finfo(y.dtype).max)': 'logMax'}
GUARDS = {'neg_residual.size < 2': ('neg_residual',)}

# (lean name, python function, fixed flag values)
RULES = [
    ('asls', '_asls', {}),
    ('airpls', '_airpls', {'normalize_weights': False}),
    ('airplsNorm', '_airpls', {'normalize_weights': True}),
    ('arpls', '_arpls', {}),
    ('drpls', '_drpls', {}),
    ('iarpls', '_iarpls', {}),
    ('aspls', '_aspls', {}),
    ('psalsa', '_psalsa', {}),
    ('derpsalsa', '_derpsalsa', {}),
    ('lsrpls', '_lsrpls', {}),
    ('quantile', '_quantile', {}),
    ('brpls', '_brpls', {}),
]
# rules that are known to lie outside the fragment on the unchanged tree; a failure of these is recorded in the
# generated file but is not an alarm (there is no `gen_brpls_eq_model`; Props/C09 keeps `brpls_range_partial`)
EXPECTED_UNTRANSLATED = {'brpls': 'scipy.special.erf, np.pi and the finfo-derived clipping bounds are outside the fragment'}


# ----------------------------------------------------------------------------- expressions (nested tuples)
R = ('r',)


def nat(n):
    return ('nat', int(n))


def lean_n(e):
    k = e[0]
    if k == 'lit':
        return f'(.lit {e[1]})'
    if k == 'var':
        return f'(.var "{e[1]}")'
    if k == 'min':
        return f'(.min {lean_n(e[1])} {lean_n(e[2])})'
    raise AssertionError(e)


def lean(e):
    k = e[0]
    if k == 'nat':
        return f'(.nat {e[1]})'
    if k == 'rat':
        return f'(.rat {e[1]} {e[2]})'
    if k == 'var':
        return f'(.var "{e[1]}")'
    if k == 'r':
        return '.r'
    if k == 'ofNat':
        return f'(.ofNat {lean_n(e[1])})'
    if k == 'pow':
        return f'(.pow {lean(e[1])} {lean_n(e[2])})'
    if k in ('add', 'sub', 'mul', 'div', 'min', 'max', 'neg', 'abs', 'sqrt', 'exp', 'expit', 'iflt'):
        return f'(.{k} ' + ' '.join(lean(a) for a in e[1:]) + ')'
    raise AssertionError(e)


def show_n(e):
    k = e[0]
    return str(e[1]) if k in ('lit', 'var') else f'min({show_n(e[1])}, {show_n(e[2])})'


def show(e):
    """readable rendering for the comment next to each generated definition"""
    k = e[0]
    if k == 'nat':
        return str(e[1])
    if k == 'rat':
        return f'({e[1]}/{e[2]})'
    if k == 'var':
        return e[1]
    if k == 'r':
        return 'r'
    if k == 'ofNat':
        return show_n(e[1])
    if k == 'pow':
        return f'{show(e[1])}^{show_n(e[2])}'
    if k in ('add', 'sub', 'mul', 'div'):
        return f'({show(e[1])} {dict(add="+", sub="-", mul="*", div="/")[k]} {show(e[2])})'
    if k == 'neg':
        return f'-{show(e[1])}'
    if k == 'iflt':
        return f'(if {show(e[1])} < {show(e[2])} then {show(e[3])} else {show(e[4])})'
    return f'{k}(' + ', '.join(show(a) for a in e[1:]) + ')'


def variables(e, out=None):
    """(named numbers, named integers) an expression reads"""
    out = out if out is not None else (set(), set())
    k = e[0]
    if k == 'var':
        out[0].add(e[1])
    elif k == 'ofNat':
        _nvars(e[1], out[1])
    elif k == 'pow':
        variables(e[1], out)
        _nvars(e[2], out[1])
    elif k not in ('nat', 'rat', 'r'):
        for a in e[1:]:
            variables(a, out)
    return out


def _nvars(e, s):
    if e[0] == 'var':
        s.add(e[1])
    elif e[0] == 'min':
        _nvars(e[1], s)
        _nvars(e[2], s)


# ----------------------------------------------------------------------------- symbolic values
class Num:
    """a number: scalar (pt=False) or one value per data point (pt=True)"""
    def __init__(self, e, pt=False):
        self.e, self.pt = e, pt


class Masked:
    """`x[mask]`: a per-point value restricted to the points where cond = (a, b), meaning a < b, holds"""
    def __init__(self, e, cond):
        self.e, self.cond = e, cond


class NatV:
    def __init__(self, e):
        self.e = e


class IntLit:
    def __init__(self, n):
        self.n = n


class Cond:
    def __init__(self, a, b):
        self.a, self.b = a, b          # a < b


class Data:
    def __init__(self, which):
        self.which = which             # 'y' | 'b'


class Opaque:
    def __init__(self, name):
        self.name = name


class Flag:
    def __init__(self, v):
        self.v = v


class Shape:
    pass


def _src(node):
    return ast.unparse(node)


class Exec:
    def __init__(self, fn, flags, source):
        self.fn, self.flags, self.source = fn, flags, source
        self.locals = {}
        self.guards = []
        self.notes = []
        args = [a.arg for a in fn.args.args]
        if len(args) < 2 or fn.args.vararg or fn.args.kwarg or fn.args.kwonlyargs:
            raise Unsupported('signature')
        self.locals[args[0]] = Data('y')
        self.locals[args[1]] = Data('b')
        self.params = args[2:]
        for a in args[2:]:
            if a in SCALARS:
                self.locals[a] = Num(('var', a))
            elif a in NATS:
                self.locals[a] = NatV(('var', a))
            elif a in POINTWISE:
                self.locals[a] = Num(('var', a), pt=True)
            elif a in SHAPES:
                self.locals[a] = Shape()
            elif a in FLAGS:
                if a not in flags:
                    raise Unsupported(f'flag parameter {a} without a fixed value')
                self.locals[a] = Flag(flags[a])
            else:
                raise Unsupported(f'parameter {a} of unknown kind')
        self.result = None

    # ---- coercions
    def num(self, v, what=''):
        if isinstance(v, Num):
            return v
        if isinstance(v, IntLit):
            if v.n < 0:
                raise Unsupported('negative integer literal')
            return Num(nat(v.n))
        if isinstance(v, NatV):
            return Num(('ofNat', v.e))
        raise Unsupported(f'not a number: {type(v).__name__} {what}')

    def natv(self, v):
        if isinstance(v, NatV):
            return v.e
        if isinstance(v, IntLit) and v.n >= 0:
            return ('lit', v.n)
        return None

    def cond(self, v, what=''):
        if isinstance(v, Cond):
            return v
        raise Unsupported(f'not a mask: {type(v).__name__} {what}')

    # ---- expressions
    def ev(self, node):
        txt = _src(node)
        if txt in MACHINE:
            return Opaque(MACHINE[txt])
        if txt == 'log_max - np.spacing(log_max)':
            lm = self.locals.get('log_max')
            if isinstance(lm, Opaque) and lm.name == 'logMax':
                return Num(('var', 'clipMax'))
            raise Unsupported('log_max is not log(finfo.max)')
        if isinstance(node, ast.Constant):
            v = node.value
            if isinstance(v, bool):
                return Flag(v)
            if isinstance(v, int):
                return IntLit(v)
            if isinstance(v, float):
                seg = ast.get_source_segment(self.source, node)
                try:
                    f = Fraction(seg)          # the decimal text, exactly
                except (ValueError, TypeError):
                    raise Unsupported(f'constant {seg!r}')
                if f < 0:
                    raise Unsupported('negative constant')
                return Num(nat(f.numerator) if f.denominator == 1 else ('rat', f.numerator, f.denominator))
            if v is None:
                return None
            raise Unsupported(f'constant {v!r}')
        if isinstance(node, ast.Name):
            if node.id in self.locals:
                return self.locals[node.id]
            if node.id in MODULE_INPUTS:
                return Num(('var', MODULE_INPUTS[node.id]))
            raise Unsupported(f'name {node.id}')
        if isinstance(node, ast.UnaryOp) and isinstance(node.op, ast.USub):
            v = self.ev(node.operand)
            if isinstance(v, Masked):
                return Masked(('neg', v.e), v.cond)
            v = self.num(v, txt)
            return Num(('neg', v.e), v.pt)
        if isinstance(node, ast.BinOp):
            return self.binop(node, txt)
        if isinstance(node, ast.Compare):
            if len(node.ops) != 1:
                raise Unsupported('chained comparison')
            a, b = self.ev(node.left), self.ev(node.comparators[0])
            op = node.ops[0]
            if isinstance(a, Data) and isinstance(b, Data) and (a.which, b.which) == ('y', 'b'):
                a, b = Num(R, True), Num(nat(0))          # y > baseline  <=>  y - baseline > 0
            a, b = self.num(a, txt), self.num(b, txt)
            if isinstance(op, ast.Lt):
                return Cond(a.e, b.e)
            if isinstance(op, ast.Gt):
                return Cond(b.e, a.e)
            raise Unsupported(f'comparison {type(op).__name__}')
        if isinstance(node, ast.Subscript):
            base = self.ev(node.value)
            m = self.cond(self.ev(node.slice), txt)
            if isinstance(base, Num) and base.pt:
                return Masked(base.e, (m.a, m.b))
            raise Unsupported(f'subscript of {type(base).__name__}')
        if isinstance(node, ast.Call):
            return self.call(node, txt)
        raise Unsupported(f'{type(node).__name__}: {txt[:60]}')

    def binop(self, node, txt):
        a, b = self.ev(node.left), self.ev(node.right)
        op = node.op
        if isinstance(op, ast.Pow):
            e = self.natv(b)
            if e is None:
                raise Unsupported(f'exponent of {txt[:60]}')
            if isinstance(a, Masked):
                return Masked(('pow', a.e, e), a.cond)
            a = self.num(a, txt)
            return Num(('pow', a.e, e), a.pt)
        if isinstance(a, Data) and isinstance(b, Data):
            if isinstance(op, ast.Sub) and (a.which, b.which) == ('y', 'b'):
                return Num(R, True)
            raise Unsupported(f'data arithmetic {txt}')
        k = {ast.Add: 'add', ast.Sub: 'sub', ast.Mult: 'mul', ast.Div: 'div'}.get(type(op))
        if k is None:
            raise Unsupported(f'operator {type(op).__name__}')
        return self.lift(k, [a, b], txt)

    def lift(self, k, args, txt):
        """apply a pointwise operation; masked operands keep (and must share) their mask"""
        conds = [a.cond for a in args if isinstance(a, Masked)]
        if conds:
            if any(c != conds[0] for c in conds):
                raise Unsupported(f'operands with different masks in {txt[:60]}')
            es = []
            for a in args:
                if isinstance(a, Masked):
                    es.append(a.e)
                else:
                    a = self.num(a, txt)
                    if a.pt:
                        raise Unsupported(f'masked and unmasked per-point operands in {txt[:60]}')
                    es.append(a.e)
            return Masked((k, *es), conds[0])
        ns = [self.num(a, txt) for a in args]
        return Num((k, *[n.e for n in ns]), any(n.pt for n in ns))

    def stat(self, red, v, txt):
        """reductions over the residual: only the statistics the hand model names"""
        if isinstance(v, Masked):
            key = (red, v.e, v.cond)
            table = {
                ('mean', R, (R, nat(0))): 'meanNeg',
                ('sum', R, (R, nat(0))): 'sumNeg',
                ('safe_std_ddof1', R, (R, nat(0))): 'std',
            }
            if key in table:
                return Num(('var', table[key]))
            w = self.locals.get('weights')
            if red == 'max' and isinstance(w, Num) and v.e == w.e and v.cond == (R, nat(0)):
                return Num(('var', 'maxNegW'))
        raise Unsupported(f'statistic {txt[:70]}')

    def call(self, node, txt):
        f = node.func
        kw = {k.arg: k.value for k in node.keywords}
        if None in kw:
            raise Unsupported('**kwargs')
        name = None
        if isinstance(f, ast.Attribute) and isinstance(f.value, ast.Name) and f.value.id == 'np':
            name = 'np.' + f.attr
        elif isinstance(f, ast.Name):
            name = f.id
        elif isinstance(f, ast.Attribute):
            # method call on a value: x.sum(), x.max()
            if f.attr in ('sum', 'max', 'mean') and not node.args and not kw:
                return self.stat(f.attr, self.ev(f.value), txt)
            raise Unsupported(f'method {f.attr}')
        if name in ('np.exp', 'np.sqrt', 'np.abs', 'expit') and len(node.args) == 1 and not kw:
            return self.lift(name.split('.')[-1], [self.ev(node.args[0])], txt)
        if name in ('min', 'max') and len(node.args) == 2 and not kw:
            a, b = self.ev(node.args[0]), self.ev(node.args[1])
            na, nb = self.natv(a), self.natv(b)
            if na is not None and nb is not None:
                if name == 'min':
                    return NatV(('min', na, nb))
                raise Unsupported('max of integers')
            a, b = self.num(a, txt), self.num(b, txt)
            if a.pt or b.pt:
                raise Unsupported(f'builtin {name} of arrays')
            return Num((name, a.e, b.e))
        if name == 'np.clip':
            args = list(node.args)
            x = args[0] if args else None
            lo = args[1] if len(args) > 1 else kw.get('a_min')
            hi = args[2] if len(args) > 2 else kw.get('a_max')
            if x is None or lo is None or hi is None or set(kw) - {'a_min', 'a_max'} or len(args) > 3:
                raise Unsupported(f'clip form {txt[:60]}')
            inner = self.lift('max', [self.ev(x), self.ev(lo)], txt)
            return self.lift('min', [inner, self.ev(hi)], txt)
        if name == 'np.where' and len(node.args) == 3 and not kw:
            c = self.cond(self.ev(node.args[0]), txt)
            a, b = self.num(self.ev(node.args[1]), txt), self.num(self.ev(node.args[2]), txt)
            return Num(('iflt', c.a, c.b, a.e, b.e), True)
        if name == 'np.full' and len(node.args) == 2 and set(kw) <= {'dtype'}:
            if not isinstance(self.ev(node.args[0]), Shape):
                raise Unsupported('np.full shape')
            if 'dtype' in kw and _src(kw['dtype']) != 'float':
                raise Unsupported('np.full dtype')
            v = self.num(self.ev(node.args[1]), txt)
            if v.pt:
                raise Unsupported('np.full value')
            return Num(v.e, True)
        if name == 'np.zeros_like' and len(node.args) == 1 and not kw and isinstance(self.ev(node.args[0]), Data):
            return Num(nat(0), True)
        if name == 'np.mean' and len(node.args) == 1 and not kw:
            return self.stat('mean', self.ev(node.args[0]), txt)
        if name == '_safe_std' and len(node.args) == 1 and set(kw) == {'ddof'} and _src(kw['ddof']) == '1':
            return self.stat('safe_std_ddof1', self.ev(node.args[0]), txt)
        raise Unsupported(f'call {txt[:70]}')

    # ---- statements
    def run(self):
        body = [s for s in self.fn.body if not (isinstance(s, ast.Expr) and isinstance(s.value, ast.Constant))]
        for i, st in enumerate(body):
            if isinstance(st, ast.Return):
                if i != len(body) - 1:
                    raise Unsupported('return before the end')
                v = st.value
                if isinstance(v, ast.Tuple):
                    v = v.elts[0]
                w = self.ev(v)
                if not (isinstance(w, Num) and w.pt):
                    raise Unsupported('returned weights are not a per-point number')
                self.result = w.e
                return
            self.stmt(st)
        raise Unsupported('no final return')

    def stmt(self, st):
        if isinstance(st, ast.Assign):
            if len(st.targets) != 1:
                raise Unsupported('chained assignment')
            t = st.targets[0]
            if isinstance(t, ast.Name):
                if t.id in self.params:
                    raise Unsupported(f're-assignment of parameter {t.id}')
                self.locals[t.id] = self.ev(st.value)
                return
            if isinstance(t, ast.Subscript) and isinstance(t.value, ast.Name):
                self.masked_store(t, self.ev(st.value), None)
                return
            raise Unsupported('assignment target')
        if isinstance(st, ast.AugAssign):
            k = {ast.Mult: 'mul', ast.Div: 'div', ast.Add: 'add', ast.Sub: 'sub'}.get(type(st.op))
            if k is None:
                raise Unsupported('augmented operator')
            t = st.target
            if isinstance(t, ast.Name):
                old = self.locals.get(t.id)
                if not (isinstance(old, Num) and old.pt):
                    raise Unsupported(f'augmented assignment to {t.id}')
                v = self.num(self.ev(st.value), _src(st))
                self.locals[t.id] = Num((k, old.e, v.e), True)
                return
            if isinstance(t, ast.Subscript) and isinstance(t.value, ast.Name):
                self.masked_store(t, self.ev(st.value), k)
                return
            raise Unsupported('augmented target')
        if isinstance(st, ast.If):
            return self.if_(st)
        raise Unsupported(f'statement {type(st).__name__}')

    def masked_store(self, t, rhs, aug):
        old = self.locals.get(t.value.id)
        m = self.cond(self.ev(t.slice), _src(t))
        c = (m.a, m.b)
        if not (isinstance(old, Num) and old.pt):
            raise Unsupported(f'masked store into {t.value.id}')
        if isinstance(rhs, Masked):
            if rhs.cond != c:
                raise Unsupported('mask of the value differs from the mask of the target')
            e = rhs.e
        else:
            rhs = self.num(rhs, _src(t))
            if rhs.pt:
                raise Unsupported('unmasked per-point value stored under a mask')
            e = rhs.e
        new = e if aug is None else (aug, old.e, e)
        self.locals[t.value.id] = Num(('iflt', c[0], c[1], new, old.e), True)

    def if_(self, st):
        txt = _src(st.test)
        if txt in GUARDS:
            for nm in GUARDS[txt]:
                v = self.locals.get(nm)
                if not (isinstance(v, Masked) and v.e == R and v.cond == (R, nat(0))):
                    raise Unsupported(f'guard {txt}: {nm} is not residual[residual < 0]')
            if not (st.body and isinstance(st.body[-1], ast.Return)):
                raise Unsupported(f'guard {txt} does not return')
            self.guards.append(txt)
            for s in st.orelse:
                self.stmt(s)
            return
        t = st.test
        if (isinstance(t, ast.Compare) and len(t.ops) == 1 and isinstance(t.ops[0], ast.Is) and isinstance(t.left, ast.Name)
                and isinstance(t.comparators[0], ast.Constant) and t.comparators[0].value is None
                and t.left.id in self.params and t.left.id in SCALARS and not st.orelse
                and len(st.body) == 1 and isinstance(st.body[0], ast.Assign) and len(st.body[0].targets) == 1
                and isinstance(st.body[0].targets[0], ast.Name) and st.body[0].targets[0].id == t.left.id):
            self.notes.append(f'{t.left.id}: the argument, or when None the default `{_src(st.body[0].value)}`')
            return
        if isinstance(t, ast.Name) and isinstance(self.locals.get(t.id), Flag) and t.id in self.flags:
            for s in (st.body if self.locals[t.id].v else st.orelse):
                self.stmt(s)
            return
        raise Unsupported(f'if {txt[:60]}')


def translate_source(source):
    """{lean name: (expr | None, guards, notes, failure text | None)}"""
    out = {}
    try:
        tree = ast.parse(source)
        fns = {n.name: n for n in tree.body if isinstance(n, ast.FunctionDef)}
    except SyntaxError as e:
        fns = None
        err = f'cannot parse ({e})'
    for lname, fname, flags in RULES:
        if fns is None:
            out[lname] = (None, [], [], err)
            continue
        try:
            if fname not in fns:
                raise Unsupported('function not found')
            ex = Exec(fns[fname], flags, source)
            ex.run()
            out[lname] = (ex.result, ex.guards, ex.notes, None)
        except Unsupported as e:
            out[lname] = (None, [], [], str(e))
        except Exception as e:       # never guess: an internal error of the translator is a failure of the rule
            out[lname] = (None, [], [], f'translator error {type(e).__name__}: {e}')
    return out


def source_path():
    return os.environ.get('PBV_WEIGHTING_SRC') or os.path.join(common.REPO, 'pybaselines', '_weighting.py')


def gen_weight_exprs(write):
    path = source_path()
    fails = []
    try:
        source = open(path).read()
    except OSError as e:
        source = None
        fails.append(f'WeightExprs: cannot read {path} ({e})')
    res = translate_source(source) if source is not None else {l: (None, [], [], 'source unreadable') for l, _, _ in RULES}
    lines = ['import PbVerif.Model.WExpr',
             '/-! GENERATED on every run by harness/pbv/translate_weights.py from pybaselines/_weighting.py — do not edit.',
             'The final weight expression of each rule (local names inlined; `r` = `y - baseline` of the point). -/',
             'namespace PbVerif.Gen.Src', 'open PbVerif.WExpr', '']
    names = []
    for lname, fname, flags in RULES:
        e, guards, notes, err = res[lname]
        fl = ''.join(f', {k}={v}' for k, v in flags.items())
        if e is not None:
            vs, ns = variables(e)
            lines += [f'/-- `{fname}`{fl}: `{show(e)}`',
                      f'inputs: {", ".join(sorted(vs)) or "-"}; integers: {", ".join(sorted(ns)) or "-"}'
                      + (f'; early-exit guard (outside the expression): {"; ".join(guards)}' if guards else '')
                      + (f'; {"; ".join(notes)}' if notes else '') + ' -/',
                      f'def {lname} : Expr :=', f'  {lean(e)}', f'def {lname}Translated : Bool := true', '']
            names.append(lname)
        else:
            expected = lname in EXPECTED_UNTRANSLATED
            if not expected:
                fails.append(f'WeightExprs:{fname}{fl}: outside the translated fragment ({err})')
            why = EXPECTED_UNTRANSLATED.get(lname, '')
            lines += [f'/-- `{fname}`{fl}: translationFailed — {err}' + (f' (expected: {why})' if expected else '') + ' -/',
                      f'def {lname} : Expr := .nat 0', f'def {lname}Translated : Bool := false  -- translationFailed', '']
    lines += ['/-- the translated rules by name (what the driver op `c09.wexpr` evaluates) -/',
              'def table : List (String × Expr) := [' + ', '.join(f'("{n}", {n})' for n in names) + ']', '',
              'end PbVerif.Gen.Src', '']
    write('WeightExprs.lean', '\n'.join(lines))
    return fails, res
