"""C11 — the difference-penalty matrix and its banded layouts are exact for every size."""
import glob
import json
import os

import numpy as np

from .common import Disagreement, drive, ROOT

PROP_MODULE = 'PbVerif.Props.C11'
GEN_TABLES = ('Diags',)
RULE = ('cases = (function, N, d, lower_only, padding) for the band/matrix builders, (N, pentapy?, reconfiguration history) '
        'for PenalizedSystem/PSpline, and (2-D system kind: Kronecker / P-spline / eigendecomposition, shape, number of eigenvalues, (lam, order) history); non-trivial = N>d with at least one non-default option or a history of length >= 2; '
        'distinct by canonical tuple')
ASSUMPTIONS = [
    'translate.py renders the slice-assignment fragment of _diff_{1,2,3}_diags faithfully (also diffed against the real functions every run)',
    'SciPy sparse products / todia on the general path of diff_penalty_diagonals (d>3 or N<2d+1) are tied by the correspondence only',
    'integer-valued float arithmetic is exact',
    'LAPACK eig_banded / eigh_tridiagonal (2-D eigendecomposition mode) are black boxes: their output is certified on the explored inputs by '
    "orthonormality, the residual |P B - B diag(v)| <= 1e-8 |P| against the model's exact D'D, and agreement with the smallest eigenvalues",
]


def rows_of(a):
    a = np.atleast_2d(np.asarray(a))
    return ';'.join(','.join(str(int(v)) for v in r) for r in a) if a.size else '-'


def is_int_array(a):
    a = np.asarray(a, dtype=float)
    return bool(np.all(np.isfinite(a)) and np.all(a == np.round(a)))


def cfg_str(c):
    d, al, rev, ap, pad = c
    return f'{d},{int(al)},{"N" if rev is None else ("T" if rev else "F")},{int(ap)},{pad}'


def real_system(n, cfgs, cls=None):
    from pybaselines._banded_utils import PenalizedSystem
    d, al, rev, ap, pad = cfgs[0]
    s = PenalizedSystem(n, 1, d, al, rev, ap, padding=pad)
    for k, (d, al, rev, ap, pad) in enumerate(cfgs[1:]):
        # between two reconfigurations the system is USED the way the methods use it (a deterministic function of the history,
        # so that replays repeat it): weights are added to the main diagonal in place and the system is solved, on every other
        # step also with `overwrite_ab=True`; a reconfiguration must not depend on what was done with the penalty before
        if (k + n + d) % 2 == 0:
            use_system(s, n, overwrite_ab=(k % 4 < 2))
        s.reset_diagonals(1, d, al, rev, ap, padding=pad)
    return s


def use_system(s, n, overwrite_ab=False):
    w = np.linspace(0.5, 1.5, n)
    try:
        lhs = s.add_diagonal(w)
        s.solve(lhs, w * np.cos(np.arange(n)), overwrite_ab=overwrite_ab, overwrite_b=True)
    except Exception:      # noqa: BLE001  (some layouts are not meant to be solved directly; the in-place update is what matters)
        pass


def sys_state(s):
    return (f'{rows_of(s.original_diagonals)} {int(s.lower)} {int(s.reversed)} {int(s.using_pentapy)} '
            f'{s.diff_order} {rows_of(s.penalty)}')


def sys_equal(a, b):
    return (a.lower == b.lower and a.reversed == b.reversed and a.using_pentapy == b.using_pentapy
            and a.diff_order == b.diff_order and a.num_bands == b.num_bands
            and a.main_diagonal_index == b.main_diagonal_index
            and np.array_equal(a.original_diagonals, b.original_diagonals) and np.array_equal(a.penalty, b.penalty)
            and np.array_equal(a.main_diagonal, b.main_diagonal))


def dense_from_bands(ab, lower, reversed_, n, nb):
    """dense symmetric matrix denoted by a banded array (nb = number of sub-diagonals)"""
    ab = np.asarray(ab, dtype=float)
    if reversed_:
        ab = ab[::-1]
    A = np.zeros((n, n))
    if lower:
        for r in range(ab.shape[0]):
            for c in range(n - r):
                A[c + r, c] = ab[r, c]
                A[c, c + r] = ab[r, c]
    else:
        u = ab.shape[0] // 2
        for i in range(n):
            for j in range(n):
                r = u + i - j
                if 0 <= r < ab.shape[0]:
                    A[i, j] = ab[r, j]
    return A


def random_cfg(rng, n, dmax):
    return (int(rng.integers(1, dmax + 1)), bool(rng.integers(0, 2)), [None, False, True][int(rng.integers(0, 3))],
            bool(rng.integers(0, 2)), int(rng.integers(-1, 4)))


def history_cases(ctx, rng):
    out = []
    nh = 600 if ctx.thorough else 150
    for _ in range(nh):
        n = int(rng.choice([5, 6, 7, 8, 9, 12, 20]))
        dmax = min(4, n - 1)
        L = int(rng.integers(1, 6 if not ctx.thorough else 10))
        cfgs = [random_cfg(rng, n, dmax) for _ in range(L)]
        if rng.random() < 0.5:   # keep the order fixed in half of the histories so that conversions are exercised
            d0 = cfgs[0][0]
            cfgs = [(d0,) + c[1:] for c in cfgs]
        out.append((n, cfgs))
    return out


def check_history(ctx, n, cfgs):
    """returns (line, real_state, property_failure or None)"""
    from pybaselines import _banded_utils as bu
    s = real_system(n, cfgs)
    f = real_system(n, cfgs[-1:])
    fail = None
    if not sys_equal(s, f):
        fail = 'reused system differs from a fresh one'
    else:
        # the stored penalty must denote D'D in the final layout
        d = cfgs[-1][0]
        D = np.diff(np.eye(n), d, axis=0)
        pad = max(cfgs[-1][4], 0)
        pen = s.penalty
        core = pen[:len(pen) - pad] if s.lower else pen[pad:len(pen) - pad] if pad else pen
        A = dense_from_bands(core, s.lower, s.reversed, n, d)
        if not np.array_equal(A, D.T @ D):
            fail = "stored penalty does not denote D'D"
    line = f'c11.hist {n} {int(bu._HAS_PENTAPY)} ' + '|'.join(cfg_str(c) for c in cfgs)
    return line, sys_state(s), fail


# ---------------------------------------------------------------------------------------------------------------------------------
# 2-D systems: the penalty applied by the 2-D Whittaker / P-spline methods is lam_r kron(D_r'D_r, I) + lam_c kron(I, D_c'D_c); in the
# eigendecomposition mode it is that operator expressed in the retained eigenvectors of D_r'D_r and D_c'D_c.
def dtd_from_model(pairs):
    """exact D'D for every (n, d) pair, from the Lean model (c11.dtd)"""
    pairs = sorted(set(pairs))
    res = drive([f'c11.dtd {n} {d}' for n, d in pairs])
    return {k: np.array([[int(v) for v in row.split(',')] for row in r.split(';')], dtype=float) for k, r in zip(pairs, res)}


def eigen_axis_fail(P, vals, B, d):
    """`vals`, `B` must be the k smallest eigenpairs of P = D'D (the d zero eigenvalues set to exactly 0)"""
    n, k = B.shape
    scale = max(1.0, float(np.abs(P).sum(axis=1).max()))
    if vals.shape != (k,) or not np.all(np.isfinite(vals)) or not np.all(np.isfinite(B)):
        return 'non-finite or mis-shaped eigenpairs'
    if np.abs(B.T @ B - np.eye(k)).max() > 1e-8:
        return 'basis vectors are not orthonormal'
    res = np.abs(P @ B - B * vals[None, :]).max() / scale
    if res > 1e-8:
        return f"basis vectors are not eigenvectors of D'D for difference order {d} (relative residual {res:.3g})"
    ref = np.linalg.eigvalsh(P)[:k]
    if np.abs(ref - vals).max() / scale > 1e-8:
        return f"penalty values are not the {k} smallest eigenvalues of D'D for difference order {d}"
    return None


def eigen_system_fail(ws, shape, lam, dorder, neig, dtd):
    (m, n), (l1, l2), (d1, d2), (k1, k2) = shape, lam, dorder, neig
    if ws.basis_r.shape != (m, k1) or ws.basis_c.shape != (n, k2) or ws.penalty.shape != (k1 * k2,):
        return 'shapes of the eigen-basis / penalty do not match the request'
    pr = np.asarray(ws.penalty_rows).reshape(k1, k2)
    pc = np.asarray(ws.penalty_columns).reshape(k1, k2)
    if not (np.all(pr == pr[:, :1]) and np.all(pc == pc[:1, :])):
        return 'penalty is not of the Kronecker form repeat(rows) + tile(columns)'
    if not np.allclose(ws.penalty, ws.penalty_rows + ws.penalty_columns, rtol=1e-13, atol=0):
        return 'penalty != penalty_rows + penalty_columns'
    f = eigen_axis_fail(dtd[(m, d1)], pr[:, 0] / l1, np.asarray(ws.basis_r), d1)
    if f:
        return 'rows: ' + f
    f = eigen_axis_fail(dtd[(n, d2)], pc[0, :] / l2, np.asarray(ws.basis_c), d2)
    if f:
        return 'columns: ' + f
    return None


def kron_system_fail(pen, nb, lam, dorder, dtd):
    (m, n), (l1, l2), (d1, d2) = nb, lam, dorder
    want = l1 * np.kron(dtd[(m, d1)], np.eye(n)) + l2 * np.kron(np.eye(m), dtd[(n, d2)])
    got = pen.toarray() if hasattr(pen, 'toarray') else np.asarray(pen)
    if got.shape != want.shape:
        return f'penalty has shape {got.shape}, expected {want.shape}'
    if not np.array_equal(got, want):
        return "penalty != lam_r kron(D_r'D_r, I) + lam_c kron(I, D_c'D_c)"
    return None


def cases_2d(ctx, rng):
    """(kind, shape, history) with history = [(lam pair, diff_order pair), ...]; kind in eigen / kron / pspline"""
    out = []
    shapes = [(9, 9), (12, 12), (9, 12), (12, 9), (15, 15), (7, 10)]
    lams = [1.0, 0.5, 4.0, 16.0, 1024.0]
    # directed: every combination of (square?, equal number of eigenvalues?, equal orders?) at least once
    for (m, n) in ((9, 9), (9, 12)):
        for neig in ((5, 5), (5, 6)):
            for d in ((2, 2), (1, 2), (3, 2)):
                out.append(('eigen', (m, n), neig, [((4.0, 0.5), d)]))
                out.append(('eigen', (m, n), neig, [((1.0, 1.0), (d[1], d[1])), ((4.0, 0.5), d)]))
    for _ in range(90 if ctx.thorough else 30):
        kind = ['eigen', 'eigen', 'kron', 'pspline'][int(rng.integers(0, 4))]
        m, n = shapes[int(rng.integers(0, len(shapes)))]
        L = int(rng.integers(1, 4))
        hist = []
        for _ in range(L):
            d = (int(rng.integers(1, 4)), int(rng.integers(1, 4)))
            if rng.random() < 0.3:
                d = (d[0], d[0])
            hist.append(((lams[int(rng.integers(0, len(lams)))], lams[int(rng.integers(0, len(lams)))]), d))
        if kind == 'eigen':
            k = int(rng.integers(4, 8))
            neig = (k, k) if rng.random() < 0.6 else (k, int(rng.integers(4, 8)))
        else:
            neig = None
        out.append((kind, (m, n), neig, hist))
    return out


def run_case_2d(kind, shape, neig, hist, dtd=None):
    """builds the real system the way the methods do, replays the history on it, and returns (failure or None, needed (n, d) pairs)"""
    import warnings
    from pybaselines import Baseline2D
    from pybaselines.two_d._whittaker_utils import WhittakerSystem2D, PenalizedSystem2D
    from pybaselines.two_d._spline_utils import PSpline2D, SplineBasis2D
    m, n = shape
    need = []
    with warnings.catch_warnings():
        warnings.simplefilter('ignore')
        if kind == 'pspline':
            basis = SplineBasis2D(np.linspace(0, 1, m + 6), np.linspace(-1, 1, n + 6), (m - 2, n - 2), (3, 3))
            nb = tuple(int(v) for v in basis._num_bases)
            need = [(nb[0], d[0]) for _, d in hist] + [(nb[1], d[1]) for _, d in hist]
            if dtd is None:
                return None, need
            s = PSpline2D(basis, *hist[0])
            for h in hist[1:]:
                s.reset_penalty(*h)
            fresh = PSpline2D(basis, *hist[-1])
            f = kron_system_fail(s.penalty, nb, hist[-1][0], hist[-1][1], dtd)
            if not f and (s.penalty != fresh.penalty).nnz:
                f = 'reused PSpline2D differs from a fresh one'
            return f, need
        need = [(m, d[0]) for _, d in hist] + [(n, d[1]) for _, d in hist]
        if dtd is None:
            return None, need
        fit = Baseline2D(np.arange(m, dtype=float), np.arange(n, dtype=float))
        _, _, s = fit._setup_whittaker(np.zeros((m, n)), hist[0][0], hist[0][1], None, num_eigens=neig)
        for h in hist[1:]:
            s.reset_diagonals(*h)
        fresh = WhittakerSystem2D((m, n), hist[-1][0], hist[-1][1], neig)
        if kind == 'kron':
            f = kron_system_fail(s.penalty, (m, n), hist[-1][0], hist[-1][1], dtd)
            if not f and (s.penalty != fresh.penalty).nnz:
                f = 'reused system differs from a fresh one'
            if not f:
                f = kron_system_fail(PenalizedSystem2D((m, n), *hist[-1]).penalty, (m, n), hist[-1][0], hist[-1][1], dtd)
            return f, need
        f = eigen_system_fail(s, (m, n), hist[-1][0], hist[-1][1], neig, dtd)
        if not f and not (np.allclose(s.penalty, fresh.penalty, rtol=1e-9, atol=1e-9 * np.abs(fresh.penalty).max())
                          and np.allclose(s.basis_r @ s.basis_r.T, fresh.basis_r @ fresh.basis_r.T, atol=1e-8)
                          and np.allclose(s.basis_c @ s.basis_c.T, fresh.basis_c @ fresh.basis_c.T, atol=1e-8)):
            f = 'reused eigen-system differs from a fresh one'
        if not f and len(hist) == 1:
            # update_penalty (lam only) must agree with a rebuild
            lam2 = (hist[0][0][1] * 2, hist[0][0][0] * 8)
            s.update_penalty(lam2)
            f = eigen_system_fail(s, (m, n), lam2, hist[0][1], neig, dtd)
        return f, need


def correspond_2d(ctx, rng, dis):
    cases = cases_2d(ctx, rng)
    need = []
    for c in cases:
        need += run_case_2d(*c)[1]
    dtd = dtd_from_model(need)
    ctx.traces += len(dtd)
    for kind, shape, neig, hist in cases:
        try:
            f, _ = run_case_2d(kind, shape, neig, hist, dtd)
        except Exception as e:
            f = f'{type(e).__name__}: {e}'
        ctx.case(('2d', kind, shape, neig, tuple(hist)), nontrivial=True,
                 sample={'kind': '2-D ' + kind, 'shape': shape, 'num_eigens': neig, 'history': hist} if kind == 'eigen' and shape[0] == shape[1] else None)
        ctx.count('2d:' + kind + (':square' if shape[0] == shape[1] else ''))
        if f:
            dis.append(Disagreement('c11.2d', f'2d:{kind}', f'2-D {kind} system shape={shape} num_eigens={neig} history={hist}: {f}',
                                    {'kind': '2d', 'sys': kind, 'shape': list(shape), 'num_eigens': neig, 'history': hist}, True))


def correspond(ctx):
    from pybaselines import _banded_utils as bu
    from pybaselines import utils
    rng = ctx.np_rng()
    dis = []
    lines, expect, meta = [], [], []

    def add(line, exp, m):
        lines.append(line)
        expect.append(exp)
        meta.append(m)

    # corpus first
    for f in sorted(glob.glob(os.path.join(ROOT, 'corpus', 'C11_*.json'))):
        d = json.load(open(f))
        r = replay(ctx, d)
        ctx.case(('corpus', os.path.basename(f)))
        if r:
            dis.append(Disagreement('c11.corpus', d['signature'], f'corpus {os.path.basename(f)}: {r}', d['replay'], True))
    # (a) translated tables vs the real hard-coded functions (translation validation)
    sizes = list(range(3, 16)) + [25, 64] + ([100, 257, 400] if ctx.thorough else [])
    for d, fn in ((1, bu._diff_1_diags), (2, bu._diff_2_diags), (3, bu._diff_3_diags)):
        for n in sizes:
            if n < 2 * d + 1:
                continue
            for lo in (True, False):
                add(f'c11.table {d} {int(lo)} {n}', rows_of(fn(n, lo)), ('table', d, n, lo))
                ctx.case(('table', d, n, lo), nontrivial=True)
    # (b) diff_penalty_diagonals vs the specification D'D in band form, all branches
    nsz = list(range(1, 18)) + [30, 31, 64] + ([150, 400] if ctx.thorough else [])
    for d in range(0, 7):
        for n in nsz:
            if n <= d:
                continue
            for lo in (True, False):
                for pad in ((-1, 0, 1, 3) if (n < 12 or ctx.thorough) else (0, 2)):
                    real = bu.diff_penalty_diagonals(n, d, lo, pad)
                    if not is_int_array(real):
                        dis.append(Disagreement('c11.diags', f'diags:{n}:{d}:{lo}', 'non-integer band entry',
                                                {'kind': 'diags', 'n': n, 'd': d, 'lower': lo, 'padding': pad}, True))
                        continue
                    add(f'c11.spec {d} {int(lo)} {n} {pad}', rows_of(real), ('diags', d, n, lo, pad))
                    ctx.case(('diags', d, n, lo, pad), nontrivial=True,
                             sample={'fn': 'diff_penalty_diagonals', 'N': n, 'd': d, 'lower_only': lo, 'padding': pad})
                    ctx.count('branch:' + ('identity' if d == 0 else 'general' if (n < 2 * d + 1 or d > 3) else 'hardcoded'))
    # (c) dense penalty matrix and difference matrix
    for d in range(0, 7):
        for n in [d + 1, d + 2, 2 * d + 1, 2 * d + 2, 13, 20] + ([57] if ctx.thorough else []):
            if n <= d:
                continue
            P = bu.diff_penalty_matrix(n, d).toarray()
            add(f'c11.dtd {n} {d}', rows_of(P), ('dtd', n, d))
            for name, fn in (('utils', utils.difference_matrix), ('banded', bu.difference_matrix)):
                Dm = fn(n, d).toarray()
                add(f'c11.dmat {n} {d}', rows_of(Dm), ('dmat', name, n, d))
            ctx.case(('dense', n, d), nontrivial=True)
    for d in range(0, 9):
        pass
    # (d) reconfiguration histories of a real PenalizedSystem vs the model state machine
    hist_fail = []
    for n, cfgs in history_cases(ctx, rng):
        try:
            line, st, fail = check_history(ctx, n, cfgs)
        except Exception as e:  # the real code raised: not expected for valid configurations
            dis.append(Disagreement('c11.history', 'history:raises', f'{type(e).__name__}: {e} for N={n} history={cfgs}',
                                    {'kind': 'history', 'n': n, 'cfgs': cfgs}, True))
            continue
        add(line, st, ('hist', n, cfgs))
        ctx.case(('hist', n, tuple(cfgs)), nontrivial=len(cfgs) >= 2,
                 sample={'N': n, 'history': [cfg_str(c) for c in cfgs]} if len(cfgs) >= 3 else None)
        ctx.count('history_len:%d' % len(cfgs))
        if fail:
            hist_fail.append((n, cfgs, fail))
    # (e) PSpline.reset_penalty_diagonals histories (property-level only: reused == fresh)
    from pybaselines._spline_utils import PSpline, SplineBasis
    xs = np.linspace(0, 1, 40)
    for _ in range(60 if ctx.thorough else 20):
        nk, deg = int(rng.integers(4, 12)), int(rng.integers(1, 5))
        basis = SplineBasis(xs, nk, deg)
        nb = basis._num_bases
        hist = [(float(10.0 ** int(rng.integers(-2, 3))), int(rng.integers(1, min(4, nb - 1) + 1)), bool(rng.integers(0, 2)),
                 bool(rng.integers(0, 2))) for _ in range(int(rng.integers(2, 5)))]
        try:
            ps = PSpline(basis, *hist[0])
            for k, h in enumerate(hist[1:]):
                if (k + nk + deg) % 2 == 0:      # the spline system is used (solved) between reconfigurations, as the methods do
                    try:
                        ps.solve_pspline(np.cos(7 * xs), np.linspace(0.5, 1.5, xs.size))
                    except Exception:      # noqa: BLE001
                        pass
                ps.reset_penalty_diagonals(*h)
            fr = PSpline(basis, *hist[-1])
        except ValueError:
            continue
        ctx.case(('pspline', nk, deg, tuple(hist)), nontrivial=True)
        if not sys_equal(ps, fr):
            dis.append(Disagreement('c11.pspline', 'pspline:history', f'PSpline reused with {hist} differs from fresh',
                                    {'kind': 'pspline', 'num_knots': nk, 'degree': deg, 'history': hist}, True))
    correspond_2d(ctx, rng, dis)
    res = drive(lines)
    ctx.traces += len(lines)
    for ln, r, e, m in zip(lines, res, expect, meta):
        if r == e:
            continue
        if m[0] == 'table':
            dis.append(Disagreement('c11.translate', f'translate:diff{m[1]}', f'translated table for _diff_{m[1]}_diags '
                                    f'disagrees with the function at N={m[2]} lower={m[3]}', {'line': ln, 'real': e, 'model': r}))
        elif m[0] == 'diags':
            _, d, n, lo, pad = m
            # property-level: compare with numpy's own D'D
            real = np.array([[int(v) for v in row.split(',')] for row in e.split(';')])
            ok = _bands_denote_dtd(real, n, d, lo, pad)
            dis.append(Disagreement('c11.diags', f'diags:d={d}:lower={lo}' if not ok else f'model:diags:{d}',
                                    f'diff_penalty_diagonals({n}, {d}, lower_only={lo}, padding={pad}) '
                                    + ("does not denote D'D" if not ok else 'differs from the model layout only'),
                                    {'kind': 'diags', 'n': n, 'd': d, 'lower': lo, 'padding': pad, 'real': e, 'model': r},
                                    property_level=not ok))
        elif m[0] in ('dtd', 'dmat'):
            n, d = m[-2], m[-1]
            D = np.diff(np.eye(n), d, axis=0) if d <= n else None
            real = np.array([[int(v) for v in row.split(',')] for row in e.split(';')]) if e != '-' else np.zeros((0, n))
            want = (D.T @ D) if m[0] == 'dtd' else D
            # sign convention of D is irrelevant for D'D; for D itself compare up to global sign
            ok = np.array_equal(real, want) or (m[0] == 'dmat' and np.array_equal(real, -want))
            dis.append(Disagreement('c11.dense', f'dense:{m[0]}:d={d}', f'{m} real={"ok" if ok else "WRONG"} vs numpy; model differs',
                                    {'kind': m[0], 'n': n, 'd': d, 'real': e, 'model': r}, property_level=not ok))
        elif m[0] == 'hist':
            _, n, cfgs = m
            pl = [f for f in hist_fail if f[0] == n and f[1] == cfgs]
            dis.append(Disagreement('c11.history', 'history:' + ('lower-reversed' if _touches_lr(cfgs) else 'other'),
                                    f'PenalizedSystem N={n} history {[cfg_str(c) for c in cfgs]}: '
                                    + (pl[0][2] if pl else 'state differs from the model (but equals a fresh system)'),
                                    {'kind': 'history', 'n': n, 'cfgs': cfgs, 'real': e, 'model': r}, property_level=bool(pl)))
    # property failures the model happened to agree with (cannot happen unless model is wrong too)
    for n, cfgs, fail in hist_fail:
        if not any(d.replay.get('cfgs') == cfgs and d.replay.get('n') == n for d in dis if isinstance(d.replay, dict)):
            dis.append(Disagreement('c11.history', 'history:' + ('lower-reversed' if _touches_lr(cfgs) else 'other'),
                                    f'PenalizedSystem N={n} history {[cfg_str(c) for c in cfgs]}: {fail}',
                                    {'kind': 'history', 'n': n, 'cfgs': cfgs}, True))
    return dis


def _touches_lr(cfgs):
    from pybaselines import _banded_utils as bu
    for d, al, rev, ap, pad in cfgs:
        up = ap and bu._HAS_PENTAPY and d == 2
        if al and not up and (rev is True):
            return True
    return False


def _bands_denote_dtd(real, n, d, lo, pad):
    pad = max(pad, 0)
    D = np.diff(np.eye(n), d, axis=0)
    if real.shape[0] != (d + 1 + pad if lo else 2 * d + 1 + 2 * pad):
        return False
    core = real[:real.shape[0] - pad] if lo else (real[pad:real.shape[0] - pad] if pad else real)
    padrows = real[real.shape[0] - pad:] if lo else np.concatenate((real[:pad], real[real.shape[0] - pad:])) if pad else real[:0]
    if np.any(padrows != 0):
        return False
    A = dense_from_bands(core, lo, False, n, d)
    if not np.array_equal(A, D.T @ D):
        return False
    # unused corner entries of the band storage must be zero (they are added to other bands by the methods)
    B = np.zeros_like(core)
    if lo:
        for r in range(core.shape[0]):
            B[r, :n - r] = core[r, :n - r]
    else:
        u = d
        for r in range(core.shape[0]):
            for j in range(n):
                i = j + r - u
                if 0 <= i < n:
                    B[r, j] = core[r, j]
    return np.array_equal(B, core)


def search(ctx, hints, lean_failed):
    """direct evaluation of the property on the real code: bands vs numpy's D'D for many sizes; histories vs fresh"""
    from pybaselines import _banded_utils as bu
    found = []
    for d in range(0, 7):
        for n in list(range(d + 1, 40)) + [64, 101, 200]:
            for lo in (True, False):
                for pad in (0, 2):
                    real = bu.diff_penalty_diagonals(n, d, lo, pad)
                    ctx.case(('search-diags', n, d, lo, pad))
                    if not _bands_denote_dtd(np.asarray(real), n, d, lo, pad):
                        found.append(Disagreement('c11.diags', f'diags:d={d}:lower={lo}',
                                                  f"diff_penalty_diagonals({n}, {d}, lower_only={lo}, padding={pad}) does not denote D'D",
                                                  {'kind': 'diags', 'n': n, 'd': d, 'lower': lo, 'padding': pad}, True))
                        break
    rng = ctx.np_rng()
    for n, cfgs in history_cases(ctx, rng):
        try:
            _, _, fail = check_history(ctx, n, cfgs)
        except Exception as e:
            fail = f'{type(e).__name__}: {e}'
        if fail:
            found.append(Disagreement('c11.history', 'history:' + ('lower-reversed' if _touches_lr(cfgs) else 'other'),
                                      f'PenalizedSystem N={n} history {[cfg_str(c) for c in cfgs]}: {fail}',
                                      {'kind': 'history', 'n': n, 'cfgs': cfgs}, True))
            break
    return found


def replay(ctx, data):
    from pybaselines import _banded_utils as bu
    r = data['replay']
    if r.get('kind') == 'history':
        cfgs = [tuple(c) for c in r['cfgs']]
        try:
            _, _, fail = check_history(ctx, r['n'], cfgs)
        except Exception as e:
            return f'{type(e).__name__}: {e}'
        return fail
    if r.get('kind') == '2d':
        hist = [((h[0][0], h[0][1]), (h[1][0], h[1][1])) for h in r['history']]
        neig = tuple(r['num_eigens']) if r['num_eigens'] else None
        try:
            need = run_case_2d(r['sys'], tuple(r['shape']), neig, hist)[1]
            return run_case_2d(r['sys'], tuple(r['shape']), neig, hist, dtd_from_model(need))[0]
        except Exception as e:
            return f'{type(e).__name__}: {e}'
    if r.get('kind') == 'diags':
        real = bu.diff_penalty_diagonals(r['n'], r['d'], r['lower'], r['padding'])
        return None if _bands_denote_dtd(np.asarray(real), r['n'], r['d'], r['lower'], r['padding']) else "bands do not denote D'D"
    if r.get('kind') in ('dtd', 'dmat'):
        n, d = r['n'], r['d']
        D = np.diff(np.eye(n), d, axis=0)
        if r['kind'] == 'dtd':
            return None if np.array_equal(bu.diff_penalty_matrix(n, d).toarray(), D.T @ D) else 'penalty matrix wrong'
        M = bu.difference_matrix(n, d).toarray()
        return None if (np.array_equal(M, D) or np.array_equal(M, -D)) else 'difference matrix wrong'
    return None
