"""C14 — morphological and hull baselines never exceed the data and commute with shifts."""
import glob
import json
import os
from fractions import Fraction

import numpy as np

from .common import Disagreement, drive, q, qs, parse_qs, ROOT

PROP_MODULE = 'PbVerif.Props.C14'
RULE = ('cases = (method, N or shape, half window(s), filter order, window order, data kind, data magnitude (offsets 1e6 ... 1e9 under '
        'integer / half-integer data: every law stays bit-exact; small-amplitude float data on such offsets: inequalities exact, shift '
        'laws to a few ulp of |y| + |c|), shift (small, and 1e6 ... 1e9)); bit-exact model '
        'comparison on integer/half-integer data; non-trivial = data not constant and window >= 1; distinct by canonical tuple')
ASSUMPTIONS = [
    'scipy.ndimage grey_erosion/grey_dilation/grey_opening implement flat reflect-mode morphology (their specification is the model; diffed bit-exactly)',
    'Qhull (scipy.spatial.ConvexHull): only its output mask is certified by the decidable lower-hull certificate',
    'np.pad modes / pad_edges produce the padding handed to the snip loop (C18)',
    'float min/max/0.5*(a+b) are exact on integer-valued data',
    'np.interp computes slope*(x-xp[j])+fp[j] with correctly rounded IEEE operations: at most 11 half-ulp of max|y| from the exact value, exact at the samples (model hullInterp; bound 16 half-ulp checked)',
]


def mat(a):
    return ';'.join(qs(r) for r in a)


def parse_mat(s):
    return [parse_qs(r) for r in s.split(';')]


def data_1d(rng, n, kind):
    if kind == 'int':
        return rng.integers(-9, 10, n).astype(float)
    if kind == 'half':
        return rng.integers(-9, 10, n) / 2.0
    if kind == 'plateau':
        return np.repeat(rng.integers(-3, 4, (n + 2) // 3), 3)[:n].astype(float)
    if kind == 'monotone':
        return np.cumsum(rng.integers(0, 3, n)).astype(float) - 5
    if kind == 'negative':
        return -np.abs(rng.integers(1, 40, n)).astype(float)
    if kind == 'peaks':
        x = np.arange(n)
        return np.round(20 * np.exp(-0.5 * ((x - n / 2) / max(n / 10, 1)) ** 2) + 0.1 * x + rng.integers(0, 3, n))
    return rng.normal(0, 3, n)


KINDS = ['int', 'half', 'plateau', 'monotone', 'negative', 'peaks']
EPS = float(np.finfo(float).eps)
# data-magnitude kinds: the laws of C14 hold for ALL data, also a small signal on a huge pedestal and a huge shift
OFFSETS = [1e6, 1e9, -1e9, 1e7, 1e8, -1e6]
BIG_SHIFTS = [1e6, -1e9, 1e9, 123456789.0, -1e7, 1e8]
FLOAT_AMPS = [1.0, 1e-3, 30.0]


def cyc(seq, start=0):
    i = start
    while True:
        yield seq[i % len(seq)]
        i += 1


def float_data(rng, n, off, amp):
    """small-amplitude float signal on a pedestal (not exactly representable sums: only the exact inequalities, the bit-exact tophat
    laws and the shift laws to rounding are demanded)"""
    x = np.arange(n)
    return off + amp * (rng.normal(0, 1, n) + 3 * np.exp(-0.5 * ((x - n / 2) / max(n / 8, 1)) ** 2) + 0.02 * x)


def is_exact(y):
    y = np.asarray(y, dtype=float)
    return bool(np.all(y * 2 == np.round(y * 2)) and np.max(np.abs(y)) < 2.0 ** 50)


def shift_ok(nm, b1, b0, c, y):
    """f(y + c) == f(y) + c.  tophat: bit-exact for ANY data (min / max commute with the monotone map v -> fl(v + c)); mor and the
    2-D versions: bit-exact when y, y + c and the half sums are exactly representable, else to 8 ulp of |y| + |c|"""
    if nm.startswith('tophat') or (is_exact(y) and is_exact(np.asarray(y) + c)):
        return bool(np.array_equal(b1, b0 + c))
    return bool(np.allclose(b1, b0 + c, rtol=0, atol=8 * EPS * (float(np.max(np.abs(y))) + abs(c))))


def snip_shift_tol(y, c):
    """each pass replaces a point by the smaller of itself and a filter value (coefficient sums <= 16/6 in absolute value): a few
    roundings of size eps * (|y| + |c|) per pass, at most N / 2 passes"""
    return 16 * EPS * (len(y) + 8) * (float(np.max(np.abs(y))) + abs(c))


def rb_tol(scale):
    """np.interp through the hull vertices is within 8 ulp of max|y| of the exact interpolant (ASSUMPTIONS); 64 eps leaves room and is
    RELATIVE to the data, whatever their magnitude"""
    return 64 * EPS * scale


def exact_list(a, pred):
    a = np.asarray(a, dtype=float).ravel()
    return len(a) == len(pred) and all(Fraction(float(v)) == p for v, p in zip(a, pred))


def close_list(a, pred, tol=1e-11):
    a = np.asarray(a, dtype=float).ravel()
    if len(a) != len(pred):
        return False
    p = np.array([float(v) for v in pred])
    return bool(np.allclose(a, p, rtol=tol, atol=tol * max(1.0, float(np.max(np.abs(p))) if len(p) else 1.0)))


INTERP_TOL_ULPS = 8     # np.interp does (fp[j+1]-fp[j])/(xp[j+1]-xp[j]) * (x-xp[j]) + fp[j]: three differences, a quotient, a product
#                         and a sum, each within half an ulp; |slope*(x-xp[j])| <= 2 max|y| and |result| <= max|y|, so the float result is
#                         within 11 * 2**-53 * max|y| of the exact rational value; 8 ulp = 16 * 2**-53 leaves room and is still 1e-15 relative


def interp_mismatch(real, pred, mask, yscale):
    """None when the real rubberband baseline equals the exact model interpolant: bit-exact at the masked vertices (np.interp
    returns fp[j] there) and within INTERP_TOL_ULPS ulp of max|y| elsewhere (all comparisons in exact rationals)"""
    real = np.asarray(real, dtype=float).ravel()
    if len(real) != len(pred):
        return f'length {len(real)} != {len(pred)}'
    tol = Fraction(INTERP_TOL_ULPS * float(np.finfo(float).eps)) * Fraction(float(yscale))
    for i, (v, p_) in enumerate(zip(real, pred)):
        if not np.isfinite(v):
            return f'index {i}: non-finite baseline {v}'
        d = abs(Fraction(float(v)) - p_)
        if (mask[i] and d != 0) or d > tol:
            return f'index {i}: baseline {float(v)!r} vs exact interpolant {float(p_)!r} (diff {float(d):.3g}, vertex={bool(mask[i])})'
    return None


def shift_exact(y, c):
    """is the float sum y + c the exact sum (so that the model's shiftPts sees the same data as the code)?"""
    return all(Fraction(float(a)) + Fraction(float(c)) == Fraction(float(a + c)) for a in y)


def rubberband_sections(n, segments):
    """the segment boundaries exactly as `_Classification.rubberband` computes them (classification.py: `np.linspace(0, size,
    sections + 1, dtype=np.intp)` for an int, `np.unique(concatenate(([0], sections, [size])))` for a sequence)"""
    if np.isscalar(segments):
        return [int(v) for v in np.linspace(0, n, int(segments) + 1, dtype=np.intp)]
    return [int(v) for v in np.unique(np.concatenate(([0], np.asarray(segments, dtype=np.intp), [n])))]


def rubberband_direct(x, y, b, mask, b1, c):
    """the float-level clauses of the rubberband statement, every tolerance relative to the data: (stage, signature, text, check)"""
    scale = max(1.0, float(np.max(np.abs(y))))
    if np.any(b > y + rb_tol(scale)):
        k = int(np.argmax(b - y))
        return ('le', 'le:rubberband', f'rubberband baseline exceeds the data at index {k} ({b[k]!r} > {y[k]!r})', 'le')
    if not np.allclose(b[mask], y[mask], rtol=0, atol=rb_tol(scale)):
        return ('hull', 'hull:touch', 'rubberband baseline does not touch the data at the hull vertices', 'touch')
    dx = np.diff(x)
    sl = np.diff(b) / dx
    # b carries up to 8 ulp of max|y| per point, a slope up to twice that over the smallest step
    if np.any(np.diff(sl) < -1e-9 * max(1.0, float(np.max(np.abs(sl)))) - 4 * rb_tol(scale) / float(np.min(dx))):
        return ('hull', 'hull:convex', 'rubberband baseline is not convex', 'convex')
    if b1 is not None and not np.allclose(b1, b + c, rtol=0, atol=rb_tol(scale + abs(c))):
        return ('shift', 'shift:rubberband', f'rubberband does not commute with a shift (off by {float(np.max(np.abs(b1 - b - c))):.3g})', 'shift')
    return None


def correspond(ctx):
    from pybaselines import Baseline, Baseline2D
    from pybaselines.utils import pad_edges
    rng = ctx.np_rng()
    dis = []
    for f in sorted(glob.glob(os.path.join(ROOT, 'corpus', 'C14_*.json'))):
        d = json.load(open(f))
        r = replay(ctx, d)
        ctx.case(('corpus', os.path.basename(f)))
        if r:
            dis.append(Disagreement('c14.corpus', d['signature'], f'corpus {os.path.basename(f)}: {r}', d['replay'], True))
    lines, checks = [], []

    def add(line, real, meta, exact=True):
        lines.append(line)
        checks.append((real, meta, exact))

    def add_interp(xa, ya, maska, base, meta):
        lines.append(f'c14.hullinterp {qs(xa)} {qs(ya)} {",".join(str(int(v)) for v in maska)}')
        checks.append(((np.array(base, dtype=float), np.asarray(maska, dtype=bool), float(np.max(np.abs(ya)))), meta, 'interp'))
        ctx.count('rubberband:interp')

    reps = 4 if ctx.thorough else 1
    sizes = [3, 4, 5, 7, 10, 16, 31] + ([64, 150] if ctx.thorough else [])
    offs, bigs, amps = cyc(OFFSETS, ctx.seed), cyc(BIG_SHIFTS, ctx.seed), cyc(FLOAT_AMPS, ctx.seed)
    tick = 0
    for _ in range(reps):
        for n in sizes:
            fit = Baseline()
            for kind in KINDS + ['float']:
                tick += 1
                if kind == 'float':
                    off = next(offs)
                    y = float_data(rng, n, off, next(amps))
                else:
                    # every second data set sits on a pedestal of 1e6 ... 1e9 (still exactly representable: the laws stay bit-exact)
                    off = next(offs) if tick % 2 else 0.0
                    y = data_1d(rng, n, kind) + off
                exact_y = is_exact(y)
                hs = sorted({1, 2, max(1, (n - 1) // 2), n // 2 + 1, n + 2, int(rng.integers(1, n + 1))})
                for ih, h in enumerate(hs):
                    # shifts: small ones and 1e6 ... 1e9, alternating
                    c = float(rng.integers(-50, 51)) if (ih + tick) % 2 else next(bigs)
                    meta = {'method': 'tophat', 'n': n, 'h': h, 'kind': kind, 'y': y.tolist(), 'shift': c, 'offset': off}
                    ctx.count('1d:' + kind)
                    ctx.count('1d:offset:%g' % off)
                    ctx.count('1d:shift:' + ('small' if abs(c) <= 50 else '%g' % c))
                    ctx.count('window:' + ('>N/2' if 2 * h + 1 > n else '<=N'))
                    try:
                        bt = fit.tophat(y, half_window=h)[0]
                        bm = fit.mor(y, half_window=h)[0]
                        k = int(rng.integers(1, 4))
                        bi = fit.imor(y, half_window=h, tol=-1, max_iter=k - 1)[0]
                        bi_def = fit.imor(y, half_window=h)[0]
                    except Exception as e:
                        dis.append(Disagreement('c14.raises', f'raises:{type(e).__name__}', f'morphological call raised {e} '
                                                f'for N={n} h={h}', meta, True))
                        continue
                    ctx.case(('1d', n, h, kind, tuple(y.tolist())), nontrivial=bool(np.ptp(y) > 0),
                             sample={'method': 'tophat/mor/imor', 'N': n, 'half_window': h, 'data': kind} if n == 7 else None)
                    add(f'c14.tophat {h} {qs(y)}', bt, dict(meta, method='tophat'))
                    add(f'c14.mor {h} {qs(y)}', bm, dict(meta, method='mor'), exact=exact_y)
                    add(f'c14.imor {h} {k} {qs(y)}', bi, dict(meta, method='imor', k=k), exact=exact_y)
                    # direct property checks on the real code (exact: only min/max and halving are involved)
                    for nm, b in (('tophat', bt), ('mor', bm), ('imor', bi), ('imor', bi_def)):
                        if not np.all(b <= y):
                            dis.append(Disagreement('c14.le', f'le:{nm}', f'{nm} baseline exceeds the data (N={n}, h={h}, {kind})',
                                                    dict(meta, method=nm, check='le'), True))
                    if not np.array_equal(fit.tophat(bt, half_window=h)[0], bt):
                        dis.append(Disagreement('c14.idem', 'idem:tophat', f'tophat is not idempotent (N={n}, h={h}, {kind})',
                                                dict(meta, method='tophat', check='idem'), True))
                    for nm in ('tophat', 'mor'):
                        b0 = bt if nm == 'tophat' else bm
                        b1 = getattr(fit, nm)(y + c, half_window=h)[0]
                        if not shift_ok(nm, b1, b0, c, y):
                            dis.append(Disagreement('c14.shift', f'shift:{nm}', f'{nm}(y+{c}) != {nm}(y)+{c} by {float(np.max(np.abs(b1 - (b0 + c)))):.3g} '
                                                    f'(N={n}, h={h}, {kind} data on the offset {off:g})',
                                                    dict(meta, method=nm, check='shift'), True))
    # snip
    for _ in range(reps):
        for n in [3, 5, 8, 13, 20, 41] + ([100] if ctx.thorough else []):
            fit = Baseline()
            for order in (2, 4, 6, 8):
                for dec in (False, True):
                    kind = KINDS[int(rng.integers(0, len(KINDS)))]
                    tick += 1
                    off = next(offs) if tick % 2 else 0.0
                    y = data_1d(rng, n, kind) + off
                    lim = max((n - 1) // 2, 1)
                    hw = [int(rng.integers(1, lim + 1)), int(rng.integers(1, lim + 1))]
                    if rng.random() < 0.4:
                        hw = [hw[0], hw[0]]
                    if (n - 1) // 2 < 1:
                        continue
                    mode = ['edge', 'reflect', 'constant', 'extrapolate'][int(rng.integers(0, 4))]
                    c = float(rng.integers(-60, 61)) if (tick // 2) % 2 else next(bigs)
                    pk = {'mode': mode} if mode != 'extrapolate' else {'mode': 'extrapolate', 'extrapolate_window': 2}
                    meta = {'method': 'snip', 'n': n, 'order': order, 'decreasing': dec, 'hw': hw, 'kind': kind,
                            'y': y.tolist(), 'shift': c, 'pad_kwargs': pk, 'offset': off}
                    ctx.count('snip:order%d' % order)
                    ctx.count('snip:offset:%g' % off)
                    ctx.count('snip:shift:' + ('small' if abs(c) <= 60 else '%g' % c))
                    ctx.count('snip:pad:' + mode)
                    try:
                        b = fit.snip(y, max_half_window=hw, decreasing=dec, filter_order=order, pad_kwargs=pk)[0]
                        b1 = fit.snip(y + c, max_half_window=hw, decreasing=dec, filter_order=order, pad_kwargs=pk)[0]
                    except Exception as e:
                        dis.append(Disagreement('c14.raises', f'raises:snip:{type(e).__name__}', f'snip raised {e}', meta, True))
                        continue
                    ctx.case(('snip', n, order, dec, tuple(hw), kind, mode, tuple(y.tolist())), nontrivial=bool(np.ptp(y) > 0),
                             sample={'method': 'snip', 'N': n, 'filter_order': order, 'decreasing': dec, 'half_windows': hw,
                                     'pad': mode} if n == 13 and order == 6 else None)
                    M = max(hw)
                    padded = pad_edges(y, M, **pk)
                    # order 2 halves a sum per pass: exact in doubles while (bits of the pedestal) + (number of passes) fit the mantissa
                    fits53 = np.log2(max(2.0, float(np.max(np.abs(y))))) + M + 3 <= 52
                    add(f'c14.snip {order} {hw[0]} {hw[1]} {int(dec)} {qs(padded)}', b, meta, exact=(order == 2 and mode != 'extrapolate' and (off == 0.0 or fits53)))
                    if not np.all(b <= y):
                        dis.append(Disagreement('c14.le', 'le:snip', f'snip baseline exceeds the data (N={n}, order={order}, hw={hw})',
                                                dict(meta, check='le'), True))
                    if mode != 'constant' and not np.allclose(b1, b + c, rtol=0, atol=snip_shift_tol(y, c)):
                        dis.append(Disagreement('c14.shift', 'shift:snip', f'snip(y+{c}) != snip(y)+{c} by '
                                                f'{float(np.max(np.abs(b1 - b - c))):.3g} (N={n}, order={order}, hw={hw}, dec={dec}, {kind}, pad={mode})',
                                                dict(meta, check='shift'), True))
    # 2-D.  (a) the real Baseline2D.tophat/mor/imor against opening2d/mor2d/imorIter2d; (b) the pieces they are made of —
    # scipy.ndimage.grey_erosion/grey_dilation with the 2-D size `2*half_wind+1` and pybaselines' own `_avg_opening` — against
    # erode2d/dilate2d/avgOpening2d, also on 1xN / Mx1 / 1x1 arrays (Baseline2D refuses those shapes, the operators and the
    # theorems do not); (c) np.transpose against the model's `transpose`.  Window pairs are boundary-heavy and mostly UNEQUAL:
    # h = 1, 2h+1 = axis length (+-1), windows longer than the axis on one or both axes.
    from scipy.ndimage import grey_dilation, grey_erosion
    from pybaselines.two_d.morphological import _avg_opening as avg_opening_2d

    def data_2d(m, n, kind):
        if kind == 'half':
            return rng.integers(-9, 10, (m, n)) / 2.0
        if kind == 'plateau':
            return np.kron(rng.integers(-3, 4, ((m + 1) // 2, (n + 1) // 2)), np.ones((2, 2)))[:m, :n].astype(float)
        if kind == 'ridge':
            return (np.add.outer(np.arange(m), 2 * np.arange(n)) + rng.integers(0, 2, (m, n))).astype(float)
        return rng.integers(-9, 10, (m, n)).astype(float)

    def window_pairs(m, n):
        edge_r = sorted({1, max(1, (m - 1) // 2), m // 2 + 1, m + 1})       # 2h+1 <= M ... 2h+1 > 2M
        edge_c = sorted({1, max(1, (n - 1) // 2), n // 2 + 1, n + 1})
        pairs = [(1, edge_c[-1]), (edge_r[-1], 1), (edge_r[-1], edge_c[-1]), (max(1, (m - 1) // 2), n // 2 + 1),
                 (max(1, (m - 1) // 2), max(1, (n - 1) // 2)),                 # the largest windows that still fit both axes
                 (int(rng.integers(1, m + 2)), int(rng.integers(1, n + 2)))]
        hh = int(rng.integers(1, min(m, n) + 2))
        pairs.append((hh, hh))                                                 # the equal pair stays covered too
        out = []
        for pr in pairs:
            if pr not in out:
                out.append(pr)
        return out

    shapes_real = [(2, 2), (3, 4), (5, 5), (2, 7), (6, 3), (9, 8)] + ([(20, 17)] if ctx.thorough else [])
    shapes_thin = [(1, 1), (1, 2), (2, 1), (1, 6), (5, 1)]
    kinds2 = ['int', 'half', 'plateau', 'ridge']
    for _ in range(reps):
        for (m, n) in shapes_real + shapes_thin:
            fit2 = Baseline2D()
            for (hr, hc) in window_pairs(m, n):
                kind = kinds2[int(rng.integers(0, len(kinds2)))]
                tick += 1
                off = next(offs) if tick % 2 else 0.0            # a pedestal of 1e6 ... 1e9 under the integer-valued data (still bit-exact)
                Y = data_2d(m, n, kind) + off
                c = float(rng.integers(-50, 51)) if (tick // 2) % 2 else next(bigs)
                size = (2 * hr + 1, 2 * hc + 1)
                meta = {'method': 'tophat2d', 'shape': [m, n], 'h': [hr, hc], 'kind': kind, 'Y': Y.tolist(), 'shift': c, 'offset': off}
                ctx.count('2d:offset:%g' % off)
                ctx.count('2d:shift:' + ('small' if abs(c) <= 50 else '%g' % c))
                ctx.count('2d:' + ('unequal' if hr != hc else 'equal'))
                ctx.count('2d:window' + ('>axis' if (size[0] > m or size[1] > n) else '<=axis'))
                if size[0] > m and size[1] <= n or size[0] <= m and size[1] > n:
                    ctx.count('2d:window>one-axis-only')
                # (b) the operators themselves, every shape
                ctx.count('2d:ops' + (':thin' if min(m, n) == 1 else ''))
                add(f'c14.erode2d {hr} {hc} {mat(Y)}', grey_erosion(Y, size), dict(meta, method='erode2d'))
                add(f'c14.dilate2d {hr} {hc} {mat(Y)}', grey_dilation(Y, size), dict(meta, method='dilate2d'))
                add(f'c14.avgopening2d {hr} {hc} {mat(Y)}', avg_opening_2d(Y, np.array([hr, hc])), dict(meta, method='avgopening2d'))
                add(f'c14.transpose {mat(Y)}', Y.T, dict(meta, method='transpose'))
                if min(m, n) == 1:
                    ctx.case(('2d-ops', m, n, hr, hc, tuple(Y.ravel().tolist())), nontrivial=bool(np.ptp(Y) > 0))
                    # the laws on the operators the methods are made of (grey_opening = dilation o erosion)
                    op = grey_dilation(grey_erosion(Y, size), size)
                    av = avg_opening_2d(Y, np.array([hr, hc]))
                    if not (np.all(op <= Y) and np.all(np.minimum(op, av) <= Y)):
                        dis.append(Disagreement('c14.le', 'le:ops2d', f'2-D opening / mor of a {m}x{n} array exceeds the data',
                                                dict(meta, method='ops2d', check='le'), True))
                    if not np.array_equal(grey_dilation(grey_erosion(op, size), size), op):
                        dis.append(Disagreement('c14.idem', 'idem:ops2d', f'2-D opening of a {m}x{n} array is not idempotent',
                                                dict(meta, method='ops2d', check='idem'), True))
                    if not np.array_equal(grey_dilation(grey_erosion(Y + c, size), size), op + c):
                        dis.append(Disagreement('c14.shift', 'shift:ops2d', f'2-D opening of a {m}x{n} array does not commute with a shift',
                                                dict(meta, method='ops2d', check='shift'), True))
                    continue
                # (a) the real methods
                try:
                    bt = fit2.tophat(Y, half_window=(hr, hc))[0]
                    bm = fit2.mor(Y, half_window=(hr, hc))[0]
                    k = int(rng.integers(1, 4))
                    bi = fit2.imor(Y, half_window=(hr, hc), tol=-1, max_iter=k - 1)[0]
                    bi_def = fit2.imor(Y, half_window=(hr, hc))[0]
                except Exception as e:
                    dis.append(Disagreement('c14.raises', f'raises2d:{type(e).__name__}', f'2-D morphological call raised {e}', meta, True))
                    continue
                ctx.case(('2d', m, n, hr, hc, tuple(Y.ravel().tolist())), nontrivial=bool(np.ptp(Y) > 0),
                         sample={'method': '2-D tophat/mor/imor', 'shape': [m, n], 'half_window': [hr, hc], 'data': kind}
                         if (m, n) == (5, 5) else None)
                ctx.count('2d')
                add(f'c14.tophat2d {hr} {hc} {mat(Y)}', bt, dict(meta, method='tophat2d'))
                add(f'c14.mor2d {hr} {hc} {mat(Y)}', bm, dict(meta, method='mor2d'))
                add(f'c14.imor2d {hr} {hc} {k} {mat(Y)}', bi, dict(meta, method='imor2d', k=k))
                for nm, b in (('tophat2d', bt), ('mor2d', bm), ('imor2d', bi), ('imor2d', bi_def)):
                    if b.shape != Y.shape or not np.all(b <= Y):
                        dis.append(Disagreement('c14.le', f'le:{nm}', f'{nm} exceeds the data (shape {m}x{n}, half_window=({hr},{hc}), {kind})',
                                                dict(meta, method=nm, check='le'), True))
                if not np.array_equal(fit2.tophat(bt, half_window=(hr, hc))[0], bt):
                    dis.append(Disagreement('c14.idem', 'idem:tophat2d', f'2-D tophat is not idempotent (shape {m}x{n}, half_window=({hr},{hc}))',
                                            dict(meta, check='idem'), True))
                for nm, b0 in (('tophat', bt), ('mor', bm)):
                    if not np.array_equal(getattr(fit2, nm)(Y + c, half_window=(hr, hc))[0], b0 + c):
                        dis.append(Disagreement('c14.shift', f'shift:{nm}2d', f'2-D {nm} does not commute with a shift '
                                                f'(shape {m}x{n}, half_window=({hr},{hc}))', dict(meta, method=nm + '2d', check='shift'), True))
    # rubberband: the returned mask must pass the lower-hull certificate; baseline convex, <= data, touching at vertices
    for irb in range(72 if ctx.thorough else 24):
        n = int(rng.integers(3, 40))
        x = np.cumsum(rng.integers(1, 5, n)).astype(float) if rng.random() < 0.5 else np.arange(n, dtype=float)
        # data magnitude, round-robin: plain / on a pedestal of 1e6 ... 1e9 (exact) / small-amplitude float data on a pedestal
        dk = ('plain', 'offset', 'offset', 'float')[irb % 4]
        off = 0.0 if dk == 'plain' else next(offs)
        if dk == 'float':
            y = float_data(rng, max(n, 5), off, next(amps))[:n]
        else:
            y = data_1d(rng, n, KINDS[int(rng.integers(0, len(KINDS)))]) + off
        exact_y = is_exact(y)
        c = float(rng.integers(-50, 51)) if (irb // 4) % 2 else next(bigs)
        meta = {'method': 'rubberband', 'x': x.tolist(), 'y': y.tolist(), 'shift': c, 'offset': off}
        ctx.count('rubberband:data:' + dk)
        ctx.count('rubberband:offset:%g' % off)
        ctx.count('rubberband:shift:' + ('small' if abs(c) <= 50 else '%g' % c))
        fr = Baseline(x)
        try:
            b, p = fr.rubberband(y)
            b1, p1 = fr.rubberband(y + c)
        except Exception as e:
            # exactly collinear data make Qhull raise: an ordinary exception, not a violation of C14
            ctx.count('rubberband:raises')
            continue
        ctx.case(('rubberband', tuple(x.tolist()), tuple(y.tolist())), nontrivial=True,
                 sample={'method': 'rubberband', 'N': n} if n < 8 else None)
        ctx.count('rubberband')
        mask = p['mask']
        if exact_y:
            # the exact certificate is decided on the rationals of the data; Qhull decides in doubles: demanded on exactly
            # representable data (whatever their magnitude), where collinearity is not a matter of rounding
            lines.append(f'c14.hull {qs(x)} {qs(y)} {",".join(str(int(v)) for v in mask)}')
            checks.append((None, dict(meta, mask=mask.astype(int).tolist()), 'hull'))
            ctx.count('rubberband:cert')
        # the baseline itself is np.interp through the masked vertices: model `hullInterp` on the same exact rationals
        add_interp(x, y, mask, b, dict(meta, mask=mask.astype(int).tolist(), check='interp'))
        # ... and for the shifted data (theorem lowerHull_shift: same certificate verdict, interpolant + c), with the mask the
        # code returned for y + c
        m1 = p1['mask']
        if exact_y and shift_exact(y, c):
            lines.append(f'c14.hullshift {q(c)} {qs(x)} {qs(y)} {",".join(str(int(v)) for v in m1)}')
            checks.append(((b1, m1, float(np.max(np.abs(y + c)))), dict(meta, mask=m1.astype(int).tolist(), check='interp-shift'), 'interp-shift'))
            ctx.count('rubberband:interp-shift')
        else:
            add_interp(x, y + c, m1, b1, dict(meta, y=(y + c).tolist(), mask=m1.astype(int).tolist(), check='interp'))
        # user weights knock vertices out of the mask (`np.logical_and(mask, weight_array)`), possibly the end points: np.interp then
        # continues the first / last kept ordinate as a constant — the outer branches of the model `interp1` (no certificate here: the
        # mask is no longer the hull)
        w = (rng.random(n) < 0.6).astype(float)
        try:
            bw, pw = Baseline(x).rubberband(y, weights=w)
        except Exception:
            ctx.count('rubberband:weights:raises')      # every vertex knocked out: np.interp refuses an empty sample list
        else:
            ctx.count('rubberband:weights:' + ('end-dropped' if not (pw['mask'][0] and pw['mask'][-1]) else 'ends-kept'))
            add_interp(x, y, pw['mask'], bw, dict(meta, mask=pw['mask'].astype(int).tolist(), weights=w.tolist(), check='interp'))
        why = rubberband_direct(x, y, b, mask, b1, c)
        if why:
            dis.append(Disagreement('c14.' + why[0], why[1], why[2] + f' (N={n}, {dk} data on the offset {off:g}, shift {c:g})', dict(meta, check=why[3]), True))
    # rubberband with several segments (integer and explicit boundaries): every segment gets its own lower hull; the baseline
    # stays at or below the data everywhere, touches it at both ends of the data, and commutes with shifts
    for isg in range(40 if ctx.thorough else 16):
        n = int(rng.integers(5, 45))
        seg = int(rng.integers(2, 5))
        if rng.random() < 0.3:
            cuts = sorted(set(int(v) for v in rng.integers(2, n - 2, seg - 1))) if n > 6 else [n // 2]
            segarg = [c_ for c_ in cuts if 1 < c_ < n - 1] or [n // 2]
        else:
            segarg = seg
        x = np.cumsum(rng.integers(1, 5, n)).astype(float) if rng.random() < 0.5 else np.arange(n, dtype=float)
        off = next(offs) if isg % 2 else 0.0
        y = data_1d(rng, n, KINDS[int(rng.integers(0, len(KINDS)))]) + off
        if rng.random() < 0.4:
            y = y - 0.35 * np.arange(n)            # falling data: the tail is the lowest part
        c = float(rng.integers(-50, 51)) if (isg // 2) % 2 else next(bigs)
        meta = {'method': 'rubberband', 'x': x.tolist(), 'y': y.tolist(), 'shift': c, 'segments': segarg, 'offset': off}
        ctx.count('rubberband-segments:offset:%g' % off)
        ctx.count('rubberband-segments:shift:' + ('small' if abs(c) <= 50 else '%g' % c))
        try:
            b, p = Baseline(x).rubberband(y, segments=segarg)
            b1, p1 = Baseline(x).rubberband(y + c, segments=segarg)
        except Exception:
            ctx.count('rubberband-segments:raises')
            continue
        ctx.case(('rubberband-segments', n, repr(segarg), tuple(y.tolist())), nontrivial=True)
        ctx.count('rubberband-segments')
        scale = max(1.0, float(np.max(np.abs(y))))
        if np.any(b > y + rb_tol(scale)):
            k = int(np.argmax(b - y))
            dis.append(Disagreement('c14.le', 'le:rubberband:segments', f'rubberband(segments={segarg}, N={n}) baseline exceeds the data at index {k} '
                                    f'({b[k]!r} > {y[k]!r})', dict(meta, check='le'), True))
        elif abs(b[0] - y[0]) > rb_tol(scale) or abs(b[-1] - y[-1]) > rb_tol(scale):
            dis.append(Disagreement('c14.hull', 'hull:touch:segments', f'rubberband(segments={segarg}, N={n}) does not touch the data at its end points',
                                    dict(meta, check='touch'), True))
        if not np.allclose(b1, b + c, rtol=0, atol=rb_tol(scale + abs(c))):
            dis.append(Disagreement('c14.shift', 'shift:rubberband:segments', f'rubberband with segments does not commute with a shift (N={n}, offset {off:g}, '
                                    f'shift {c:g}: off by {float(np.max(np.abs(b1 - b - c))):.3g})', dict(meta, check='shift'), True))
        # per segment [l, r): both ends are hull vertices of the segment, so np.interp over the whole mask restricted to the segment
        # is the interpolant through the segment's own masked points: model `hullInterp` per segment; on exactly representable
        # (integer / half-integer) data the segment's part of the mask must also pass the exact certificate
        secs = rubberband_sections(n, segarg)
        exact_data = is_exact(y) and is_exact(y + c)
        for (bb, pp, yy) in ((b, p, y), (b1, p1, y + c)):
            mk = pp['mask']
            for l_, r_ in zip(secs[:-1], secs[1:]):
                smeta = dict(meta, y=yy.tolist(), mask=mk.astype(int).tolist(), segment=[l_, r_], check='interp')
                if not (mk[l_] and mk[r_ - 1]):
                    dis.append(Disagreement('c14.hull', 'hull:segment-ends', f'rubberband(segments={segarg}, N={n}): an end point of segment '
                                            f'[{l_},{r_}) is not in the mask', dict(smeta, check='cert'), True))
                    continue
                add_interp(x[l_:r_], yy[l_:r_], mk[l_:r_], bb[l_:r_], smeta)
                if exact_data:
                    lines.append(f'c14.hull {qs(x[l_:r_])} {qs(yy[l_:r_])} {",".join(str(int(v)) for v in mk[l_:r_])}')
                    checks.append((None, dict(smeta, check='cert'), 'hull'))
                    ctx.count('rubberband-segments:cert')
    res = drive(lines)
    ctx.traces += len(lines)
    for ln, r, (real, meta, exact) in zip(lines, res, checks):
        if exact == 'hull':
            if r != '1':
                dis.append(Disagreement('c14.hull', 'hull:certificate', 'the mask returned by rubberband is not the lower convex hull '
                                        'of the points (certificate rejected)', dict(meta, check='cert'), True))
            continue
        if exact in ('interp', 'interp-shift'):
            base, mk, ysc = real
            if exact == 'interp-shift':
                verdict, _, r = r.partition(' ')
                if verdict != '1':
                    dis.append(Disagreement('c14.hull', 'hull:certificate', 'the mask returned by rubberband for the shifted data is not '
                                            'the lower convex hull of the shifted points (certificate rejected)', dict(meta, check='cert-shift'), True))
            why = interp_mismatch(base, parse_qs(r), mk, ysc)
            if why:
                dis.append(Disagreement('c14.model', 'model:rubberband:interp', 'rubberband baseline differs from the model interpolant through '
                                        f'the returned mask (np.interp(x, x[mask], y[mask]) = hullInterp): {why}', dict(meta, line=ln[:80]), False))
            continue
        rows = parse_mat(r)
        pred = [v for row in rows for v in row]
        ok = exact_list(real, pred) if exact else close_list(real, pred)
        if np.ndim(real) == 2 and [len(row) for row in rows] != [np.shape(real)[1]] * np.shape(real)[0]:
            ok = False      # same entries in another shape (the model's `transpose` loses ragged / column-less shapes)
        if not ok:
            # is the real code itself violating the property here? evaluated directly above; otherwise model-level
            dis.append(Disagreement('c14.model', f'model:{meta["method"]}', f'{meta["method"]}: implementation differs from the Lean model '
                                    f'({ {k: v for k, v in meta.items() if k not in ("y", "Y")} })', dict(meta, line=ln[:80]), False))
    return dis


def search(ctx, hints, lean_failed):
    """re-run the direct property checks with fresh randomness; only property-level failures count"""
    sub = type(ctx)(ctx.prop, 'thorough' if ctx.thorough else 'quick', ctx.seed + 1)
    return [d for d in correspond(sub) if d.property_level]


def replay(ctx, data):
    from pybaselines import Baseline, Baseline2D
    r = data['replay']
    m = r.get('method')
    chk = r.get('check')
    try:
        if m in ('tophat', 'mor', 'imor'):
            y = np.array(r['y'])
            fit = Baseline()
            f = getattr(fit, m)
            b = f(y, half_window=r['h'])[0]
            if chk == 'le':
                return None if np.all(b <= y) else f'{m} exceeds data'
            if chk == 'idem':
                return None if np.array_equal(f(b, half_window=r['h'])[0], b) else 'not idempotent'
            if chk == 'shift':
                return None if shift_ok(m, f(y + r['shift'], half_window=r['h'])[0], b, r['shift'], y) else 'shift law fails'
        if m == 'snip':
            y = np.array(r['y'])
            fit = Baseline()
            kw = dict(max_half_window=r['hw'], decreasing=r['decreasing'], filter_order=r['order'], pad_kwargs=r['pad_kwargs'])
            b = fit.snip(y, **kw)[0]
            if chk == 'le':
                return None if np.all(b <= y) else 'snip exceeds data'
            if chk == 'shift':
                b1 = fit.snip(y + r['shift'], **kw)[0]
                return None if np.allclose(b1, b + r['shift'], rtol=0, atol=snip_shift_tol(y, r['shift'])) else \
                    f'snip shift law fails by {float(np.max(np.abs(b1 - b - r["shift"]))):.3g}'
        if m == 'rubberband':
            x, y = np.array(r['x'], dtype=float), np.array(r['y'], dtype=float)
            kw = {'segments': r['segments']} if 'segments' in r else {}
            if 'weights' in r:
                kw['weights'] = np.array(r['weights'])
            b, p = Baseline(x).rubberband(y, **kw)
            mk = p['mask']
            sc = max(1.0, float(np.max(np.abs(y))))
            if chk == 'le':
                return None if np.all(b <= y + rb_tol(sc)) else 'rubberband baseline exceeds the data'
            if chk == 'touch':
                ends = [0, -1] if kw else mk
                return None if np.allclose(b[ends], y[ends], rtol=0, atol=rb_tol(sc)) else 'rubberband baseline does not touch the data'
            if chk == 'convex':
                why = rubberband_direct(x, y, b, mk, None, 0.0)
                return why[2] if why and why[3] == 'convex' else None
            if chk == 'shift':
                b1 = Baseline(x).rubberband(y + r['shift'], **kw)[0]
                return None if np.allclose(b1, b + r['shift'], rtol=0, atol=rb_tol(sc + abs(r['shift']))) else 'shift law fails'
            if chk == 'cert-shift':
                y2 = y + r['shift']
                mk2 = Baseline(x).rubberband(y2, **kw)[1]['mask']
                cert = drive([f'c14.hull {qs(x)} {qs(y2)} {",".join(str(int(v)) for v in mk2)}'])[0]
                return None if cert == '1' else 'the mask returned for the shifted data is not the lower convex hull (certificate rejected)'
            if chk in ('cert', 'interp'):
                l_, r_ = r.get('segment', [0, len(y)])
                ms = ','.join(str(int(v)) for v in mk[l_:r_])
                cert, pred = drive([f'c14.hull {qs(x[l_:r_])} {qs(y[l_:r_])} {ms}', f'c14.hullinterp {qs(x[l_:r_])} {qs(y[l_:r_])} {ms}'])
                if chk == 'cert':
                    return None if cert == '1' else 'the returned mask is not the lower convex hull (certificate rejected)'
                return interp_mismatch(b[l_:r_], parse_qs(pred), mk[l_:r_], float(np.max(np.abs(y[l_:r_]))))
        if m == 'ops2d':
            from scipy.ndimage import grey_dilation, grey_erosion
            from pybaselines.two_d.morphological import _avg_opening as avg_opening_2d
            Y = np.array(r['Y'], dtype=float)
            hr, hc = r['h']
            size = (2 * hr + 1, 2 * hc + 1)
            op = grey_dilation(grey_erosion(Y, size), size)
            if chk == 'le':
                return None if np.all(op <= Y) and np.all(np.minimum(op, avg_opening_2d(Y, np.array([hr, hc]))) <= Y) else \
                    '2-D opening / mor exceeds the data'
            if chk == 'idem':
                return None if np.array_equal(grey_dilation(grey_erosion(op, size), size), op) else 'not idempotent'
            if chk == 'shift':
                return None if np.array_equal(grey_dilation(grey_erosion(Y + r['shift'], size), size), op + r['shift']) else 'shift law fails'
            return None
        if m in ('erode2d', 'dilate2d', 'avgopening2d', 'transpose'):
            return None      # model-level comparison only (no property-level check carries these names)
        if m and m.endswith('2d'):
            Y = np.array(r['Y'])
            fit = Baseline2D()
            nm = m[:-2]
            f = getattr(fit, nm)
            b = f(Y, half_window=tuple(r['h']))[0]
            if chk == 'le':
                return None if np.all(b <= Y) else '2-D baseline exceeds data'
            if chk == 'idem':
                return None if np.array_equal(f(b, half_window=tuple(r['h']))[0], b) else 'not idempotent'
            if chk == 'shift':
                return None if shift_ok(nm, f(Y + r['shift'], half_window=tuple(r['h']))[0], b, r['shift'], Y) else 'shift law fails'
    except Exception as e:
        return f'{type(e).__name__}: {e}'
    return None
