"""C15 — invalid inputs are rejected with ValueError/TypeError, never silently used."""
import glob
import json
import os

import warnings

import numpy as np

from . import methods as M
from .common import Disagreement, drive, q, ROOT

PROP_MODULE = 'PbVerif.Props.C15'
RULE = ('method level also: every out-of-domain scalar written as numpy scalar / 0-d array / length-one list, tuple, array; for every '
        'parameter that accepts TWO values (found by probing the valid pair on every method: 2-D lam / poly_order / num_knots / '
        'spline_degree / diff_order / half_window pairs, snip max_half_window) the pairs with exactly ONE out-of-domain entry at either '
        'position (zero, negative, non-integer, nan, +-inf named by the statement; None / wrong type / non-integer for integer '
        'parameters demanded when the scalar form of the same value is rejected) as tuple, list and array, next to the all-invalid '
        'pairs; cases = (checker, value class representative, flags) compared with the Lean decision functions (two representatives per '
        'class), and (method, dimension, parameter or array argument, out-of-domain value / non-finite position / wrong length) on '
        'every public method that has the parameter: the call must raise ValueError or TypeError (AttributeError for unknown method '
        'names); non-trivial = value outside the documented domain; distinct by canonical tuple')
ASSUMPTIONS = [
    'np.asarray / np.asarray_chkfinite conversions (truncation of floats for integer dtypes, nan for None with float dtype) are modelled, not proved',
    'the out-of-domain sets are those named in the property statement; parameters that are documented as inactive for the given call '
    '(lam=None/0 of rubberband and custom_bc, smooth_half_window) and p in {0,1} for the mpls family (documented closed interval) are not demanded',
]

SCALARS = [-1, 0, 1, 2, 7, -0.5, 0.0, 0.5, 1.0, 2.5, 3.0, -2.5, float('nan'), float('inf'), float('-inf'), None, 'a', True]
ARRAYS = [[2, 3], [2], [2.5, 3], [0, 2], [2, -1], [], [1, 2, 3], [[1, 2]], [[2]], [3.0, 4.0], [7, 0.5], [float('nan'), 1]]


def enc_sc(v):
    if v is None:
        return 'none'
    if isinstance(v, str):
        return 'str'
    if isinstance(v, bool):
        return '1' if v else '0'
    if isinstance(v, float):
        if np.isnan(v):
            return 'nan'
        if np.isinf(v):
            return 'pinf' if v > 0 else 'ninf'
    return q(v)


def enc(v):
    if isinstance(v, list):
        if v and isinstance(v[0], list):
            return 'm:' + '|'.join(';'.join(enc_sc(e) for e in row) for row in v)
        return 'a:' + ';'.join(enc_sc(e) for e in v)
    return 's:' + enc_sc(v)


def real_res(fn):
    try:
        out = fn()
    except Exception as e:
        return type(e).__name__
    a = np.asarray(out)
    vals = ','.join(enc_sc(float(e)) for e in a.ravel())
    return f'ok:{"s" if a.ndim == 0 else "a"}:{vals}'


def checker_level(ctx, dis):
    from pybaselines import _validation as V
    lines, exp = [], []
    for v in SCALARS + ARRAYS:
        for az in (False, True):
            for td in (False, True):
                lines.append(f'c15.lam {enc(v)} {int(az)} {int(td)}')
                exp.append(real_res(lambda: V._check_lam(v, az, td)))
                lines.append(f'c15.hw {enc(v)} {int(az)} {int(td)}')
                exp.append(real_res(lambda: V._check_half_window(v, az, td)))
                for di in (False, True):
                    lines.append(f'c15.sv {enc(v)} {int(az)} {int(td)} {int(di)}')
                    exp.append(real_res(lambda: V._check_scalar_variable(v, az, 'v', td, dtype=(np.intp if di else float))))
                ctx.case(('checker', repr(v), az, td), nontrivial=True)
    shapes = [(), (5,), (5, 1), (1, 5), (5, 2), (2, 3, 4), (1, 1), (3, 4, 1), (1, 3, 4), (3, 1, 4), (1,), (2, 2, 2, 2), (1, 1, 5)]
    for s in shapes:
        for nf in (False, True):
            for cf in (False, True):
                for (e1, e2, td) in ((True, False, False), (False, True, True), (False, False, True), (False, False, False)):
                    a = np.ones(s)
                    if nf and a.size:
                        a.ravel()[-1] = np.nan
                    elif nf:
                        continue

                    def f():
                        return V._check_array(a, check_finite=cf, ensure_1d=e1, ensure_2d=e2, two_d=td)
                    try:
                        r = 'ok:' + (','.join(str(k) for k in f().shape) or '-')
                    except Exception as e:
                        r = type(e).__name__
                    lines.append(f'c15.arr {",".join(map(str, s)) or "-"} {int(nf)} {int(cf)} {int(e1)} {int(e2)} {int(td)}')
                    exp.append(r)
                    ctx.case(('array', s, nf, cf, e1, e2, td), nontrivial=True)
        for length in (5, 4):
            a = np.ones(s)
            try:
                r = 'ok:' + (','.join(str(k) for k in V._check_sized_array(a, length, check_finite=True).shape) or '-')
            except Exception as e:
                r = type(e).__name__
            lines.append(f'c15.sized {",".join(map(str, s)) or "-"} 0 1 {length}')
            exp.append(r)
    from pybaselines import Baseline
    for v in (0, 1, 2, 3, 4, 5, -1, 2.0, 2.5, True, False):
        b = Baseline()
        try:
            b.banded_solver = v
            r = 'ok'
        except Exception as e:
            r = type(e).__name__
        lines.append(f'c15.solver {int(isinstance(v, bool))} {q(float(v))}')
        exp.append(r)
        ctx.case(('solver', repr(v)), nontrivial=True)
    res = drive(lines)
    ctx.traces += len(lines)
    def norm(t):
        return t.replace('ok:s:', 'ok:').replace('ok:a:', 'ok:')
    for ln, r, e in zip(lines, res, exp):
        if norm(r) != norm(e):
            # is it a silent acceptance of something the statement says must be rejected?  (half windows, lam <= 0)
            pl = ln.startswith('c15.hw') and e.startswith('ok') and r in ('TypeError', 'ValueError') and ' 0 ' in ln[6:].replace(ln.split(' ')[1], '', 1)
            dis.append(Disagreement('c15.checker', 'checker:' + ln.split(' ')[0][4:] + (':two_d' if ln.rstrip().endswith('1') and ln.startswith('c15.hw') else ''),
                                    f'{ln}: the real checker gives {e}, the model {r}', {'line': ln, 'real': e, 'model': r}, property_level=False))


BAD = {
    'lam': [0, -1, -0.5, [1, 2, 3]],
    'p': [-0.1, 1.5, 0, 1],
    'quantile': [-0.1, 1.5, 0, 1],
    'eta': [-0.1, 1.5],
    'diff_order': [0, -1],
    'poly_order': [-1],
    'num_knots': [1, 0, -1],
    'spline_degree': [-1],
    'half_window': [0, -1, 2.5, [2.5, 3], 3.5],
    'max_half_window': [0, -1, 2.5],
}
# further entry classes of a two-valued parameter.  Named by the statement: for half windows everything that is not a positive integer
# (nan, +-inf are non-integers); for lam, -inf (<= 0).  The remaining classes (non-integer for the other integer parameters, nan / inf
# for lam, None, wrong type) are not named: they are demanded only for CONSISTENCY - when the scalar form of the value is rejected by
# this very method, hiding it in a pair next to a valid entry must not make it acceptable.
NAMED_EXTRA = {
    'half_window': [float('nan'), float('inf'), float('-inf')],
    'max_half_window': [float('nan'), float('inf'), float('-inf')],
    'lam': [float('-inf')],
}
CONSISTENCY_EXTRA = [2.5, float('nan'), float('inf'), None, 'a']
SCALAR_FORMS = ('npscalar', '0darray', 'len1list', 'len1tuple', 'len1array')
PAIR_FORMS = ('tuple', 'list', 'array')


def as_form(v, form):
    """the value `v` (a scalar or a 2-list) written in another way"""
    if form == 'npscalar':
        return np.float64(v) if isinstance(v, float) else np.int64(v)
    if form == '0darray':
        return np.array(v)
    if form == 'len1list':
        return [v]
    if form == 'len1tuple':
        return (v,)
    if form == 'len1array':
        return np.array([v])
    if form == 'tuple':
        return tuple(v)
    if form == 'list':
        return list(v)
    if form == 'array':
        return np.array(v)
    return v


def show(v):
    return repr(v).replace('array(', 'np.array(').replace('np.np.', 'np.')


P_CLOSED = {'mpls', 'mpspline', 'pspline_mpls'}          # documented 0 <= p <= 1
LAM_OPTIONAL = {'custom_bc', 'rubberband'}                 # lam None/0 = no smoothing; diff_order only used with lam
HW_MODULES = {'morphological', 'smooth'}


def outcome_of(fn):
    try:
        with warnings.catch_warnings():
            warnings.simplefilter('ignore')
            fn()
        return 'returned'
    except (ValueError, TypeError):
        return 'rejected'
    except Exception as ex:          # noqa: BLE001
        return 'other:' + type(ex).__name__


def skip_value(name, prm, v):
    return (prm == 'p' and v in (0, 1) and name in P_CLOSED) or (name in LAM_OPTIONAL and prm == 'lam' and v == 0)


def with_param(name, kw0, prm, value):
    kw = dict(kw0)
    kw[prm] = value
    if name in LAM_OPTIONAL and prm == 'diff_order':
        kw['lam'] = 10.0
    return kw


def forms_and_pairs(ctx, dis, rng, dim, two_d, name, e, kw0, call):
    """(a) every out-of-domain scalar of the table written as numpy scalar / 0-d array / length-one sequence; (b) for every
    parameter of the table that ACCEPTS a pair on this method (probed with the valid pair): pairs with exactly one invalid entry, at
    either position, in every sequence form, and the all-invalid pair"""
    def report(prm, raw, form, outcome, why, sig):
        dis.append(Disagreement('c15.param', f'{dim}:{name}:{prm}:{sig}', f'{dim} {name}({prm}={show(as_form(raw, form))}) '
                                f'{"returned a baseline" if outcome == "returned" else "raised " + outcome[6:]} instead of raising ValueError/TypeError ({why})',
                                {'kind': 'param', 'two_d': two_d, 'method': name, 'param': prm, 'value': raw, 'form': form}, True))

    for prm, vals in BAD.items():
        if prm not in e['params'] or (prm == 'half_window' and e['module'] not in HW_MODULES):
            continue
        scalars = [v for v in vals if not isinstance(v, list) and not skip_value(name, prm, v)]
        # (a) the same scalar, written differently
        for v in scalars:
            for form in SCALAR_FORMS:
                value = as_form(v, form)
                outcome = outcome_of(lambda: call(with_param(name, kw0, prm, value)))
                ctx.case((dim, name, prm, repr(v), form), nontrivial=True)
                ctx.count('scalar-form:' + form)
                if outcome != 'rejected':
                    report(prm, v, form, outcome, f'the out-of-domain value {v!r} as {form}', 'form')
        # (b) does the parameter accept two values here?
        base = kw0.get(prm, e['params'].get(prm))
        if isinstance(base, (tuple, list)) and len(base) == 2:
            good = [base[0], base[1]]
        elif isinstance(base, (int, float)) and not isinstance(base, bool):
            good = [base, base]
        elif M.ALT_VALUES.get(prm):
            good = [M.ALT_VALUES[prm][-1], M.ALT_VALUES[prm][-1]]
        else:
            continue
        if outcome_of(lambda: call(with_param(name, kw0, prm, tuple(good)))) != 'returned':
            continue
        ctx.count('pair-accepting:' + prm)
        ctx.count('pair-accepting-method:%s:%s' % (dim, name))
        named = scalars + NAMED_EXTRA.get(prm, [])
        extra = [v for v in CONSISTENCY_EXTRA if not any((v == w or (isinstance(v, float) and isinstance(w, float) and np.isnan(v) and np.isnan(w)))
                                                         and type(v) is type(w) for w in named)]
        for v, demanded in [(v, True) for v in named] + [(v, False) for v in extra]:
            if not demanded:
                # consistency class: only when this method rejects the scalar form of the value
                if outcome_of(lambda: call(with_param(name, kw0, prm, v))) != 'rejected':
                    ctx.count('pair-entry:scalar-form-accepted(not demanded)')
                    continue
            numeric = isinstance(v, (int, float))
            for pos in (0, 1, 'both'):
                pair = [v, v] if pos == 'both' else [v if k == pos else good[k] for k in (0, 1)]
                for form in (PAIR_FORMS if numeric else PAIR_FORMS[:2]):
                    if not demanded and form != 'tuple' and rng.random() < 0.5:
                        continue
                    value = as_form(pair, form)
                    outcome = outcome_of(lambda: call(with_param(name, kw0, prm, value)))
                    if outcome == 'other:OverflowError' and isinstance(v, float) and np.isinf(v):
                        # the integer conversion of +-inf raises OverflowError (Model/Validate.convert: `overflowError`, diffed at the
                        # checker level): a rejection, not a silent use - recorded, not reported
                        outcome = 'rejected'
                        ctx.count('pair-entry:inf rejected with OverflowError')
                        ctx.notes.append('an infinite entry of an integer-valued pair parameter (half windows) is rejected with OverflowError '
                                         '(np.asarray(..., dtype=intp)), not ValueError/TypeError')
                    ctx.case((dim, name, prm, 'pair', repr(v), pos, form), nontrivial=True,
                             sample={'method': f'{dim}:{name}', 'parameter': prm, 'value': show(value), 'outcome': outcome}
                             if pos != 'both' and form == 'tuple' and len(ctx.samples) < 6 and name in ('snip', 'mor') else None)
                    ctx.count('pair-entry:' + ('one-invalid' if pos != 'both' else 'both-invalid'))
                    ctx.count('pair-class:' + ('nan' if isinstance(v, float) and np.isnan(v) else repr(v)))
                    if outcome != 'rejected':
                        what = (f'pair with exactly one out-of-domain entry ({v!r} at position {pos})' if pos != 'both' else f'pair of two out-of-domain entries ({v!r})')
                        why = what + ('' if demanded else f'; the scalar {prm}={v!r} is rejected by the same method')
                        report(prm, pair, form, outcome, why, 'pair' if demanded else 'pair-consistency')


def method_level(ctx, dis):
    from pybaselines import Baseline, Baseline2D
    rng = ctx.np_rng()

    def run(two_d, name, x, z, Y, kw):
        fit = Baseline2D(x, z) if two_d else Baseline(x)
        return getattr(fit, name)(Y, **kw)

    for two_d, xord in ((False, 'sorted'), (True, 'sorted'), (False, 'shuffled'), (True, 'shuffled')):
        reg = M.registry(two_d)
        if two_d:
            x, z, Y = M.make_data2d(rng, 14, 11)
            if xord == 'shuffled':
                px, pz = rng.permutation(len(x)), rng.permutation(len(z))
                x, z, Y = x[px], z[pz], Y[px][:, pz]
        else:
            x, Y = M.make_data(rng, 60)
            z = None
            if xord == 'shuffled':
                px = rng.permutation(len(x))
                x, Y = x[px], Y[px]
        dim = ('2d' if two_d else '1d') + ('' if xord == 'sorted' else ':unsorted-x')
        for name, e in reg.items():
            stack = name == 'collab_pls'
            data = np.array([Y, Y * 1.1]) if stack else Y
            kw0 = M.filter_kwargs(e, M.call_kwargs(name, two_d))
            # sanity: the valid call returns
            try:
                run(two_d, name, x, z, data, kw0)
            except Exception as ex:
                ctx.notes.append(f'{dim}:{name} valid call raises {type(ex).__name__}')
                continue
            # ---- scalar parameters out of their documented domain
            for prm, vals in BAD.items():
                if prm not in e['params']:
                    continue
                if prm == 'half_window' and e['module'] not in HW_MODULES:
                    continue
                for v in vals:
                    if prm == 'p' and v in (0, 1) and name in P_CLOSED:
                        continue
                    if name in LAM_OPTIONAL and prm == 'lam' and v == 0:
                        continue
                    if two_d and prm in ('lam', 'half_window') and isinstance(v, list) and len(v) == 3:
                        pass
                    # the value must be rejected whatever the OTHER arguments are: also when the caller supplies weights (which
                    # switches set-up code paths in several methods)
                    for with_w in ((False, True) if ('weights' in e['params'] and name not in M.OPTIMIZERS_1D and name not in M.OPTIMIZERS_2D and not stack) else (False,)):
                        kw = dict(kw0)
                        kw[prm] = v
                        if with_w:
                            kw['weights'] = np.round(np.random.default_rng(5).uniform(0.3, 1.0, np.shape(data)) * 32) / 32
                        if name in LAM_OPTIONAL and prm == 'diff_order':
                            kw['lam'] = 10.0
                        canon = (dim, name, prm, repr(v), with_w)
                        ctx.count('param:' + prm)
                        if with_w:
                            ctx.count('param-with-user-weights')
                        try:
                            run(two_d, name, x, z, data, kw)
                            outcome = 'returned'
                        except (ValueError, TypeError):
                            outcome = 'rejected'
                        except Exception as ex:
                            outcome = 'other:' + type(ex).__name__
                        ctx.case(canon, nontrivial=True, sample={'method': f'{dim}:{name}', 'parameter': prm, 'value': repr(v), 'outcome': outcome}
                                 if len(ctx.samples) < 4 else None)
                        if outcome != 'rejected':
                            nonint = prm in ('half_window', 'max_half_window') and (v == 2.5 or v == 3.5 or v == [2.5, 3])
                            sig = f'{dim}:{name}:{prm}:' + ('noninteger' if nonint else 'domain') + (':with-weights' if with_w else '')
                            dis.append(Disagreement('c15.param', sig, f'{dim} {name}({prm}={v!r}{", weights=<array>" if with_w else ""}) {"returned a baseline" if outcome == "returned" else "raised " + outcome[6:]} '
                                                    f'instead of raising ValueError/TypeError', {'kind': 'param', 'two_d': two_d, 'method': name, 'param': prm, 'value': v, 'with_weights': with_w}, True))
            if xord == 'sorted':
                forms_and_pairs(ctx, dis, rng, dim, two_d, name, e, kw0, lambda kw: run(two_d, name, x, z, data, kw))
            # ---- non-finite data at any position (default check_finite=True)
            for bad in (np.nan, np.inf, -np.inf):
                for pos in ('first', 'last', 'random'):
                    d2 = np.array(data, dtype=float, order='C', copy=True)
                    idx = 0 if pos == 'first' else d2.size - 1 if pos == 'last' else int(rng.integers(0, d2.size))
                    d2.flat[idx] = bad
                    ctx.count('nonfinite-data')
                    # every way the data reach the validation: fitter created with x (and z), fitter created without (first and
                    # second call), module-level function with and without x_data
                    paths = [('fitter with x', lambda: run(two_d, name, x, z, d2, kw0))]
                    if xord == 'sorted' and name != 'interp_pts':
                        def no_x_first():
                            return getattr(Baseline2D() if two_d else Baseline(), name)(d2, **kw0)

                        def no_x_second():
                            f = Baseline2D() if two_d else Baseline()
                            try:
                                getattr(f, name)(np.array(data, dtype=float), **kw0)
                            except Exception:          # noqa: BLE001
                                pass
                            return getattr(f, name)(d2, **kw0)
                        paths += [('fitter without x, first call', no_x_first), ('fitter without x, second call', no_x_second)]
                        if not two_d:
                            import importlib
                            fn = getattr(importlib.import_module('pybaselines.' + e['module']), name, None)
                            if fn is not None:
                                paths += [('function without x_data', lambda: fn(d2, **kw0)), ('function with x_data', lambda: fn(d2, x_data=x, **kw0))]
                    if pos != 'random':
                        paths = paths[:1] + ([paths[1 + int(rng.integers(0, len(paths) - 1))]] if len(paths) > 1 else [])
                    for plabel, pf in paths:
                        try:
                            with warnings.catch_warnings():
                                warnings.simplefilter('ignore')
                                pf()
                            outcome = 'returned'
                        except (ValueError, TypeError):
                            outcome = 'rejected'
                        except Exception as ex:
                            outcome = 'other:' + type(ex).__name__
                        ctx.case((dim, name, 'data', repr(bad), pos, plabel), nontrivial=True)
                        ctx.count('nonfinite-path:' + plabel)
                        if outcome != 'rejected':
                            dis.append(Disagreement('c15.nonfinite', f'{dim}:{name}:data-nonfinite', f'{dim} {name} ({plabel}): data containing {bad} at the {pos} '
                                                    f'position {outcome} instead of ValueError',
                                                    {'kind': 'nonfinite', 'two_d': two_d, 'method': name, 'bad': repr(bad), 'pos': pos, 'path': plabel}, True))
            # ---- wrong lengths and non-finite per-point arrays
            shape = Y.shape
            for arg in ('data', 'weights', 'alpha'):
                if arg != 'data' and (arg not in e['params'] or (arg == 'alpha' and 'aspls' not in name)):
                    continue
                for delta in (1, -1):
                    if two_d:
                        bshape = (shape[0] + delta, shape[1]) if rng.random() < 0.5 else (shape[0], shape[1] + delta)
                    else:
                        bshape = (shape[0] + delta,)
                    arr = np.ones(bshape) if arg != 'data' else (np.resize(Y, bshape) + 0.0)
                    kw = dict(kw0)
                    d2 = data
                    if arg == 'data':
                        d2 = np.array([arr, arr]) if stack else arr
                    else:
                        kw[arg] = arr
                    ctx.count('wrong-length:' + arg)
                    try:
                        run(two_d, name, x, z, d2, kw)
                        outcome = 'returned'
                    except (ValueError, TypeError):
                        outcome = 'rejected'
                    except Exception as ex:
                        outcome = 'other:' + type(ex).__name__
                    ctx.case((dim, name, arg, 'len', delta), nontrivial=True)
                    if outcome != 'rejected':
                        dis.append(Disagreement('c15.length', f'{dim}:{name}:{arg}-length', f'{dim} {name}: {arg} of shape {bshape} for data of shape {shape} '
                                                f'{outcome} instead of ValueError', {'kind': 'length', 'two_d': two_d, 'method': name, 'arg': arg, 'shape': list(bshape)}, True))
                if arg != 'data':
                    for bad in (np.nan, np.inf):
                        arr = np.ones(shape)
                        arr.flat[int(rng.integers(0, arr.size))] = bad
                        kw = dict(kw0)
                        kw[arg] = arr
                        ctx.count('nonfinite:' + arg)
                        try:
                            run(two_d, name, x, z, data, kw)
                            outcome = 'returned'
                        except (ValueError, TypeError):
                            outcome = 'rejected'
                        except Exception as ex:
                            outcome = 'other:' + type(ex).__name__
                        ctx.case((dim, name, arg, 'nonfinite', repr(bad)), nontrivial=True)
                        if outcome != 'rejected':
                            dis.append(Disagreement('c15.nonfinite', f'{dim}:{name}:{arg}-nonfinite', f'{dim} {name}: {arg} containing {bad} {outcome} instead '
                                                    f'of ValueError', {'kind': 'nonfinite-arg', 'two_d': two_d, 'method': name, 'arg': arg, 'bad': repr(bad)}, True))
        # ---- unordered x lengths, unknown solver / method names
        for v in (0, 5, True, -1, 2.5):
            fit = Baseline2D(x, z) if two_d else Baseline(x)
            try:
                fit.banded_solver = v
                dis.append(Disagreement('c15.solver', f'{dim}:solver', f'{dim} banded_solver = {v!r} was accepted', {'kind': 'solver', 'two_d': two_d, 'value': v}, True))
            except ValueError:
                pass
            ctx.case((dim, 'solver', repr(v)), nontrivial=True)
        fit = Baseline2D(x, z) if two_d else Baseline(x)
        for nm in ('not_a_method', 'asls2', ''):
            try:
                fit._get_method(nm)
                dis.append(Disagreement('c15.name', f'{dim}:method-name', f'{dim} _get_method({nm!r}) returned', {'kind': 'name', 'two_d': two_d, 'name': nm}, True))
            except AttributeError:
                pass
            ctx.case((dim, 'name', nm), nontrivial=True)
        for opt, okw in (('collab_pls', {}), ('optimize_extended_range', {}), ('custom_bc', {}), ('adaptive_minmax', {}), ('individual_axes', {})):
            if opt not in reg:
                continue
            d2 = np.array([Y, Y]) if opt == 'collab_pls' else Y
            try:
                getattr(fit, opt)(d2, method='not_a_method')
                dis.append(Disagreement('c15.name', f'{dim}:{opt}:method-name', f'{dim} {opt}(method="not_a_method") returned', {'kind': 'optname', 'two_d': two_d, 'opt': opt}, True))
            except (AttributeError, ValueError, TypeError):
                pass
            ctx.case((dim, 'optname', opt), nontrivial=True)


def correspond(ctx):
    dis = []
    for f in sorted(glob.glob(os.path.join(ROOT, 'corpus', 'C15_*.json'))):
        d = json.load(open(f))
        r = replay(ctx, d)
        ctx.case(('corpus', os.path.basename(f)))
        if r:
            dis.append(Disagreement('c15.corpus', d['signature'], f'corpus {os.path.basename(f)}: {r}', d['replay'], True))
    checker_level(ctx, dis)
    method_level(ctx, dis)
    return dis


def search(ctx, hints, lean_failed):
    sub = type(ctx)(ctx.prop, ctx.tier, ctx.seed + 1)
    dis = []
    method_level(sub, dis)
    return [d for d in dis if d.property_level]


def replay(ctx, data):
    from pybaselines import Baseline, Baseline2D
    r = data['replay']
    rng = np.random.default_rng(0)
    if r.get('kind') != 'param':
        return None
    two_d = r['two_d']
    reg = M.registry(two_d)
    e = reg[r['method']]
    if two_d:
        x, z, Y = M.make_data2d(rng, 14, 11)
    else:
        x, Y = M.make_data(rng, 60)
        z = None
    kw = M.filter_kwargs(e, M.call_kwargs(r['method'], two_d))
    kw[r['param']] = as_form(r['value'], r.get('form'))
    if r.get('with_weights'):
        kw['weights'] = np.round(np.random.default_rng(5).uniform(0.3, 1.0, np.shape(Y)) * 32) / 32
    if r['method'] in LAM_OPTIONAL and r['param'] == 'diff_order':
        kw['lam'] = 10.0
    data_ = np.array([Y, Y * 1.1]) if r['method'] == 'collab_pls' else Y
    try:
        fit = Baseline2D(x, z) if two_d else Baseline(x)
        getattr(fit, r['method'])(data_, **kw)
        return f'{r["method"]}({r["param"]}={show(kw[r["param"]])}) returned a baseline'
    except (ValueError, TypeError):
        return None
    except Exception as ex:
        return f'{r["method"]}({r["param"]}={show(kw[r["param"]])}) raised {type(ex).__name__}'
