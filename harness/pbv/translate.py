"""Route A: regenerate PbVerif/Gen/*.lean from /repo's working tree (tables only)."""
import os
from . import common


def regenerate():
    fails = []
    os.makedirs(os.path.join(common.LEAN, 'PbVerif', 'Gen'), exist_ok=True)
    return fails
