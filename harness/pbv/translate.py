"""Route A: regenerate PbVerif/Gen/*.lean from /repo's working tree (tables only; DESIGN 2.2).

If the source leaves the fragment the translator understands it does not guess: it emits a
`translationFailed` marker (the table becomes empty, so the dependent `decide` fails) and reports
the failure to the runner."""
import ast
import os

from . import common


class Unsupported(Exception):
    pass


def _const(node, env):
    """evaluate a constant integer expression with loop variables from env"""
    if isinstance(node, ast.Constant) and isinstance(node.value, (int, float)) and not isinstance(node.value, bool):
        if float(node.value) != int(node.value):
            raise Unsupported(f'non-integer constant {node.value}')
        return int(node.value)
    if isinstance(node, ast.Name) and node.id in env:
        return env[node.id]
    if isinstance(node, ast.UnaryOp) and isinstance(node.op, ast.USub):
        return -_const(node.operand, env)
    if isinstance(node, ast.BinOp) and isinstance(node.op, (ast.Add, ast.Sub, ast.Mult)):
        a, b = _const(node.left, env), _const(node.right, env)
        return a + b if isinstance(node.op, ast.Add) else a - b if isinstance(node.op, ast.Sub) else a * b
    raise Unsupported(ast.dump(node)[:80])


def _target(t, env):
    """output[row, col] -> (row, lo, hi)"""
    if not (isinstance(t, ast.Subscript) and isinstance(t.value, ast.Name) and t.value.id == 'output'):
        raise Unsupported('target ' + ast.dump(t)[:80])
    sl = t.slice
    if not (isinstance(sl, ast.Tuple) and len(sl.elts) == 2):
        raise Unsupported('index ' + ast.dump(sl)[:80])
    row = _const(sl.elts[0], env)
    c = sl.elts[1]
    if isinstance(c, ast.Slice):
        if c.step is not None:
            raise Unsupported('slice step')
        lo = None if c.lower is None else _const(c.lower, env)
        hi = None if c.upper is None else _const(c.upper, env)
    else:
        k = _const(c, env)
        lo, hi = k, (None if k == -1 else k + 1)
    return row, lo, hi


def _stmts(body, env, full_only, out):
    for st in body:
        if isinstance(st, ast.Expr) and isinstance(st.value, ast.Constant):
            continue  # docstring
        if isinstance(st, ast.Assign):
            if len(st.targets) == 1 and isinstance(st.targets[0], ast.Name) and st.targets[0].id == 'output':
                raise Unsupported('re-assignment of output')
            val = _const(st.value, env)
            # chained assignment a = b = v assigns left to right
            for t in st.targets:
                row, lo, hi = _target(t, env)
                out.append((row, lo, hi, val, full_only))
        elif isinstance(st, ast.If):
            tst = st.test
            if (isinstance(tst, ast.UnaryOp) and isinstance(tst.op, ast.Not) and isinstance(tst.operand, ast.Name)
                    and tst.operand.id == 'lower_only' and not st.orelse):
                _stmts(st.body, env, True, out)
            else:
                raise Unsupported('if ' + ast.dump(tst)[:80])
        elif isinstance(st, ast.For):
            if not (isinstance(st.target, ast.Name) and isinstance(st.iter, ast.Call)
                    and isinstance(st.iter.func, ast.Name) and st.iter.func.id == 'range' and not st.orelse):
                raise Unsupported('for')
            args = [_const(a, env) for a in st.iter.args]
            for v in range(*args):
                _stmts(st.body, dict(env, **{st.target.id: v}), full_only, out)
        elif isinstance(st, ast.Return):
            if not (isinstance(st.value, ast.Name) and st.value.id == 'output'):
                raise Unsupported('return')
        else:
            raise Unsupported(type(st).__name__)


def _table(fn):
    """first statement: output = np.full((A if lower_only else B, data_size), v) | np.ones(...)"""
    body = [s for s in fn.body if not (isinstance(s, ast.Expr) and isinstance(s.value, ast.Constant))]
    first = body[0]
    if not (isinstance(first, ast.Assign) and isinstance(first.targets[0], ast.Name) and first.targets[0].id == 'output'
            and isinstance(first.value, ast.Call) and isinstance(first.value.func, ast.Attribute)):
        raise Unsupported('first statement')
    call = first.value
    kind = call.func.attr
    if kind == 'full':
        shape, init = call.args[0], _const(call.args[1], {})
    elif kind == 'ones':
        shape, init = call.args[0], 1
    elif kind == 'zeros':
        shape, init = call.args[0], 0
    else:
        raise Unsupported('initialiser ' + kind)
    if not (isinstance(shape, ast.Tuple) and len(shape.elts) == 2 and isinstance(shape.elts[1], ast.Name)
            and shape.elts[1].id == 'data_size'):
        raise Unsupported('shape')
    rows = shape.elts[0]
    if not (isinstance(rows, ast.IfExp) and isinstance(rows.test, ast.Name) and rows.test.id == 'lower_only'):
        raise Unsupported('rows')
    rl, rf = _const(rows.body, {}), _const(rows.orelse, {})
    out = []
    _stmts(body[1:], {}, False, out)
    return init, rl, rf, out


def _lean_opt(v):
    return 'none' if v is None else f'(some ({v}))'


def gen_diags():
    path = os.path.join(common.REPO, 'pybaselines', '_banded_utils.py')
    tree = ast.parse(open(path).read())
    fns = {n.name: n for n in tree.body if isinstance(n, ast.FunctionDef)}
    fails = []
    lines = ['import PbVerif.Model.Banded',
             '/-! GENERATED on every run by harness/pbv/translate.py from pybaselines/_banded_utils.py — do not edit. -/',
             'namespace PbVerif.Gen', 'open PbVerif.Banded', '']
    tables = {}
    for d in (1, 2, 3):
        name = f'_diff_{d}_diags'
        try:
            if name not in fns:
                raise Unsupported('function not found')
            init, rl, rf, assigns = _table(fns[name])
            tables[d] = (init, rl, rf, assigns)
            body = ',\n    '.join(f'⟨{r}, {_lean_opt(lo)}, {_lean_opt(hi)}, {v}, {"true" if fo else "false"}⟩'
                                  for r, lo, hi, v, fo in assigns)
            lines += [f'def diff{d} : DiagTable := {{ init := {init}, rowsLower := {rl}, rowsFull := {rf}, assigns := [',
                      f'    {body} ] }}', f'def diff{d}Translated : Bool := true', '']
        except Unsupported as e:
            fails.append(f'Diags:{name}: outside the translated fragment ({e})')
            lines += [f'def diff{d} : DiagTable := {{ init := 0, rowsLower := 0, rowsFull := 0, assigns := [] }}',
                      f'def diff{d}Translated : Bool := false  -- translationFailed', '']
    lines += ['end PbVerif.Gen', '']
    _write('Diags.lean', '\n'.join(lines))
    return fails, tables


def _write(name, text):
    d = os.path.join(common.LEAN, 'PbVerif', 'Gen')
    os.makedirs(d, exist_ok=True)
    p = os.path.join(d, name)
    old = open(p).read() if os.path.exists(p) else None
    if old != text:   # keep mtime when unchanged so that lake does not rebuild
        with open(p, 'w') as fh:
            fh.write(text)


def regenerate():
    fails = []
    f, _ = gen_diags()
    fails += f
    return fails
