"""Route A: regenerate PbVerif/Gen/*.lean from /repo's working tree (tables only; DESIGN 2.2).

If the source leaves the fragment the translator understands it does not guess: it emits a
`translationFailed` marker (the table becomes empty, so the dependent `decide` fails) and reports
the failure to the runner."""
import ast
import os

from . import common


class Unsupported(Exception):
    pass


def _const(node, env):
    """evaluate a constant integer expression with loop variables from env"""
    if isinstance(node, ast.Constant) and isinstance(node.value, (int, float)) and not isinstance(node.value, bool):
        if float(node.value) != int(node.value):
            raise Unsupported(f'non-integer constant {node.value}')
        return int(node.value)
    if isinstance(node, ast.Name) and node.id in env:
        return env[node.id]
    if isinstance(node, ast.UnaryOp) and isinstance(node.op, ast.USub):
        return -_const(node.operand, env)
    if isinstance(node, ast.BinOp) and isinstance(node.op, (ast.Add, ast.Sub, ast.Mult)):
        a, b = _const(node.left, env), _const(node.right, env)
        return a + b if isinstance(node.op, ast.Add) else a - b if isinstance(node.op, ast.Sub) else a * b
    raise Unsupported(ast.dump(node)[:80])


def _target(t, env):
    """output[row, col] -> (row, lo, hi)"""
    if not (isinstance(t, ast.Subscript) and isinstance(t.value, ast.Name) and t.value.id == 'output'):
        raise Unsupported('target ' + ast.dump(t)[:80])
    sl = t.slice
    if not (isinstance(sl, ast.Tuple) and len(sl.elts) == 2):
        raise Unsupported('index ' + ast.dump(sl)[:80])
    row = _const(sl.elts[0], env)
    c = sl.elts[1]
    if isinstance(c, ast.Slice):
        if c.step is not None:
            raise Unsupported('slice step')
        lo = None if c.lower is None else _const(c.lower, env)
        hi = None if c.upper is None else _const(c.upper, env)
    else:
        k = _const(c, env)
        lo, hi = k, (None if k == -1 else k + 1)
    return row, lo, hi


def _stmts(body, env, full_only, out):
    for st in body:
        if isinstance(st, ast.Expr) and isinstance(st.value, ast.Constant):
            continue  # docstring
        if isinstance(st, ast.Assign):
            if len(st.targets) == 1 and isinstance(st.targets[0], ast.Name) and st.targets[0].id == 'output':
                raise Unsupported('re-assignment of output')
            val = _const(st.value, env)
            # chained assignment a = b = v assigns left to right
            for t in st.targets:
                row, lo, hi = _target(t, env)
                out.append((row, lo, hi, val, full_only))
        elif isinstance(st, ast.If):
            tst = st.test
            if (isinstance(tst, ast.UnaryOp) and isinstance(tst.op, ast.Not) and isinstance(tst.operand, ast.Name)
                    and tst.operand.id == 'lower_only' and not st.orelse):
                _stmts(st.body, env, True, out)
            else:
                raise Unsupported('if ' + ast.dump(tst)[:80])
        elif isinstance(st, ast.For):
            if not (isinstance(st.target, ast.Name) and isinstance(st.iter, ast.Call)
                    and isinstance(st.iter.func, ast.Name) and st.iter.func.id == 'range' and not st.orelse):
                raise Unsupported('for')
            args = [_const(a, env) for a in st.iter.args]
            for v in range(*args):
                _stmts(st.body, dict(env, **{st.target.id: v}), full_only, out)
        elif isinstance(st, ast.Return):
            if not (isinstance(st.value, ast.Name) and st.value.id == 'output'):
                raise Unsupported('return')
        else:
            raise Unsupported(type(st).__name__)


def _table(fn):
    """first statement: output = np.full((A if lower_only else B, data_size), v) | np.ones(...)"""
    body = [s for s in fn.body if not (isinstance(s, ast.Expr) and isinstance(s.value, ast.Constant))]
    first = body[0]
    if not (isinstance(first, ast.Assign) and isinstance(first.targets[0], ast.Name) and first.targets[0].id == 'output'
            and isinstance(first.value, ast.Call) and isinstance(first.value.func, ast.Attribute)):
        raise Unsupported('first statement')
    call = first.value
    kind = call.func.attr
    if kind == 'full':
        shape, init = call.args[0], _const(call.args[1], {})
    elif kind == 'ones':
        shape, init = call.args[0], 1
    elif kind == 'zeros':
        shape, init = call.args[0], 0
    else:
        raise Unsupported('initialiser ' + kind)
    if not (isinstance(shape, ast.Tuple) and len(shape.elts) == 2 and isinstance(shape.elts[1], ast.Name)
            and shape.elts[1].id == 'data_size'):
        raise Unsupported('shape')
    rows = shape.elts[0]
    if not (isinstance(rows, ast.IfExp) and isinstance(rows.test, ast.Name) and rows.test.id == 'lower_only'):
        raise Unsupported('rows')
    rl, rf = _const(rows.body, {}), _const(rows.orelse, {})
    out = []
    _stmts(body[1:], {}, False, out)
    return init, rl, rf, out


def _lean_opt(v):
    return 'none' if v is None else f'(some ({v}))'


def gen_diags():
    path = os.path.join(common.REPO, 'pybaselines', '_banded_utils.py')
    tree = ast.parse(open(path).read())
    fns = {n.name: n for n in tree.body if isinstance(n, ast.FunctionDef)}
    fails = []
    lines = ['import PbVerif.Model.Banded',
             '/-! GENERATED on every run by harness/pbv/translate.py from pybaselines/_banded_utils.py — do not edit. -/',
             'namespace PbVerif.Gen', 'open PbVerif.Banded', '']
    tables = {}
    for d in (1, 2, 3):
        name = f'_diff_{d}_diags'
        try:
            if name not in fns:
                raise Unsupported('function not found')
            init, rl, rf, assigns = _table(fns[name])
            tables[d] = (init, rl, rf, assigns)
            body = ',\n    '.join(f'⟨{r}, {_lean_opt(lo)}, {_lean_opt(hi)}, {v}, {"true" if fo else "false"}⟩'
                                  for r, lo, hi, v, fo in assigns)
            lines += [f'def diff{d} : DiagTable := {{ init := {init}, rowsLower := {rl}, rowsFull := {rf}, assigns := [',
                      f'    {body} ] }}', f'def diff{d}Translated : Bool := true', '']
        except Unsupported as e:
            fails.append(f'Diags:{name}: outside the translated fragment ({e})')
            lines += [f'def diff{d} : DiagTable := {{ init := 0, rowsLower := 0, rowsFull := 0, assigns := [] }}',
                      f'def diff{d}Translated : Bool := false  -- translationFailed', '']
    lines += ['end PbVerif.Gen', '']
    _write('Diags.lean', '\n'.join(lines))
    return fails, tables


def _write(name, text):
    d = os.path.join(common.LEAN, 'PbVerif', 'Gen')
    os.makedirs(d, exist_ok=True)
    p = os.path.join(d, name)
    old = open(p).read() if os.path.exists(p) else None
    if old != text:   # keep mtime when unchanged so that lake does not rebuild
        with open(p, 'w') as fh:
            fh.write(text)


INPLACE_FILES = ['whittaker', 'spline', 'polynomial', 'morphological', 'smooth', 'classification', 'misc', 'optimizers',
                 'two_d/whittaker', 'two_d/spline', 'two_d/polynomial', 'two_d/morphological', 'two_d/smooth', 'two_d/optimizers']
FRESH_CALLS = {'empty', 'zeros', 'ones', 'full', 'array', 'copy', 'empty_like', 'zeros_like', 'ones_like', 'full_like', 'arange', 'linspace',
               'concatenate', 'pad', 'where', 'minimum', 'maximum', 'mean', 'sqrt', 'abs', 'exp', 'vstack', 'hstack', 'asarray_copy',
               'defaultdict', 'dict', 'list', 'logspace', 'polyvander', 'interp', 'unique', 'flatnonzero', 'diff', 'gradient', 'roll'}
MUTATORS = {'sort', 'fill', 'resize', 'put', 'itemset', 'update', 'pop', 'setdefault', 'clear', 'popitem', 'append', 'extend', 'partition', 'byteswap'}


def _origin_of(fn, name):
    """where a local name of a method body comes from: param | setup:<pos>:<copyflag> | fresh | unknown"""
    params = [a.arg for a in fn.args.args + fn.args.kwonlyargs]
    origin = 'param' if name in params else 'unknown'
    for node in ast.walk(fn):
        if not isinstance(node, ast.Assign):
            continue
        for tgt in node.targets:
            names = []
            if isinstance(tgt, ast.Name):
                names = [(tgt.id, None)]
            elif isinstance(tgt, ast.Tuple):
                names = [(e.id, i) for i, e in enumerate(tgt.elts) if isinstance(e, ast.Name)]
            for nm, pos in names:
                if nm != name:
                    continue
                v = node.value
                if isinstance(v, ast.Call) and isinstance(v.func, ast.Attribute) and v.func.attr.startswith('_setup_'):
                    src = ast.unparse(v)
                    copyflag = 'copy_weights=True' in src or (v.func.attr == '_setup_optimizer' and
                                                              (len(v.args) >= 5 and ast.unparse(v.args[4]) == 'True' or 'copy_kwargs=True' in src))
                    origin = f'setup:{v.func.attr[7:]}:{pos if pos is not None else 0}:{int(copyflag)}'
                elif isinstance(v, ast.Call):
                    f = v.func
                    fname = f.attr if isinstance(f, ast.Attribute) else (f.id if isinstance(f, ast.Name) else '')
                    origin = 'fresh' if fname in FRESH_CALLS else ('unknown' if origin in ('unknown',) else origin)
                elif isinstance(v, (ast.BinOp, ast.UnaryOp, ast.Compare, ast.List, ast.Dict, ast.ListComp, ast.Constant, ast.BoolOp)):
                    origin = 'fresh'
                elif isinstance(v, ast.Name):
                    origin = _origin_of(fn, v.id) if v.id != name else origin     # plain aliasing
                elif isinstance(v, ast.Subscript):
                    origin = 'view:' + (v.value.id if isinstance(v.value, ast.Name) else '?')
    return origin


def gen_inplace():
    """conservative AST scan of the registered methods for in-place writes (C13)"""
    rows, fails = [], []
    for rel in INPLACE_FILES:
        path = os.path.join(common.REPO, 'pybaselines', rel + '.py')
        try:
            tree = ast.parse(open(path).read())
        except Exception as e:
            fails.append(f'Inplace:{rel}: cannot parse ({e})')
            continue
        for cls in [n for n in tree.body if isinstance(n, ast.ClassDef)]:
            for fn in [n for n in cls.body if isinstance(n, ast.FunctionDef)]:
                if not any('_register' in ast.unparse(d) for d in fn.decorator_list):
                    continue
                meth = ('2d.' if rel.startswith('two_d') else '') + fn.name
                for node in ast.walk(fn):
                    hits = []
                    if isinstance(node, ast.Assign):
                        for tt in node.targets:
                            if isinstance(tt, ast.Subscript) and isinstance(tt.value, ast.Name):
                                hits.append((tt.value.id, 'setitem'))
                    elif isinstance(node, ast.AugAssign):
                        v = node.target
                        if isinstance(v, ast.Name):
                            hits.append((v.id, 'augassign'))
                        elif isinstance(v, ast.Subscript) and isinstance(v.value, ast.Name):
                            hits.append((v.value.id, 'augassign'))
                    elif isinstance(node, ast.Call):
                        for kw in node.keywords:
                            if kw.arg in ('out', 'output') and isinstance(kw.value, ast.Name):
                                hits.append((kw.value.id, 'out'))
                            if kw.arg in ('overwrite_b', 'overwrite_ab', 'overwrite_a', 'overwrite_x') and isinstance(kw.value, ast.Constant) and kw.value.value is True:
                                for a in node.args:
                                    if isinstance(a, ast.Name):
                                        hits.append((a.id, 'overwrite'))
                        if isinstance(node.func, ast.Attribute) and node.func.attr in MUTATORS and isinstance(node.func.value, ast.Name):
                            hits.append((node.func.value.id, 'mutator'))
                        if isinstance(node.func, ast.Attribute) and node.func.attr in ('copyto', 'put', 'place', 'putmask') and node.args and isinstance(node.args[0], ast.Name):
                            hits.append((node.args[0].id, 'copyto'))
                    for name, kind in hits:
                        if name in ('self', 'params', 'np'):
                            continue
                        rows.append((meth, name, _origin_of(fn, name), kind))
    rows = sorted(set(rows))

    def tkind(t):
        if t in ('data', 'y', 'y0'):
            return 'data'
        if t in ('weights', 'weight_array', 'w_user', 'sqrt_w_user'):
            return 'weights'
        if t in ('alpha', 'alpha_array'):
            return 'alpha'
        if t in ('baseline_points',):
            return 'points'
        if t.endswith('kwargs') or t.endswith('_kws'):
            return 'kwargs'
        return 'other'

    def okind(o):
        if o == 'fresh':
            return 'fresh'
        if o.startswith('setup:'):
            return 'setupCopy' if o.endswith(':1') else 'setupNoCopy'
        if o == 'param':
            return 'param'
        if o.startswith('view:'):
            return 'view'
        return 'unknown'
    lines = ['import PbVerif.Model.Own',
             '/-! GENERATED on every run by harness/pbv/translate.py: in-place writes found in the registered methods — do not edit. -/',
             'namespace PbVerif.Gen', '',
             'inductive TKind | data | weights | alpha | points | kwargs | other', 'deriving DecidableEq, Repr',
             'inductive Origin | fresh | setupCopy | setupNoCopy | param | view | unknown', 'deriving DecidableEq, Repr', '',
             'structure InplaceRow where', '  method : String', '  target : String', '  tkind : TKind', '  origin : Origin', '  kind : String', 'deriving Repr', '',
             'def inplaceTable : List InplaceRow := [']
    lines.append(',\n'.join(f'  ⟨"{m}", "{t}", .{tkind(t)}, .{okind(o)}, "{k}"⟩' for m, t, o, k in rows))
    lines += [']', '', f'def inplaceTranslated : Bool := {"true" if not fails else "false"}', '', 'end PbVerif.Gen', '']
    _write('Inplace.lean', '\n'.join(lines))
    return fails, rows


def gen_consts():
    """literal constants the models depend on, read from the imported package (never typed in by hand)"""
    import struct
    fails = []
    try:
        import importlib
        import sys
        for m in [k for k in sys.modules if k.startswith('pybaselines')]:
            pass
        from pybaselines import utils
        mf = float(utils._MIN_FLOAT)
        bits = struct.unpack('<Q', struct.pack('<d', mf))[0]
        ok = True
    except Exception as e:
        fails.append(f'Consts: cannot read pybaselines.utils._MIN_FLOAT ({e})')
        bits, ok = 0, False
    lines = ['/-! GENERATED on every run by harness/pbv/translate.py from the imported package — do not edit. -/',
             'namespace PbVerif.Gen', '',
             '/-- bit pattern of `pybaselines.utils._MIN_FLOAT` -/',
             f'def minFloatBits : UInt64 := {bits}',
             f'def constsTranslated : Bool := {"true" if ok else "false"}', '', 'end PbVerif.Gen', '']
    _write('Consts.lean', '\n'.join(lines))
    return fails


def gen_registry():
    """`Gen/Registry.lean` (Route A by introspection of the IMPORTED package): for every public method the wrapper's closure
    cells (`sort_keys`, `reshape_keys`, `reshape_baseline`, `skip_sorting`) and the per-point keys of the parameter dictionary
    observed on one probe call (arrays with exactly the data's shape; in 2-D also flat arrays of the data's size, which the
    wrapper should have reshaped).  The table obligations over it live in Props/C01 and Props/C02."""
    import warnings
    import numpy as np
    from . import methods
    fails, rows = [], []
    try:
        from pybaselines import Baseline, Baseline2D
        rng = np.random.default_rng(12345)
        for two_d in (False, True):
            reg = methods.registry(two_d)
            for name in sorted(reg):
                e = reg[name]
                cells = e['cells']
                perpoint, flat, probed = [], [], True
                try:
                    with warnings.catch_warnings():
                        warnings.simplefilter('ignore')
                        kw = methods.filter_kwargs(e, methods.call_kwargs(name, two_d))
                        if name == 'custom_bc':
                            kw['sampling'] = 2      # so that the fitted subset is not mistaken for a per-point array
                        if two_d:
                            x, z, y = methods.make_data2d(rng, 11, 13)
                            fit = Baseline2D(x, z)
                        else:
                            x, y = methods.make_data(rng, 37)
                            fit = Baseline(x)
                        if name == 'collab_pls':
                            y = np.stack([y, 1.1 * y])
                        _, params = getattr(fit, name)(y, **kw)
                    shape = y.shape[1:] if name == 'collab_pls' else y.shape
                    size = int(np.prod(shape))
                    for k, v in params.items():
                        if isinstance(v, np.ndarray) and v.shape == tuple(shape):
                            perpoint.append(k)
                        elif two_d and isinstance(v, np.ndarray) and v.ndim == 1 and v.size == size:
                            flat.append(k)
                except Exception as ex:     # a probe that raises is recorded, not guessed
                    probed = False
                    fails.append(f'Registry: probe call of {"2d." if two_d else ""}{name} raised {type(ex).__name__}')
                rows.append((two_d, name, tuple(cells.get('sort_keys', ()) or ()), tuple(cells.get('reshape_keys', ()) or ()),
                             bool(cells.get('reshape_baseline', False)), bool(cells.get('skip_sorting', False)),
                             tuple(sorted(perpoint)), tuple(sorted(flat)), probed))
    except Exception as ex:
        fails.append(f'Registry: introspection failed ({type(ex).__name__}: {ex})')

    def ls(t):
        return '[' + ', '.join(f'"{k}"' for k in t) + ']'

    def b(v):
        return 'true' if v else 'false'
    lines = ['/-! GENERATED on every run of C01 / C02 by harness/pbv/translate.py from the imported package — do not edit. -/',
             'namespace PbVerif.Gen', '',
             'structure MethodRow where', '  twoD : Bool', '  name : String', '  sortKeys : List String', '  reshapeKeys : List String',
             '  reshapeBaseline : Bool', '  skipSorting : Bool', '  perPoint : List String', '  flatKeys : List String', '  probed : Bool',
             'deriving Repr', '', 'def registry : List MethodRow := [']
    lines.append(',\n'.join(f'  ⟨{b(r[0])}, "{r[1]}", {ls(r[2])}, {ls(r[3])}, {b(r[4])}, {b(r[5])}, {ls(r[6])}, {ls(r[7])}, {b(r[8])}⟩'
                            for r in rows))
    lines += [']', '', f'def registryTranslated : Bool := {b(not fails and bool(rows))}', '', 'end PbVerif.Gen', '']
    _write('Registry.lean', '\n'.join(lines))
    return fails, rows


def gen_wrappers():
    """`Gen/Wrappers.lean` (Route A by introspection): for every public 1-D method the module-level function of the same name:
    its parameters (without `x_data`) and the method's, as `name=default` tokens (numbers normalised through float), in order and
    sorted.  The obligation over it lives in Props/C16."""
    import importlib
    import inspect
    fails, rows = [], []

    def tok(k, v):
        d = v.default
        if d is inspect._empty:
            ds = '<required>'
        elif isinstance(d, bool) or d is None or isinstance(d, str):
            ds = repr(d)
        elif isinstance(d, (int, float)):
            ds = repr(float(d))
        else:
            ds = repr(d)
        kind = {inspect.Parameter.VAR_KEYWORD: '**', inspect.Parameter.VAR_POSITIONAL: '*'}.get(v.kind, '')
        return (kind + k + '=' + ds).replace('"', "'").replace('\\', '/')
    try:
        from pybaselines import Baseline
        meths = {n: f for n, f in inspect.getmembers(Baseline, inspect.isfunction) if not n.startswith('_') and hasattr(f, '__wrapped__')}
        funcs = {}
        for m in ('whittaker', 'spline', 'polynomial', 'morphological', 'smooth', 'classification', 'misc', 'optimizers'):
            mod = importlib.import_module('pybaselines.' + m)
            for n, f in inspect.getmembers(mod, inspect.isfunction):
                if n in meths and f.__module__ == 'pybaselines.' + m:
                    funcs[n] = (m, f)
        for n in sorted(meths):
            mp = [tok(k, v) for k, v in inspect.signature(meths[n]).parameters.items() if k != 'self']
            if n in funcs:
                m, f = funcs[n]
                fps = inspect.signature(f).parameters
                fp = [tok(k, v) for k, v in fps.items() if k != 'x_data']
                rows.append((n, m, True, 'x_data' in fps, fp, mp))
            else:
                rows.append((n, '', False, False, [], mp))
    except Exception as ex:      # noqa: BLE001
        fails.append(f'Wrappers: introspection failed ({type(ex).__name__}: {ex})')

    def ls(t):
        return '[' + ', '.join(f'"{k}"' for k in t) + ']'

    def b(v):
        return 'true' if v else 'false'
    lines = ['/-! GENERATED on every run of C16 by harness/pbv/translate.py from the imported package — do not edit. -/',
             'namespace PbVerif.Gen', '',
             'structure WrapperRow where', '  name : String', '  module : String', '  hasFunction : Bool', '  hasXData : Bool',
             '  fnParams : List String', '  methParams : List String', '  fnSorted : List String', '  methSorted : List String', 'deriving Repr', '',
             'def wrappers : List WrapperRow := [']
    lines.append(',\n'.join(f'  ⟨"{r[0]}", "{r[1]}", {b(r[2])}, {b(r[3])}, {ls(r[4])}, {ls(r[5])}, {ls(sorted(r[4]))}, {ls(sorted(r[5]))}⟩' for r in rows))
    lines += [']', '', f'def wrappersTranslated : Bool := {b(not fails and bool(rows))}', '', 'end PbVerif.Gen', '']
    _write('Wrappers.lean', '\n'.join(lines))
    return fails, rows


def regenerate(prop=None):
    fails = []
    fails += gen_consts()
    f, _ = gen_diags()
    fails += f
    f, _ = gen_inplace()
    fails += f
    from . import translate_weights; fails += translate_weights.gen_weight_exprs(_write)[0]     # C09: Gen/WeightExprs.lean
    fails += __import__(__package__ + '.translate_loops', fromlist=['gen_loops']).gen_loops()[0]     # Gen/Loops (C01 / C09; the driver links it)
    # the registry needs one probe call per method: regenerated by the checks whose theorems read it (and by --setup)
    if prop in (None, 'C01', 'C02') or not os.path.exists(os.path.join(common.LEAN, 'PbVerif', 'Gen', 'Registry.lean')):
        f, _ = gen_registry()
        fails += f
    if prop in (None, 'C16') or not os.path.exists(os.path.join(common.LEAN, 'PbVerif', 'Gen', 'Wrappers.lean')):
        f, _ = gen_wrappers()
        fails += f
    return fails
