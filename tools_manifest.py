#!/usr/bin/env python3
"""Regenerates MANIFEST.json from the table below (run by hand after adding a property check)."""
import json, os
HERE = os.path.dirname(os.path.abspath(__file__))
props = [json.loads(l) for l in open(os.path.join(HERE, 'properties.jsonl'))]

CLAIMED = {
 'C02': dict(
   text=('Lean 4 theorems (PbVerif.Props.C02) prove for every core algorithm, every x with distinct values, every y, optional '
         'weights and EVERY permutation that the sort/unsort wrapper of Baseline/Baseline2D returns the correspondingly permuted '
         'baseline and per-point parameters (1-D and 2-D, rows/columns/both), plus the inverse-sort laws, the stable-argsort '
         'specification, the skip-sorting test and the extended sort order of optimize_extended_range. The hand-written model is tied '
         'to the code by a correspondence check: every public method (95) is run on pre-sorted and on consistently permuted inputs and '
         'the model-predicted un-sorting of the sorted run must equal the permuted run bit for bit (with/without user weights/alpha, '
         'max_iter in {0,1,2,default}, five permutation kinds, x-only/z-only/both in 2-D).'),
   note=('Trusted: Lean kernel; axioms propext, Classical.choice, Quot.sound; the correspondence harness; np.argsort(mergesort) is '
         'a stable sort and fancy indexing selects elements. The wrapped numerical cores are black boxes (no hypothesis on them is '
         'needed). Conformance of each method to the wrapper (every per-point input sorted once, every per-point output un-sorted once) '
         'is decided by the correspondence on explored inputs, not by a theorem. Distinct x is required by the theorem (ties are ordered by position).'),
   technique='Lean 4 proof of permutation equivariance of a hand-written wrapper model + bit-exact model/implementation correspondence over all methods',
   design='4.C02'),
 'C11': dict(
   text=('Lean 4 theorems (PbVerif.Props.C11): the coefficient loop of difference_matrix yields the signed binomials of the d-fold '
         'forward difference for every d; the band specification equals the dense D\'D (windowed-sum lemma), which is symmetric and '
         'banded; the slice-assignment tables of _diff_1/2/3_diags are REGENERATED FROM THE SOURCE on every run (translator, Route A) '
         'and proved equal to D\'D in lower and full LAPACK layout for EVERY N >= 2d+1 via a clamp lemma for the table interpreter plus '
         'kernel-checked `decide` at one reduced size and the finitely many small sizes; padding adds only zero rows; lower->full and '
         'full->lower conversions are exact; and for EVERY history of reconfigurations (diff_order, allow_lower, reverse_diags, '
         'allow_pentapy, padding; pentapy installed or not; every N) the re-used PenalizedSystem equals a fresh one. Correspondence: '
         'translated tables vs the real functions, diff_penalty_diagonals/diff_penalty_matrix/difference_matrix vs the model for d=0..6 '
         'over all branches and paddings, random reconfiguration histories of real PenalizedSystem/PSpline objects vs the model state '
         'machine and vs fresh objects.'),
   note=('Trusted: Lean kernel; axioms propext, Classical.choice, Quot.sound; translate.py (AST fragment -> table; cross-checked against '
         'the real functions each run); the correspondence harness. SciPy sparse path for d>3 or N<2d+1 is tied by the correspondence '
         'only (exact integer comparison on explored sizes), not by a theorem.'),
   technique='Lean 4 proof over tables translated from the source on every run (clamp lemma + kernel decide) + state-machine refinement proof + exact correspondence',
   design='4.C11'),
 'C14': dict(
   text=('Lean 4 theorems (PbVerif.Props.C14) about a model of SciPy\'s reflect-mode flat grey morphology validated bit-for-bit against '
         'scipy.ndimage: reflection commutes with symmetric-window erosion/dilation; hence for every length >= 1 and every half window '
         '(also windows longer than the data) opening <= data, opening is idempotent and commutes with shifts; mor <= data and commutes '
         'with shifts; every imor iterate <= data; the snip clipping loop (all filter orders 2-8, per-side windows, increasing or '
         'decreasing schedule, any padding) returns the data\'s length, is <= data, and commutes with shifts. Correspondence: real '
         'tophat/mor/imor (1-D and 2-D) and snip vs the model, bit-exact on integer/half-integer data, windows from 1 to beyond N; the '
         'rubberband mask is checked by a decidable lower-convex-hull certificate evaluated by the model driver in exact rationals; the '
         'property inequalities, idempotence and shift laws are also evaluated directly on the real code.'),
   note=('Trusted: Lean kernel; axioms propext, Classical.choice, Quot.sound; harness. 2-D laws and the hull certificate are checked by '
         'correspondence/certificate on explored inputs, not proved; Qhull is a black box whose output is certified; snip with smoothing '
         'is outside the <=-data clause; shift/idempotence laws are stated for an explicit half_window.'),
   technique='Lean 4 proof of lattice laws of reflect-mode morphology and of the snip loop + bit-exact correspondence + exact hull certificate',
   design='4.C14'),
 'C03': dict(
   text=('Lean 4 refinement proof (PbVerif.Props.C03): a state machine of everything a Baseline/Baseline2D object caches or lazily '
         'creates (1-D/2-D polynomial helper: order, Vandermonde columns/key, pinv_stale, source of the cached pseudo-inverse; spline '
         'basis key; validated-x flag; lazily created x; banded/pentapy solver) with the coherence invariant proved for init and every '
         'step, and the theorem that for EVERY finite history of operations (orders up/down, weighted/unweighted, Vandermonde-only fits, '
         'spline bases, unique-x methods, wrong-length calls, calls failing before or after a cache write, valid/invalid solver '
         'assignments) and every probe call the probe\'s outcome equals the outcome on a fresh object with the same x. Correspondence: '
         'random and directed histories on real objects (unique x, duplicate x, no x; 1-D and 2-D); after every operation the observable '
         'state incl. content fingerprints of the cached Vandermonde/pseudo-inverse is diffed with the model, and the probe result is '
         'compared with a fresh real object.'),
   note=('Trusted: Lean kernel; axioms propext, Classical.choice, Quot.sound; harness. Numerical equality of reused/fresh results is '
         'compared to 1e-8 relative on explored histories; which real method maps to which model operation is fixed in the harness.'),
   technique='Lean 4 invariant + refinement proof of the cache state machine, tied by state-by-state correspondence on real objects',
   design='4.C03'),
}

checks = []
na = []
for p in props:
    pid = p['id']
    if pid in CLAIMED:
        c = CLAIMED[pid]
        checks.append({
            'property_id': pid,
            'quick_cmd': f'./check {pid} --tier quick',
            'thorough_cmd': f'./check {pid} --tier thorough',
            'evidence_file': f'evidence/{pid}.json',
            'replay_cmd_template': f'./check {pid} --replay {{path}}',
            'engine': 'lean4-proof+correspondence',
            'level_claimed': {'category': 'proof', 'text': c['text'], 'design_ref': c['design']},
            'level_note': c['note'],
            'technique': c['technique'],
        })
    else:
        na.append({'property_id': pid, 'reason': 'check not built yet in this revision (design in DESIGN.md section 4.' + pid + '); will be claimed once its Lean model, theorems and correspondence exist'})

manifest = {
 'version': 1,
 'setup_cmd': './check --setup',
 'hooks': {
   'guard': 'PYBASELINES_VERIF',
   'enable': 'no source hooks are needed: every capture point is installed from the harness by wrapping attributes of the imported modules (DESIGN.md section 7)',
   'baseline_off_cmd': 'cd /repo && /venv/bin/python -m pytest -ra -q -p no:cacheprovider --timeout=900 --continue-on-collection-errors',
   'source_commits': [],
   'add_only': True,
 },
 'engines': [{
   'name': 'lean4-proof+correspondence', 'path': 'check',
   'serves_properties': [c['property_id'] for c in checks],
   'kind_free_text': 'Lean 4.33 theorems about executable models (lean/PbVerif), tables regenerated from /repo by harness/pbv/translate.py, '
                     'and a differential correspondence between the compiled Lean model driver and the real code (harness/pbv)'}],
 'checks': checks,
 'not_applicable': na,
 'notes': 'See DESIGN.md. Fix commits in /repo are listed in known_findings.json.',
}
json.dump(manifest, open(os.path.join(HERE, 'MANIFEST.json'), 'w'), indent=1)
print('claimed', [c['property_id'] for c in checks])
